#!/bin/bash
# usage: mut.sh <prop> <sed-expr> <file>   -- applies a one-line mutant to /repo, runs the check, reverts
P=$1; E=$2; F=$3
if [ -n "$(git -C /repo status --porcelain)" ]; then echo "REPO DIRTY - refusing"; exit 3; fi
cd /repo && sed -i "$E" $F && git diff --stat | tail -1
cd /verif && ./pzv check $P 2>&1 | grep -A1 "^VIOLATION" | grep "rule=" | cut -c1-260
cd /verif && ./pzv check $P 2>&1 | tail -1
git -C /repo checkout -- .
git -C /verif checkout -- evidence
