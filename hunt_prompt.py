import json, sys
pid, wt = sys.argv[1], sys.argv[2]
extra = sys.argv[3] if len(sys.argv) > 3 else ""
p = [json.loads(l) for l in open('/verif/properties.jsonl') if json.loads(l)['id'] == pid][0]
print(f"""You are auditing the Rust FHE library poulpy (phantomzone-org/poulpy) for GENUINE, PRE-EXISTING violations of the semantic property below on the UNMODIFIED code. Work ONLY inside your own scratch git worktree of the repository at {wt} (never touch /repo, never read or write anything under /verif). The sandbox is offline: always pass --offline to cargo; nothing can be downloaded. Use `export CARGO_TARGET_DIR={wt}/target`, at most `-j 4`, and never use `git stash`.

PROPERTY {p['id']}: {p['title']}
Statement: {p['statement']}
Quantified over: {p['quantifier']['text']}
Why tests cannot settle it: {p.get('why_tests_cant','')}
Code the property is anchored in (files): {', '.join(p['anchors']['files'])}
Mechanisms: {json.dumps(p['anchors'].get('mechanism', []))}

Task: do NOT change library source. Write new integration tests (under the relevant crate's `tests/` directory; backends `poulpy_cpu_ref::FFT64Ref` / `NTT120Ref`) that check the property as directly and as exhaustively as you can over the quantified domain - small ring degrees, all the shape/size/rank/offset combinations named above, in-place and out-of-place forms, unusual but admissible argument values (zero, boundary, larger than the object), dirty output/scratch buffers, exact-size scratch - using an independent oracle (exact integer / plaintext model, or agreement between sibling forms of the same operation) where one is needed. Run them and investigate every failure down to the line of library code responsible. Separate real library defects from mistakes in your test or from inputs that the library's own assertions/documentation exclude. {extra}

Report back (concisely), for each GENUINE defect found: (1) the public call and the smallest concrete input that fails, (2) observed vs expected, (3) the file/function/lines responsible and the mechanism in one or two sentences, (4) whether sibling implementations (in-place vs out-of-place, fft64 vs ntt120, other operations of the family) handle the same case correctly, (5) a minimal candidate repair (diff) if obvious, and the path of the test file and the exact command that reproduces it. Also list which parts of the quantified domain you covered without finding anything. Leave the test files in the worktree.""")
