#!/bin/bash
REPO=${REPO:-/repo}; export PZ_REPO=$REPO   # the batteries may be pointed at a scratch clone (REPO=/tmp/x PZ_CACHE=/tmp/y); the registered checks always use /repo
# Applies every kept seeded change to /repo (must be clean), runs the check of the property it breaks, reverts.
# Output: one line per seed: <id> <property> detected|MISSED|patch-does-not-apply  [rules]
if [ -n "$(git -C $REPO status --porcelain)" ]; then echo "REPO DIRTY - refusing"; exit 3; fi
cd /verif
for d in ${ONLY:-seeded/*/}; do
  id=$(basename $d)
  [ -f $d/patch.diff ] || continue
  prop=$(python3 -c "import json;print(json.load(open('$d/meta.json'))['property'])" 2>/dev/null || echo ${id%%-*})
  st=$(python3 -c "import json;print(json.load(open('$d/meta.json')).get('status',''))" 2>/dev/null)
  if [ "$st" = "neutralised" ]; then echo "$id $prop neutralised-by-fix (skipped)"; continue; fi
  if ! git -C $REPO apply --check $PWD/$d/patch.diff 2>/dev/null; then echo "$id $prop patch-does-not-apply"; continue; fi
  git -C $REPO apply $PWD/$d/patch.diff
  # a seed may name the checks that are expected to see it when they differ from its own property ("checks": ["C12"])
  checks=$(python3 -c "import json;print(' '.join(json.load(open('$d/meta.json')).get('checks',[])))" 2>/dev/null)
  out=""
  for c in ${checks:-$prop}; do out="$out
$(./pzv check $c 2>&1)"; done
  rules=$(echo "$out" | grep "rule=" | sed 's/.*rule=\([A-Z0-9-]*\).*/\1/' | sort -u | tr '\n' ' ')
  ex=$(python3 -c "import json;print(json.load(open('$d/meta.json')).get('expected',''))" 2>/dev/null)
  if echo "$out" | grep -q "^VIOLATION"; then echo "$id $prop detected [$rules]"; elif [ "$ex" = "missed" ]; then echo "$id $prop missed (recorded as outside reach)"; else echo "$id $prop MISSED"; fi
  git -C $REPO checkout -- .
done
git -C /verif checkout -- evidence  # evidence written while a seeded change was applied must not be committed
