"""C10 — all backends bit-identical: wiring agreement (kernel arithmetic not decided).

BK-1 every HalImpl method of the Ref and AVX backend of a family forwards to the same shared default (shape) function
BK-2 kernel-trait impl tables agree: same traits/methods, each AVX kernel is the twin of the Ref kernel (same function, falls back to it, or same name stem)
BK-3 sampling is shared by all four backends and backend independent
BK-4 family siblings (small / FFT64-big / NTT120-big) agree on the coverage verdict
BK-5 SIMD kernels that derive a vector trip count from a slice length handle the remainder (scalar tail / fallback to the Ref twin)
BK-6 AVX normalisation step kernels perform the same sequence of digit/carry helper operations as their Ref twins
"""
import re

from . import facts, c09
from .cfg import CFG, Flow

HALIMPL = "poulpy_hal::oep::hal_impl::HalImpl"
FAMILIES = (("FFT64Ref", "FFT64Avx"), ("NTT120Ref", "NTT120Avx"))
STRIP = {"ref", "avx", "avx2", "fma", "bnd50", "bnd63", "u", "aligned", "unaligned", "simd"}


# kernel twins whose names do not share a stem (one line per pair, confirmed by reading both bodies)
NAME_TWINS = {
    ("i64_convolution_by_const_2coeffs", ("i64_convolution_by_real_const_2coeffs_avx",), ("i64_convolution_by_const_2coeffs_ref",)),  # both: real (i64) constant x 2 coefficients
    ("ntt_add", ("ntt_add_avx2",), ("add_bbb_ref",)),  # both: lane-wise add of two q120b vectors
    ("reim_dft_execute", ("reim_dft_execute",), ("fft_ref", "m", "omg")),  # forward FFT over the same table type: AVX goes through ReimFFTAvx::reim_dft_execute
    ("reim_dft_execute", ("reim_dft_execute",), ("ifft_ref", "m", "omg")),  # inverse FFT, same
}


def stem(name):
    return "_".join(t for t in name.split("_") if t not in STRIP)


def lib_calls(f):
    out = []
    for bi, t in f.calls():
        d = f.callee_def(t) or {}
        if d.get("u", "").startswith("poulpy_"):
            out.append((bi, t, d))
    return out


def first_target(p, f):
    """callee of a plain forwarder body; None when the body is not a single library call"""
    cs = lib_calls(f)
    if len(cs) == 1:
        bi, t, d = cs[0]
        return d["u"]
    return None


def backend_name(im):
    return im["self"].rsplit("::", 1)[-1]


def bk1(p, res):
    impls = {backend_name(im): im for im in p.impls if im["trait"] == HALIMPL and not im["test"]}
    n = 0
    for ref, avx in FAMILIES:
        if ref not in impls or avx not in impls:
            res.bad("BK-1", ref + "/" + avx, "anchor-lost:HalImpl", "HalImpl impls for %s / %s not found" % (ref, avx))
            continue
        a, b = impls[ref], impls[avx]
        if set(a["names"]) != set(b["names"]):
            res.bad("BK-1", avx, "method-set", "HalImpl method sets differ: only %s: %s; only %s: %s" % (ref, sorted(set(a["names"]) - set(b["names"]))[:5], avx, sorted(set(b["names"]) - set(a["names"]))[:5]))
        for m in sorted(set(a["names"]) & set(b["names"])):
            fa, fb = p.fn(a["names"][m]), p.fn(b["names"][m])
            if fa is None or fb is None:
                continue
            n += 1
            ta, tb = first_target(p, fa), first_target(p, fb)
            if ta is not None and ta == tb:
                res.ok("BK-1", {"method": m, "family": ref[:-3], "shared_default": ta} if n % 40 == 1 else None)
            elif ta is None and tb is None:
                res.undec("BK-1", "%s::%s and %s::%s are not plain forwarders" % (ref, m, avx, m))
            else:
                # frozen exception, confirmed by reading: the AVX NTT120 backend consumes the DFT buffer with its own in-place kernel
                if avx == "NTT120Avx" and m == "vec_znx_idft_apply_consume" and tb and "vec_znx_dft_consume::" in tb:
                    res.ok("BK-1", {"method": m, "exception": "NTT120Avx in-place consume kernel (table exception)"})
                    continue
                res.bad("BK-1", "%s::%s" % (avx, m), "different-shape-code", "HalImpl::%s is wired to %s on %s but to %s on %s: the shared shape logic is no longer shared" % (m, tb, avx, ta, ref), site=fb.where())
    return n


def kernel_tables(p):
    """backend -> {trait uid: {method name: callee function (Fn) or None}}"""
    out = {}
    for im in p.impls:
        if im["test"] or not im["trait"] or im["trait"] == HALIMPL:
            continue
        b = backend_name(im)
        if b not in ("FFT64Ref", "FFT64Avx", "NTT120Ref", "NTT120Avx"):
            continue
        if not im["trait"].startswith(("poulpy_cpu_ref::reference", "poulpy_cpu_avx")):
            continue
        tr = p.traits.get(im["trait"])
        methods = {}
        names = set(im["names"])
        if tr:
            names |= {n for n, (u, dflt) in tr["items"].items() if dflt}
        for mname in names:
            f = p.fn(im["names"][mname]) if mname in im["names"] else (p.fn(tr["items"][mname][0]) if tr else None)
            methods[mname] = f
        targs = ",".join(im["cr"].tys[x]["s"] if isinstance(x, int) else str(x) for x in (im["cr"].raw["impls"][0].get("trait_args", []) if False else []))
        key = im["trait"] + "<" + ",".join(sorted(re.sub(r"(\w+::)+", "", x) for x in im.get("trait_arg_strs", []))) + ">"
        out.setdefault(b, {})[key] = methods
    return out


def bk2(p, res):
    kt = kernel_tables(p)
    n = 0
    for ref, avx in FAMILIES:
        ta, tb = kt.get(ref, {}), kt.get(avx, {})
        only_ref = sorted(set(ta) - set(tb))
        only_avx = sorted(set(tb) - set(ta))
        for t in only_ref:
            res.bad("BK-2", avx, "missing-kernel-trait:%s" % t.rsplit("::", 1)[-1], "%s implements kernel trait %s, %s does not" % (ref, t, avx))
        for t in only_avx:
            res.undec("BK-2", "%s implements %s which %s lacks" % (avx, t, ref))
        for t in sorted(set(ta) & set(tb)):
            for m in sorted(set(ta[t]) & set(tb[t])):
                fa, fb = ta[t][m], tb[t][m]
                if fa is None or fb is None:
                    continue
                ca = [d for _, _, d in lib_calls(fa)]
                cb = [d for _, _, d in lib_calls(fb)]
                if not ca and not cb:
                    continue
                n += 1
                if fa.uid == fb.uid:
                    res.ok("BK-2")
                    continue
                ua = [d["u"] for d in ca]
                ub = [d["u"] for d in cb]
                if ua and ua == ub:
                    res.ok("BK-2", {"kernel": m, "same_function": ua[0]} if n % 40 == 1 else None)
                    continue
                # fallback: the AVX kernel itself calls the Ref kernel on tails / short inputs
                fb_ok = False
                for d in cb:
                    g = p.fn(d["u"])
                    if g is not None and ua and any(x["u"] in ua for _, _, x in lib_calls(g)):
                        fb_ok = True
                sa = {stem(d.get("n", "")) for d in ca}
                sb = {stem(d.get("n", "")) for d in cb}
                if fb_ok:
                    res.ok("BK-2", {"kernel": m, "twin": "AVX kernel falls back to the Ref kernel"} if n % 40 == 1 else None)
                elif sa & sb or stem(m) in sb and stem(m) in sa:
                    res.ok("BK-2", {"kernel": m, "twin": "name stem %s" % sorted(sa & sb)} if n % 40 == 1 else None)
                elif (m, tuple(sorted(d.get("n") for d in cb)), tuple(sorted(d.get("n") for d in ca))) in NAME_TWINS:
                    res.ok("BK-2", {"kernel": m, "twin": "frozen name table"})
                elif not ca and cb:
                    # the reference kernel is written inline, the AVX kernel forwards: the callee must carry the method's own name
                    # (decorations stripped) and receive the method's parameters in their declared order
                    def norm(x):
                        x = re.sub(r"_(avx2|avx|fma|scalar|ref)$", "", x)
                        x = re.sub(r"^v(?=i128_)", "", x)
                        return re.sub(r"^ntt_", "", x)
                    flb = Flow(fb)
                    problems = []
                    for _, tt, d in lib_calls(fb):
                        if norm(d.get("n", "")) != norm(m):
                            problems.append(("other-kernel:%s" % d.get("n"), "forwards to `%s`, a kernel of another name" % d.get("n")))
                            continue
                        order = [sorted(r[1] for r in flb.op_roots(a) if r[0] == "param") for a in tt["a"]]
                        seq = [o[0] for o in order if len(o) == 1]
                        if any(len(o) > 1 for o in order) or seq != sorted(seq) or len(set(seq)) != len(seq):
                            problems.append(("operands-permuted:%s" % d.get("n"), "passes its parameters to `%s` in another order (%s)" % (d.get("n"), seq)))
                    if problems:
                        res.bad("BK-2", "%s::%s" % (avx, m), problems[0][0], "%s::%s %s while the reference kernel is written inline: the two backends compute different maps" % (avx, m, problems[0][1]), site=fb.where())
                    else:
                        res.ok("BK-2", {"kernel": m, "twin": "reference inline; AVX forwards to the kernel of the same name with parameters in order"} if n % 10 == 1 else None)
                elif not ca or not cb:
                    res.undec("BK-2", "%s::%s: one side is not a forwarder" % (t.rsplit("::", 1)[-1], m))
                else:
                    res.bad("BK-2", "%s as %s" % (avx, t.rsplit("::", 1)[-1]), "kernel-twin:%s" % m,
                            "kernel %s::%s calls %s on %s but %s on %s: the AVX kernel is not the twin of the reference kernel" % (t.rsplit("::", 1)[-1], m, sorted(d.get("n") for d in cb), avx, sorted(d.get("n") for d in ca), ref),
                            site=fb.where())
    return n


def _reach_names(p, f, prefix, depth=3):
    """callee names reachable from f (through library functions below `prefix`), with the defining function"""
    seen = set()
    out = {}
    st = [(f, 0)]
    while st:
        g, d = st.pop()
        if g is None or g.uid in seen:
            continue
        seen.add(g.uid)
        for body in [g] + p.closures_of(g):
            for bi, t in body.calls():
                dd = body.callee_def(t) or {}
                out.setdefault((dd.get("n", ""), dd.get("p", "")), g)
                if d < depth and dd.get("u", "").startswith(prefix):
                    st.append((p.fn(dd["u"]), d + 1))
    return out


def bk8(p, res):
    """wrapping kernels agree over the full i64 range: where the reference kernel of a kernel-trait method multiplies with `i64::wrapping_mul` (low 64 bits of the 64 x 64 product),
    the AVX kernel of the same method must not multiply with `_mm256_mul_epi32` (the signed product of the low 32 bits of each lane, exact only for operands that fit in i32)"""
    kt = kernel_tables(p)
    n = 0
    for ref, avx in FAMILIES:
        ta, tb = kt.get(ref, {}), kt.get(avx, {})
        for t in sorted(set(ta) & set(tb)):
            for m in sorted(set(ta[t]) & set(tb[t])):
                fa, fb = ta[t][m], tb[t][m]
                if fa is None or fb is None or fa.uid == fb.uid:
                    continue
                ra = _reach_names(p, fa, "poulpy_cpu_ref")
                wide = [k for k in ra if k[0] == "wrapping_mul" and "<impl i64>" in k[1]]
                if not wide:
                    continue
                n += 1
                rb = _reach_names(p, fb, "poulpy_cpu_avx")
                narrow = [(k, g) for k, g in rb.items() if k[0] == "_mm256_mul_epi32"]
                if narrow:
                    g = narrow[0][1]
                    res.bad("BK-8", g.pretty, "narrow-multiply:_mm256_mul_epi32",
                            "%s::%s: the reference kernel multiplies with i64::wrapping_mul, the AVX kernel %s with _mm256_mul_epi32, which reads only the low signed 32 bits of each lane: "
                            "the two backends differ as soon as an operand does not fit in i32 (e.g. a = 2^31, b = 1)" % (avx, m, g.name), site=g.where())
                else:
                    res.ok("BK-8", {"kernel": m, "backend": avx, "reference": "i64::wrapping_mul", "avx": "no 32-bit signed multiply"})
    return n


def bk13(p, res):
    """AVX normalisation step kernels: `get_carry_avx(x, d, width, top_mask)` removes the digit d and shifts by the digit's width; d comes from `get_digit_avx(x, mask, sign)`.
    The width constants of the carry and the mask of its digit come from one and the same `normalize_consts_avx(b)` call - the reference kernels write
    `get_carry_i64(b, x, get_digit_i64(b, x))` with one b (DC-1).  A carry taken at `>> base2k` from a digit of `base2k - lsh` bits loses lsh bits of every carry."""
    n = 0
    for f in sorted(p.lib_fns(), key=lambda x: x.uid):
        if not f.uid.startswith("poulpy_cpu_avx::znx_avx::normalization") or not f.blocks or f.is_test():
            continue
        flow = None
        for bi, t in f.calls():
            if (f.callee_def(t) or {}).get("n") != "get_carry_avx" or len(t["a"]) < 4:
                continue
            flow = flow or Flow(f)

            def consts_call(op):
                out = set()
                for r in flow.op_roots(op):
                    if r[0] == "call" and (f.callee_def(f.blocks[r[1]]["t"]) or {}).get("n") == "normalize_consts_avx":
                        out.add(r[1])
                    else:
                        out.add(("other",) + tuple(r[:2]))
                return out
            n += 1
            dsrc = set()
            for r in flow.op_roots(t["a"][1]):
                if r[0] == "call" and (f.callee_def(f.blocks[r[1]]["t"]) or {}).get("n") == "get_digit_avx":
                    dsrc |= consts_call(f.blocks[r[1]]["t"]["a"][1])
                else:
                    dsrc.add(("not-a-digit",) + tuple(r[:2]))
            csrc = consts_call(t["a"][2]) | consts_call(t["a"][3])
            if dsrc == csrc and all(isinstance(x, int) for x in dsrc):
                res.ok("BK-13", {"kernel": f.pretty} if n % 6 == 1 else None)
            elif any(not isinstance(x, int) for x in dsrc | csrc):
                res.undec("BK-13", "%s: digit / width constants not traced to normalize_consts_avx" % f.pretty)
            else:
                res.bad("BK-13", f.pretty, "carry-width-differs-from-digit-width", "%s takes a carry with the width constants of one normalize_consts_avx call from a digit extracted with the mask of "
                        "another: the reference kernel uses one width for both (`get_carry(b, x, get_digit(b, x))`), so the two backends disagree whenever the widths differ (shift not a "
                        "multiple of the radix)" % f.pretty, site=f.where(t["l"]))
    return n


def bk12(p, res):
    """Newton / Hensel lifting of an inverse modulo a power of two, x <- x * (2 - p * x): every step doubles the number of correct low bits, so a loop that stops on a test of
    the requested width is right for every width, and a fixed number c of steps is right only up to 2^c bits - it has to reach the width of the word (64), or the function
    has to compare its width parameter with a constant <= 2^c.  (The AVX automorphism needs p^-1 modulo 2N: 17 bits at N = 2^16.)"""
    n = 0
    for f in sorted(p.lib_fns(), key=lambda x: x.uid):
        if f.is_test() or not f.blocks or not f.uid.startswith(("poulpy_cpu_avx", "poulpy_cpu_ref", "poulpy_hal")):
            continue
        flow = None
        steps = []
        for bi, t in f.calls():
            if (f.callee_def(t) or {}).get("n") != "wrapping_mul" or len(t["a"]) != 2:
                continue
            flow = flow or Flow(f)
            for k in (0, 1):
                for r in flow.op_roots(t["a"][k]):
                    if r[0] != "call":
                        continue
                    t2 = f.blocks[r[1]]["t"]
                    if (f.callee_def(t2) or {}).get("n") == "wrapping_sub" and len(t2["a"]) == 2 and t2["a"][0][0] == "k" and t2["a"][0][1].get("v") == 2:
                        if any(r3[0] == "call" and (f.callee_def(f.blocks[r3[1]]["t"]) or {}).get("n") == "wrapping_mul" for r3 in flow.op_roots(t2["a"][1])):
                            steps.append(bi)
        if not steps:
            continue
        n += 1
        g = CFG(f)
        loop = None
        for l in g.loops():
            if steps[0] in l["body"] and (loop is None or len(l["body"]) < len(loop["body"])):
                loop = l
        if loop is None:
            res.undec("BK-12", "%s: lifting step outside a loop" % f.pretty)
            continue
        by_param = False
        const_trip = None
        for b, s2 in loop["exits"]:
            t = f.blocks[b]["t"]
            if not t or t["k"] != "Switch":
                continue
            seen = set()
            work = list(flow.op_roots(t["o"]))
            while work:
                r = work.pop()
                if r in seen:
                    continue
                seen.add(r)
                if r[0] == "param":
                    by_param = True
                elif r[0] == "bin":
                    for o in f.blocks[r[1]]["s"][r[2]][2]["o"]:
                        work.extend(flow.op_roots(o))
                elif r[0] == "other" and r[1] >= 0 and f.blocks[r[1]]["s"][r[2]][2].get("k") == "Disc":
                    work.extend(flow.roots(f.blocks[r[1]]["s"][r[2]][2]["p"][0], tuple(f.blocks[r[1]]["s"][r[2]][2]["p"][1:])))
                elif r[0] == "call":
                    t2 = f.blocks[r[1]]["t"]
                    if (f.callee_def(t2) or {}).get("n") == "next" and t2["a"]:
                        for r2 in flow.op_roots(t2["a"][0]):
                            if r2[0] == "call":
                                for o in f.blocks[r2[1]]["t"]["a"]:
                                    work.extend(flow.op_roots(o))
                            else:
                                work.append(r2)
                elif r[0] == "agg":
                    st = f.blocks[r[1]]["s"][r[2]][2]
                    os_ = st.get("o", [])
                    if st.get("fields") == ["start", "end"] and all(o[0] == "k" and isinstance(o[1].get("v"), int) for o in os_):
                        const_trip = os_[1][1]["v"] - os_[0][1]["v"]
                    else:
                        for o in os_:
                            work.extend(flow.op_roots(o))
        if by_param:
            res.ok("BK-12", {"fn": f.pretty, "steps": "until the requested width"})
            continue
        if const_trip is None:
            res.undec("BK-12", "%s: the number of lifting steps is not recognised" % f.pretty)
            continue
        reach = 1 << min(const_trip, 7)
        guarded = False
        for blk in f.blocks:
            for st in blk["s"]:
                if st[0] == "A" and st[2]["k"] == "Bin" and st[2].get("op") in ("Le", "Lt", "Ge", "Gt"):
                    a, b = st[2]["o"]
                    for x, y in ((a, b), (b, a)):
                        if y[0] == "k" and isinstance(y[1].get("v"), int) and y[1]["v"] <= reach and any(r[0] == "param" for r in flow.op_roots(x)):
                            guarded = True
        if reach >= 64 or guarded:
            res.ok("BK-12", {"fn": f.pretty, "steps": const_trip, "bits": reach})
        else:
            res.bad("BK-12", f.pretty, "fixed-lifting-steps", "%s lifts the inverse with a fixed %d steps: correct to %d bits only, while nothing bounds the requested width (the automorphism "
                    "needs log2(2N) bits - 17 at N = 2^16); the reference backend computes the exact permutation" % (f.pretty, const_trip, reach), site=f.where())
    return n


def bk11(p, res):
    """power-of-two down-scaling kernels round: in every reference kernel named *pow2* / *power_of_two* the value that is shifted right by a variable amount is the sum of the
    datum and a rounding bias (the i64 kernels add 2^(k-1) - sign); a plain arithmetic shift floors, which makes the element widths (FFT64 / NTT120 families) disagree by one
    unit in the last place on cross-radix normalisations"""
    n = 0
    for f in sorted(p.fns.values(), key=lambda x: x.uid):
        if not f.blocks or not f.uid.startswith("poulpy_cpu_ref::reference") or f.is_test() or not any(k in f.uid for k in ("pow2", "power_of_two")):
            continue
        flow = Flow(f)
        for blk in f.blocks:
            for st in blk["s"]:
                if not (st[0] == "A" and st[2]["k"] == "Bin" and st[2].get("op") in ("Shr", "ShrUnchecked") and st[2]["o"][1][0] != "k"):
                    continue
                n += 1
                biased = False
                for r in flow.op_roots(st[2]["o"][0]):
                    if r[0] == "bin" and f.blocks[r[1]]["s"][r[2]][2].get("op", "").startswith("Add"):
                        biased = True
                    elif r[0] == "call" and (f.callee_def(f.blocks[r[1]]["t"]) or {}).get("n") in ("wrapping_add", "checked_add", "add", "unwrap", "expect"):
                        biased = True
                if biased:
                    res.ok("BK-11", {"fn": f.pretty})
                else:
                    res.bad("BK-11", f.pretty, "plain-shift-down-scaling",
                            "%s scales down with a plain `>>` (floor) where its sibling kernels add the rounding bias 2^(k-1) - sign first: the two element widths disagree by one unit in "
                            "the last place whenever the dropped bits are not zero" % f.pretty, site=f.where(st[3] if len(st) > 3 else None))
    return n


def bk10(p, res):
    """i128 accumulators hold exact values of i64 digits over the whole i64 range: a digit is widened before it is negated / added / subtracted.  Narrow arithmetic first
    (`ai.wrapping_neg() as i128`, `(a - b) as i128`) wraps at the ends of the i64 range (-i64::MIN) although the accumulator could hold the exact value."""
    n = 0
    for f in sorted(p.fns.values(), key=lambda x: x.uid):
        if not f.blocks or "ntt120" not in f.uid or not f.uid.startswith(("poulpy_cpu_ref", "poulpy_cpu_avx")) or f.is_test():
            continue
        flow = None
        for blk in f.blocks:
            for st in blk["s"]:
                if not (st[0] == "A" and st[2]["k"] == "Cast" and st[2].get("ck") == "IntToInt"):
                    continue
                if f.ty(st[2]["from"]).get("s") != "i64" or f.ty(st[2]["ty"]).get("s") != "i128":
                    continue
                n += 1
                if flow is None:
                    flow = Flow(f)
                why = None
                for r in flow.op_roots(st[2]["o"][0]):
                    if r[0] == "call":
                        nm = (f.callee_def(f.blocks[r[1]]["t"]) or {}).get("n", "")
                        if nm.startswith("wrapping_") or nm in ("neg", "sub", "add"):
                            why = nm
                    elif r[0] == "bin":
                        s2 = f.blocks[r[1]]["s"][r[2]][2]
                        if s2.get("op") in ("Neg", "Sub", "SubWithOverflow", "Add", "AddWithOverflow", "Mul", "MulWithOverflow"):
                            why = s2.get("op")
                if why:
                    res.bad("BK-10", f.pretty, "narrow-arithmetic-before-widening:%s" % why,
                            "%s widens the result of an i64 `%s` into the i128 accumulator: at the ends of the i64 range the narrow operation wraps (e.g. -i64::MIN) although the "
                            "accumulator holds the exact value when the digit is widened first" % (f.pretty, why), site=f.where(st[3] if len(st) > 3 else None))
                else:
                    res.ok("BK-10")
    return n


def bk9(p, res):
    """family twins: a shape function that exists under the same name in reference::fft64 and reference::ntt120 bounds its work by the same quantities. For every comparison of a bare
    parameter with a derived bound (`if limb_offset >= col_max { .. }`), the set of parameters the bound depends on is the same in both families"""
    from .sym import Sym, Poly

    def norm(n):
        return re.sub(r"_(u64|u32|i64|f64)$", "", n or "")
    fam = {}
    for f in p.lib_fns():
        if f.kind == "Closure":
            continue
        m = re.match(r"poulpy_cpu_ref::reference::(fft64|ntt120)::(.*)$", f.uid)
        if m:
            fam.setdefault(m.group(2), {})[m.group(1)] = f

    def deps(poly, f, out):
        for a in poly.atoms():
            if a[0] == "p":
                out.add(norm(f.param_names().get(a[1])))
            elif a[0] == "f":
                for k in a[2]:
                    deps(Poly(dict(k)), f, out)

    def bounds(f):
        sym = Sym(f, Flow(f))
        g = CFG(f)
        r = set()
        for bi in sorted(g.reach):
            for st in f.blocks[bi]["s"]:
                if st[0] == "A" and st[2]["k"] == "Bin" and st[2]["op"] in ("Ge", "Gt", "Lt", "Le"):
                    x, y = [sym.operand(o) for o in st[2]["o"]]
                    for u, v in ((x, y), (y, x)):
                        at = list(u.atoms())
                        if len(u.t) == 1 and len(at) == 1 and at[0][0] == "p" and not at[0][2] and list(u.t.values()) == [1]:
                            s = set()
                            deps(v, f, s)
                            if s:
                                r.add((norm(f.param_names().get(at[0][1])), tuple(sorted(s))))
        return r
    n = 0
    for k, d in sorted(fam.items()):
        if len(d) < 2:
            continue
        fa, fb = d["fft64"], d["ntt120"]
        ra, rb = bounds(fa), bounds(fb)
        if not ra and not rb:
            continue
        n += 1
        if ra == rb:
            res.ok("BK-9", {"function": k, "bounds": sorted(ra)})
        else:
            da, db = sorted(ra - rb), sorted(rb - ra)
            res.bad("BK-9", fa.pretty, "family-bound-differs:%s" % ",".join(sorted({x[0] for x in da + db})),
                    "%s bounds `%s` by a quantity depending on %s in the FFT64 family and on %s in the NTT120 family: the two families keep a different number of product limbs "
                    "(vmp with limb_offset = 1 into a result shorter than the matrix: 0 on FFT64, the last limb's product on NTT120)"
                    % (k, (da or db)[0][0], [x[1] for x in da], [x[1] for x in db]), site=fa.where())
    return n


def bk3(p, res):
    impls = {backend_name(im): im for im in p.impls if im["trait"] == HALIMPL and not im["test"]}
    n = 0
    for m in ("vec_znx_fill_uniform", "vec_znx_fill_normal", "vec_znx_add_normal", "vec_znx_big_add_normal"):
        ends = {}
        for b, im in impls.items():
            f = p.fn(im["names"].get(m, ""))
            chain = []
            hops = 0
            while f is not None and hops < 6:
                chain.append(f.uid)
                cs = lib_calls(f)
                if len(cs) != 1:
                    break
                tg = [x for x in p.targets(f, cs[0][1]) if p.fn(x) is not None]
                f = p.fn(tg[0]) if tg else None
                hops += 1
            ends[b] = chain[-1] if chain else None
        n += 1
        fam = {}
        for b, e in ends.items():
            fam.setdefault(b[:-3], set()).add(e)
        bad = {k: v for k, v in fam.items() if len(v) != 1}
        if bad:
            res.bad("BK-3", m, "sampling-not-shared", "sampling routine %s ends in different functions for Ref and AVX: %s" % (m, ends))
        else:
            res.ok("BK-3", {"method": m, "ends": {k: sorted(v)[0] for k, v in fam.items()}})
    # sampling primitives are backend independent: no generic backend parameter, no kernel-trait call
    for f in p.lib_fns():
        if f.uid.startswith(("poulpy_cpu_ref::reference::znx::sampling", "poulpy_cpu_ref::reference::vec_znx::sampling")) and f.kind != "Closure":
            n += 1
            bad = [d["p"] for _, _, d in lib_calls(f) if "tr" in d and not d["u"].startswith(("poulpy_hal::layouts", "poulpy_hal::source"))]
            if bad and not f.uid.startswith("poulpy_cpu_ref::reference::vec_znx::sampling"):
                res.bad("BK-3", f.pretty, "backend-dependent-sampling", "%s calls backend-dispatched %s" % (f.pretty, bad[:2]), site=f.where())
            else:
                res.ok("BK-3")
    return n


def bk5(p, res):
    """vector trip count from a slice length without a remainder"""
    n = 0
    for f in sorted(p.lib_fns(), key=lambda x: x.uid):
        if not f.uid.startswith("poulpy_cpu_avx") or not f.tf or f.kind == "Closure":
            continue
        flow = Flow(f)
        spans = []
        for bi, blk in enumerate(f.blocks):
            if blk["c"]:
                continue
            for s in blk["s"]:
                if s[0] == "A" and s[2]["k"] == "Bin" and s[2]["op"] in ("Shr", "ShrUnchecked", "Div"):
                    a, b = s[2]["o"]
                    if b[0] != "k" or b[1].get("v") not in (1, 2, 3, 4, 8):
                        continue
                    from_len = False
                    for r in flow.op_roots(a):
                        if r[0] == "call" and (f.callee_def(f.blocks[r[1]]["t"]) or {}).get("n") == "len":
                            from_len = True
                        if r[0] == "other" and r[1] >= 0 and f.blocks[r[1]]["s"][r[2]][2].get("op") == "PtrMetadata":
                            from_len = True
                    if from_len:
                        spans.append((s[3], s[2]["op"], b[1]["v"]))
        for bi, t in f.calls():
            if (f.callee_def(t) or {}).get("n") == "step_by" and len(t["a"]) == 2 and t["a"][1][0] == "k" and t["a"][1][1].get("v") in (2, 4, 8):
                # `for i in (0..len).step_by(lanes)`: ceil(len / lanes) full-width iterations
                for r in flow.op_roots(t["a"][0]):
                    if r[0] == "agg":
                        st = f.blocks[r[1]]["s"][r[2]][2]
                        for o in st.get("o", []):
                            if any(r2[0] == "call" and (f.callee_def(f.blocks[r2[1]]["t"]) or {}).get("n") == "len" for r2 in flow.op_roots(o)):
                                spans.append((t["l"], "Div", t["a"][1][1]["v"]))
        if not spans:
            continue
        g = CFG(f)
        if not g.loops():
            continue
        n += 1
        names = [d.get("n", "") for _, _, d in lib_calls(f)]
        # the fallback must be the reference kernel of the same name (znx_add_avx -> znx_add_ref), not just any *_ref helper
        own = re.sub(r"_(avx2_fma|avx2|avx|fma)$", "", f.name)
        own = re.sub(r"_(avx2_fma|avx2|avx|fma)(?=_|$)", "", own)
        has_tail = any(x.endswith("_ref") and re.sub(r"_ref$", "", x) in (own, own.replace("_assign", "_assign")) for x in names) or any(
            x.endswith("_ref") and stem(x) == stem(f.name) for x in names)
        # explicit remainder handling: a `%`/`&` of the length, or scalar tail loop
        rem = False
        for blk in f.blocks:
            for s in blk["s"]:
                if s[0] == "A" and s[2]["k"] == "Bin" and s[2]["op"] in ("Rem", "BitAnd"):
                    for o in s[2]["o"]:
                        for r in flow.op_roots(o):
                            if r[0] == "call" and (f.callee_def(f.blocks[r[1]]["t"]) or {}).get("n") == "len":
                                rem = True
        # a non-debug assertion that the length is a multiple of the lane count is an accepted precondition idiom
        asserted = False
        for bi, t in f.calls():
            if (f.callee_def(t) or {}).get("n") in ("is_multiple_of",) and len(t["a"]) == 2 and t["a"][1][0] == "k" and t["a"][1][1].get("v") in (2, 4, 8, 16):
                # a quantity is asserted to be a multiple of the lane count
                asserted = True
        masked = any("maskload" in x or "maskstore" in x for x in (((f.callee_def(t) or {}).get("n", "")) for _, t in f.calls()))
        if rem and masked and not has_tail and not asserted:
            # the remainder is handled by masked lanes: whether the mask enables exactly `len % lanes` lanes is a fact about values
            res.undec("BK-5", "%s: remainder handled through masked loads / stores (lane mask not decided)" % f.pretty)
        elif has_tail or rem or asserted:
            res.ok("BK-5", {"kernel": f.pretty, "tail": "ref fallback" if has_tail else ("remainder test" if rem else "asserted multiple")} if n % 10 == 1 else None)
        else:
            res.bad("BK-5", f.pretty, "no-tail", "%s runs len >> %d vector iterations and never touches the remaining len %% %d elements (no scalar tail, no fallback to the reference kernel): for ring degrees below the lane count the output is left unwritten while the reference backend computes it"
                    % (f.pretty, spans[0][2], 1 << spans[0][2] if spans[0][1] != "Div" else spans[0][2]), site=f.where(spans[0][0]))
    return n


HELPERS = ("get_digit", "get_carry", "add", "sub", "lsh", "rsh", "neg")


def op_skeleton(p, f, avx):
    """multiset of digit/carry helper applications inside the main loop (or whole body for scalar code)"""
    from collections import Counter
    c = Counter()
    for bi, t in f.calls():
        d = f.callee_def(t) or {}
        n = d.get("n", "")
        if n.startswith("get_digit"):
            c["get_digit"] += 1
        elif n.startswith("get_carry"):
            c["get_carry"] += 1
    for cl in p.closures_of(f):
        for bi, t in cl.calls():
            n = (cl.callee_def(t) or {}).get("n", "")
            if n.startswith("get_digit"):
                c["get_digit"] += 1
            elif n.startswith("get_carry"):
                c["get_carry"] += 1
    return c


def bk7(p, res):
    """AVX kernels that exist in an in-place (`*_assign_avx*`) and an out-of-place form compute the same map on the same lanes: the two forms use the
    same set of arithmetic / logic / compare intrinsics (loads, stores and constant set-ups ignored; an accumulate-capable const-generic twin may add)"""
    fns = {f.name: f for f in p.lib_fns() if f.uid.startswith("poulpy_cpu_avx") and f.tf and f.kind != "Closure"}

    def intr(f):
        out = set()
        for bi, t in f.calls():
            nm = (f.callee_def(t) or {}).get("n", "")
            if nm.startswith("_mm") and not re.search(r"load|store|set1|setzero|cvtsi|castsi|undefined|stream", nm):
                out.add(nm)
        return out
    def helpers(f):
        out = {}
        for bi, t in f.calls():
            d = f.callee_def(t) or {}
            if d.get("u", "").startswith("poulpy_cpu_avx") and re.search(r"reduce|get_digit|get_carry", d.get("n", "")):
                out[d["n"]] = out.get(d["n"], 0) + 1
        return out
    n = 0
    for nm, f in sorted(fns.items()):
        m = re.match(r"(.*)_assign(_avx.*)$", nm)
        if not m or (m.group(1) + m.group(2)) not in fns:
            continue
        twin = fns[m.group(1) + m.group(2)]
        n += 1
        a, b = intr(f), intr(twin)
        # a const-generic twin (`<const OVERWRITE: bool>`) also accumulates into its result
        extra = {"_mm256_add_epi64", "_mm256_add_pd"} if twin.generics else set()
        only_a, only_b = (a - b), (b - a) - extra
        # crate-local helpers (lazy reductions, digit / carry helpers): the two forms apply each of them equally often
        ha, hb = helpers(f), helpers(twin)
        if not (only_a or only_b) and ha != hb and not twin.generics:
            diff = sorted(k for k in set(ha) | set(hb) if ha.get(k, 0) != hb.get(k, 0))
            res.bad("BK-7", f.pretty, "helper-count-differs:%s" % ",".join(diff),
                    "%s applies %s, its out-of-place twin %s applies %s: one of the two forms skips a step (a lazy reduction, a digit / carry split) that the other - and the reference "
                    "kernel both stand for - performs on every operand" % (f.pretty, {k: ha.get(k, 0) for k in diff}, twin.name, {k: hb.get(k, 0) for k in diff}), site=f.where())
            continue
        if only_a or only_b:
            res.bad("BK-7", f.pretty, "intrinsic-set-differs:%s" % ",".join(sorted(only_a | only_b)),
                    "%s and its out-of-place twin %s do not apply the same vector operations: %s only in the in-place form, %s only in the out-of-place form - the two forms (and the reference kernel both stand for) compute different values on some lanes"
                    % (f.pretty, twin.name, sorted(only_a) or "none", sorted(only_b) or "none"), site=f.where())
        else:
            res.ok("BK-7", {"in_place": nm, "out_of_place": twin.name, "intrinsics": len(a)} if n % 6 == 1 else None)
    return n


def bk6(p, res):
    """normalisation step kernels: per `lsh == 0` / `lsh != 0` branch the AVX kernel applies get_digit / get_carry as often as the Ref kernel"""
    n = 0
    refs = {f.name: f for f in p.lib_fns() if f.uid.startswith("poulpy_cpu_ref::reference::znx::normalization::") and f.kind != "Closure" and f.name.endswith("_ref")}
    for f in sorted(p.lib_fns(), key=lambda x: x.uid):
        if not f.uid.startswith("poulpy_cpu_avx::znx_avx::normalization::") or f.kind == "Closure" or not f.name.endswith("_avx"):
            continue
        twin = refs.get(f.name[: -len("_avx")] + "_ref")
        if twin is None:
            continue
        a = branch_skeletons(p, f)
        b = branch_skeletons(p, twin)
        if a is None or b is None:
            res.undec("BK-6", "%s: branch structure not recognised" % f.pretty)
            continue
        n += 1
        if a == b:
            res.ok("BK-6", {"kernel": f.name, "digit/carry applications per branch": a})
        else:
            res.bad("BK-6", f.pretty, "op-skeleton", "%s applies the digit/carry helpers %s per (lsh == 0, lsh != 0) branch, its reference twin %s applies %s: the two-stage digit/carry split of the reference is not mirrored"
                    % (f.pretty, a, twin.name, b), site=f.where())
    return n


def _helper_kind(fn, t):
    n = (fn.callee_def(t) or {}).get("n", "")
    if n.startswith("get_digit"):
        return 0
    if n.startswith("get_carry"):
        return 1
    return None


def _max_path_counts(fn, g, blocks, entry, stop):
    """max number of (digit, carry) helper calls on an acyclic path from `entry` staying inside `blocks` (back edges ignored)"""
    dom = g.dom()
    memo = {}

    def rec(b, onpath):
        if b in memo:
            return memo[b]
        t = fn.blocks[b]["t"]
        own = [0, 0]
        if t and t["k"] == "Call":
            k = _helper_kind(fn, t)
            if k is not None:
                own[k] += 1
        best = (0, 0)
        for s2 in g.succ[b]:
            if s2 not in blocks or s2 in dom.get(b, ()) or s2 in onpath or s2 == stop:
                continue
            r = rec(s2, onpath | {s2})
            if r[0] + r[1] > best[0] + best[1]:
                best = r
        res = (own[0] + best[0], own[1] + best[1])
        memo[b] = res
        return res
    return rec(entry, {entry})


def branch_skeletons(p, f):
    """per lsh branch: (digit, carry) helper applications per element = sum over the loops / for_each closures reachable on that branch of the
    maximum over paths through the loop body"""
    g = CFG(f)
    flow = Flow(f)
    sw = None
    for b in sorted(g.reach):
        t = f.blocks[b]["t"]
        if t and t["k"] == "Switch" and sw is None:
            for r in flow.op_roots(t["o"]):
                if r[0] == "bin":
                    st = f.blocks[r[1]]["s"][r[2]][2]
                    if st["op"] in ("Eq", "Ne"):
                        vals = [o[1].get("v") if o[0] == "k" else None for o in st["o"]]
                        prm = [any(x[0] == "param" for x in flow.op_roots(o)) if o[0] != "k" else False for o in st["o"]]
                        if 0 in vals and any(prm):
                            sw = sw or (b, t, st["op"])
            if sw is None and any(r[0] == "param" for r in flow.op_roots(t["o"])) and len(t["ts"]) == 1 and t["ts"][0][0] == 0:
                sw = (b, t, "Match0")
    if sw is None:
        return None
    b, t, op = sw
    if op == "Eq":
        zero_arm, other_arm = t["else"], t["ts"][0][1]
    else:
        zero_arm, other_arm = t["ts"][0][1], t["else"]
    loops = g.loops()
    outer = [L for L in loops if not any(L is not M and L["body"] < M["body"] for M in loops)]
    out = []
    for arm in (zero_arm, other_arm):
        reach = set()
        st = [arm]
        while st:
            x = st.pop()
            if x in reach:
                continue
            reach.add(x)
            st.extend(g.succ[x])
        tot = [0, 0]
        for L in outer:
            if L["header"] in reach:
                d, c = _max_path_counts(f, g, L["body"], L["header"], None)
                tot[0] += d
                tot[1] += c
        for x in sorted(reach):
            tt = f.blocks[x]["t"]
            if tt and tt["k"] == "Call" and (f.callee_def(tt) or {}).get("n") in ("for_each", "map", "fold"):
                for cu in f.callee_closures(tt):
                    cf = p.fn(cu)
                    if cf is not None:
                        cg = CFG(cf)
                        d, c = _max_path_counts(cf, cg, cg.reach, 0, None)
                        tot[0] += d
                        tot[1] += c
        out.append(tuple(tot))
    return out


def run(res, tier):
    res.level = "other"
    res.explanation = ("Bit-equality of a SIMD kernel with its scalar twin is arithmetic and is not decided. Decided is the wiring the README's argument rests on, on MIR of the configuration "
                       "the test suite never compiles (--features enable-avx, +avx2,+fma): every HalImpl method of the Ref and AVX backend of a family forwards to the same shared shape "
                       "function; the kernel-trait tables agree and each AVX kernel is the twin of the Ref kernel (same function, falls back to it, or same name stem); the sampling chain is "
                       "shared and backend independent; family siblings agree on output coverage; SIMD kernels that derive a vector trip count from a slice length handle the remainder; the "
                       "AVX normalisation step kernels apply the digit/carry helpers as often per branch as their reference twins.")
    res.rule("BK-1", "HalImpl::m forwards to the same default function on FFT64Ref/FFT64Avx and on NTT120Ref/NTT120Avx (one table exception)")
    res.rule("BK-2", "kernel traits: same trait set; per method the AVX callee is the Ref callee, falls back to it, or shares its name stem")
    res.rule("BK-3", "vec_znx_fill_uniform / fill_normal / add_normal / big_add_normal reach one sampling function per family; sampling primitives make no backend-dispatched call")
    res.rule("BK-4", "small / FFT64-big / NTT120-big siblings agree on the limb-coverage verdict")
    res.rule("BK-5", "target_feature kernels with a `len >> k` trip count have a scalar tail, a fallback to a *_ref kernel, or an explicit multiple-of-lanes check")
    res.rule("BK-7", "an AVX kernel's in-place (`*_assign_avx*`) and out-of-place forms use the same set of arithmetic / logic / compare intrinsics (loads, stores, constant set-ups ignored; a const-generic accumulate twin may add)")
    res.rule("BK-8", "where the reference kernel uses i64::wrapping_mul the AVX kernel of the same trait method does not multiply with _mm256_mul_epi32 (low 32 bits only)")
    res.rule("FFT-1", "every site of the FFT64 transform (reference and AVX executors, the shared table builder) compares the transform size with the same cut-over constant per direction")
    res.rule("BK-13", "AVX normalisation steps: a carry is taken with the width constants of the same normalize_consts_avx call that gave the mask of its digit")
    res.rule("BK-12", "a Hensel lifting x <- x * (2 - p * x) runs until the requested width, or a fixed number of steps that reaches the word width / an asserted bound")
    res.rule("BK-11", "reference power-of-two down-scaling kernels add a rounding bias before the right shift (i64 and i128 alike)")
    res.rule("BK-10", "NTT120 family: an i64 digit is widened to i128 before it is negated / added / subtracted (exact over the whole i64 range)")
    res.rule("BK-9", "same-name shape functions of reference::fft64 and reference::ntt120 compare a parameter against bounds that depend on the same parameters")
    res.rule("BK-6", "AVX normalisation step kernels: (get_digit, get_carry) applications per lsh branch equal those of the *_ref twin")
    res.assumptions = ["kernel arithmetic inside matching twins is not compared", "FFT64 vs NTT120 numerical agreement is not decided"]
    cfgs = ["avx-dev"] if tier == "quick" else ["avx-dev", "avx-nodbg"]
    for cfg in cfgs:
        p = facts.load(cfg)
        res.configs.append(p.build_info)
        n1 = bk1(p, res)
        res.floor("BK-1", "HalImpl methods compared", n1, 200)
        n2 = bk2(p, res)
        res.floor("BK-2", "kernel methods compared", n2, 100)
        n3 = bk3(p, res)
        res.floor("BK-3", "sampling obligations", n3, 6)
        res.rule("SIB-2", "")
        n4 = c09.sib(p, res)
        res.rules["BK-4"]["obligations"] += res.rules["SIB-2"]["obligations"]
        res.rules["BK-4"]["discharged"] += res.rules["SIB-2"]["discharged"]
        res.rules["BK-4"]["violations"] += res.rules["SIB-2"]["violations"]
        del res.rules["SIB-2"]
        n5 = bk5(p, res)
        res.floor("BK-5", "SIMD kernels with length-derived trip counts", n5, 25)
        n6 = bk6(p, res)
        res.floor("BK-6", "normalisation kernel twins", n6, 8)
        n8 = bk8(p, res)
        res.floor("BK-8", "kernel methods whose reference multiplies i64 x i64 wrapping", n8, 2, ref_min=0)
        n9 = bk9(p, res)
        res.floor("BK-9", "same-name shape functions of the two families with parameter bounds", n9, 1)
        n11 = bk11(p, res)
        res.floor("BK-11", "power-of-two down-scaling kernels", n11, 4, ref_min=4)
        from .c07 import fft1
        nf = fft1(p, res)
        res.floor("FFT-1", "strategy cut-over comparisons", nf, 12, ref_min=8)
        n13 = bk13(p, res)
        res.floor("BK-13", "get_carry_avx applications", n13, 18, ref_min=0)
        n12 = bk12(p, res)
        res.floor("BK-12", "modular-inverse liftings", n12, 1, ref_min=0)
        n10 = bk10(p, res)
        res.floor("BK-10", "i64 -> i128 widenings of the NTT120 family", n10, 30, ref_min=20)
        n7 = bk7(p, res)
        res.floor("BK-7", "in-place / out-of-place AVX kernel pairs", n7, 15, ref_min=0)
        res.fn_count += n1 + n2 + n5 + n6
