"""Symbolic integer expressions (polynomials over uninterpreted atoms) extracted from MIR.

An atom is a hashable tuple:
  ("p", local, path)            parameter (or field path below a parameter)
  ("f", name, args)             pure function application, args = tuple of Poly keys
  ("cap", index, path)          closure capture (resolved through the parent when possible)
  ("phi", fn-uid, local)        value with several definitions (loop variable, branch join)
  ("call", fn-uid, bb)          result of an impure / unknown call
  ("op", ...)                   anything else (opaque)
A Poly is a dict {monomial: coefficient}; monomial = tuple(sorted atoms) (with repetition)."""

PURE_NAMES = {
    "n", "size", "cols", "rank", "rank_in", "rank_out", "base2k", "max_k", "k", "dnum", "dsize", "rows", "cols_in", "cols_out",
    "log_budget", "log_delta", "effective_k", "as_usize", "as_u32", "into", "from", "len", "min", "max", "div_ceil",
    "output_size", "input_size", "max_state_size", "bit_size", "max_size", "poly_count", "limbs", "clone", "deref", "as_ref", "borrow",
    "saturating_sub", "next_power_of_two", "ilog2", "log_n", "ring_degree", "is_multiple_of", "data", "to_ref", "glwe_layout", "ggsw_layout",
    "block_size", "abs", "unsigned_abs", "is_empty", "bytes_of", "bytes_of_from_infos", "wrapping_sub", "wrapping_add", "pow", "shl", "shr",
    "to_mut", "deref_mut", "as_mut", "borrow_mut",
}


class Poly:
    __slots__ = ("t",)

    def __init__(self, t=None):
        self.t = {k: v for k, v in (t or {}).items() if v != 0}

    @staticmethod
    def const(c):
        return Poly({(): c}) if c else Poly()

    @staticmethod
    def atom(a):
        return Poly({(a,): 1})

    def __add__(self, o):
        t = dict(self.t)
        for k, v in o.t.items():
            t[k] = t.get(k, 0) + v
        return Poly(t)

    def __sub__(self, o):
        t = dict(self.t)
        for k, v in o.t.items():
            t[k] = t.get(k, 0) - v
        return Poly(t)

    def __mul__(self, o):
        t = {}
        for k1, v1 in self.t.items():
            for k2, v2 in o.t.items():
                k = tuple(sorted(k1 + k2, key=repr))
                t[k] = t.get(k, 0) + v1 * v2
        return Poly(t)

    def key(self):
        return tuple(sorted(((k, v) for k, v in self.t.items()), key=repr))

    def __eq__(self, o):
        return isinstance(o, Poly) and self.t == o.t

    def __hash__(self):
        return hash(self.key())

    def is_const(self):
        return all(k == () for k in self.t)

    def const_value(self):
        if self.is_const():
            return self.t.get((), 0)
        return None

    def atoms(self):
        out = set()
        for k in self.t:
            out.update(k)
        return out

    def nonneg_coeffs(self):
        return all(v >= 0 for v in self.t.values())

    def __repr__(self):
        if not self.t:
            return "0"
        parts = []
        for k, v in sorted(self.t.items(), key=repr):
            m = "*".join(fmt_atom(a) for a in k)
            if not k:
                parts.append(str(v))
            elif v == 1:
                parts.append(m)
            else:
                parts.append("%d*%s" % (v, m))
        return " + ".join(parts)


def fmt_atom(a):
    if a[0] == "p":
        return "arg%d%s" % (a[1], "".join("." + str(x) for x in a[2]))
    if a[0] == "f":
        return "%s(%s)" % (a[1], ", ".join(repr(Poly(dict(x))) for x in a[2]))
    if a[0] == "cap":
        return "cap%s%s" % (a[1], "".join("." + str(x) for x in a[2]))
    if a[0] == "phi":
        return "phi_%d" % a[2]
    if a[0] == "call":
        return "call@bb%d" % a[2]
    return str(a)


class Sym:
    def __init__(self, fn, flow, names=None, param_subst=None, cap_subst=None):
        self.fn = fn
        self.flow = flow
        self.memo = {}
        self.param_subst = param_subst or {}
        self.cap_subst = cap_subst or {}
        self.is_closure = fn.kind == "Closure"

    def _path(self, p):
        return tuple(x[2] if isinstance(x, list) and x[0] == "f" else ("[%s]" % x[1] if isinstance(x, list) and x[0] == "i" else None)
                     for x in p[1:] if isinstance(x, list) and x[0] in ("f", "i"))

    def local(self, l, path=(), depth=0):
        # a path-restricted flow knows every definition of a local on the path: a read inside the evaluation of a definition at position `at` sees the latest definition
        # before it (`tot += x` three times is a sum of three terms, not a cycle); a read from outside (a rule asking for an operand) sees the last one
        multi = getattr(self.flow, "all_defs", None)
        chosen = None
        if multi and l in multi and not (1 <= l <= self.fn.argc):
            ds = multi[l]
            at = getattr(self, "at", None)
            if at is not None:
                ds = [d for d in ds if self.flow.order(d) < at]
            chosen = ds[-1] if ds else "none"
        key = (l, path) if chosen is None else (l, path, "none" if chosen == "none" else self.flow.order(chosen))
        if key in self.memo:
            return self.memo[key]
        if depth > 60:
            return Poly.atom(("op", "deep", l))
        self.memo[key] = Poly.atom(("phi", self.fn.uid, l))  # cycle guard
        if chosen is None:
            r = self._local(l, path, depth)
        elif chosen == "none":
            r = Poly.atom(("phi", self.fn.uid, l) if not path else ("phi", self.fn.uid, l, path))
        else:
            r = self._eval_def(chosen, l, path, depth)
        self.memo[key] = r
        return r

    def _eval_def(self, d, l, path, depth):
        saved = getattr(self, "at", None)
        if hasattr(self.flow, "order"):
            self.at = self.flow.order(d)
        try:
            if d[0] == "call":
                return self.call(d[1], d[2], path, depth)
            _, bi, si, pl, rv = d
            if len(pl) > 1:
                return Poly.atom(("op", "partial", l))
            return self.rvalue(rv, path, depth, bi, si)
        finally:
            self.at = saved

    def _local(self, l, path, depth):
        fn = self.fn
        if 1 <= l <= fn.argc:
            if self.is_closure and l == 1 and path:
                # closure environment: first path element is the capture index
                cap = path[0]
                if cap in self.cap_subst and len(path) == 1:
                    return self.cap_subst[cap]
                return Poly.atom(("cap", cap, path[1:]))
            if (l, path) in self.param_subst:
                return self.param_subst[(l, path)]
            return Poly.atom(("p", l, path))
        ds = self.flow.defs.get(l, [])
        # ignore re-definitions that only re-borrow (`x = &mut *x`)
        if len(ds) != 1:
            return Poly.atom(("phi", fn.uid, l) if not path else ("phi", fn.uid, l, path))
        return self._eval_def(ds[0], l, path, depth)

    def place(self, p, path=(), depth=0):
        pp = tuple(x for x in self._path(p) if x is not None)
        return self.local(p[0], pp + tuple(path), depth + 1)

    def _promoted_int(self, text):
        """`&1` is a promoted constant: body `_1 = const 1; _0 = &_1` -> 1"""
        import re
        m = re.search(r"promoted\[(\d+)\]$", text)
        prom = getattr(self.fn, "promoted", None) or []
        if not m or int(m.group(1)) >= len(prom):
            return None
        body = prom[int(m.group(1))]
        vals = {}
        ret = None
        for st in body:
            if st[0] != "A" or len(st[1]) != 1:
                return None
            rv = st[2]
            if rv["k"] == "Use" and rv["o"][0][0] == "k" and isinstance(rv["o"][0][1].get("v"), int):
                vals[st[1][0]] = rv["o"][0][1]["v"]
            elif rv["k"] == "Ref" and st[1][0] == 0 and len(rv["p"]) == 1:
                ret = rv["p"][0]
            else:
                return None
        return vals.get(ret)

    def operand(self, op, path=(), depth=0):
        if op[0] in ("c", "m"):
            return self.place(op[1], path, depth)
        if op[0] == "k":
            c = op[1]
            if "v" in c and isinstance(c["v"], int):
                return Poly.const(c["v"])
            if "uneval" in c:
                v = self._promoted_int(c.get("s", ""))
                if v is not None:
                    return Poly.const(v)
                return Poly.atom(("const", self.fn.duid(c["uneval"]), c.get("s", "")))
            return Poly.atom(("const", c.get("s", "?")))
        return Poly.atom(("op", "operand"))

    def rvalue(self, rv, path, depth, bi, si):
        k = rv["k"]
        if k == "Use":
            return self.operand(rv["o"][0], path, depth + 1)
        if k == "Cast":
            if rv["ck"] in ("IntToInt", "Subtype", "PtrToPtr", "Transmute") or rv["ck"].startswith("PointerCoercion"):
                return self.operand(rv["o"][0], path, depth + 1)
            return Poly.atom(("op", "cast", self.fn.uid, bi, si))
        if k in ("Ref", "RawPtr"):
            return self.place(rv["p"], path, depth + 1)
        if k == "Bin":
            op = rv["op"]
            a = self.operand(rv["o"][0], (), depth + 1)
            b = self.operand(rv["o"][1], (), depth + 1)
            base = op.replace("WithOverflow", "").replace("Unchecked", "")
            if op.endswith("WithOverflow"):
                if path and path[0] == "1":
                    return Poly.atom(("op", "overflow-flag"))
                # field .0 selects the value
            if base == "Add":
                return a + b
            if base == "Sub":
                return a - b
            if base == "Mul":
                return a * b
            if base == "Shl" and b.const_value() is not None and 0 <= b.const_value() < 63:
                return a * Poly.const(1 << b.const_value())
            return Poly.atom(("f", base, (a.key(), b.key())))
        if k == "Un":
            a = self.operand(rv["o"][0], (), depth + 1)
            if rv["op"] == "Neg":
                return Poly.const(0) - a
            if rv["op"] == "PtrMetadata":
                return Poly.atom(("f", "len", (a.key(),)))
            return Poly.atom(("f", rv["op"], (a.key(),)))
        if k == "Agg":
            ak = rv.get("ak")
            if ak in ("Tuple", "Adt") and path:
                names = rv.get("fields") or [str(i) for i in range(len(rv["o"]))]
                if path[0] in names:
                    return self.operand(rv["o"][names.index(path[0])], path[1:], depth + 1)
            if ak == "Adt" and len(rv["o"]) == 1 and not path and (rv.get("fields") or ["0"]) == ["0"]:
                # single-field tuple struct (Rank(1), TorusPrecision(x)): the newtype is transparent
                return self.operand(rv["o"][0], (), depth + 1)
            return Poly.atom(("op", "agg", self.fn.uid, bi, si))
        return Poly.atom(("op", k, self.fn.uid, bi, si))

    def call(self, bb, t, path, depth):
        fn = self.fn
        d = fn.callee_def(t)
        if d is None:
            return Poly.atom(("call", fn.uid, bb))
        name = d.get("n", "")
        if name in ("add", "sub", "mul") and len(t["a"]) == 2 and d.get("p", "").startswith(("std::ops::", "core::ops::")):
            a = self.operand(t["a"][0], (), depth + 1)
            b = self.operand(t["a"][1], (), depth + 1)
            return a + b if name == "add" else (a - b if name == "sub" else a * b)
        if name in PURE_NAMES or name.endswith("_tmp_bytes") or name.startswith("bytes_of"):
            args = tuple(self.operand(a, (), depth + 1).key() for a in t["a"])
            if name in ("into", "from", "as_usize", "clone", "deref", "as_ref", "borrow", "as_u32", "to_ref", "to_mut", "deref_mut", "as_mut", "borrow_mut") and len(args) == 1:
                # conversions are transparent
                return self.operand(t["a"][0], path, depth + 1)
            a = ("f", name, args)
            if path:
                a = ("f", name, args, path)
            return Poly.atom(a)
        a = ("call", fn.uid, bb) if not path else ("call", fn.uid, bb, path)
        return Poly.atom(a)
