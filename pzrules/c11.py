"""C11 — outputs are fully determined by inputs: no stale data, no stray writes (shape functions in the limb-range idiom).

WR-1 every limb of the selected output column is written on every path (overwrite-type operations)
WR-2 column arguments are honoured
WR-3 no store through a pointer derived from a read-only operand
COL-1 core operations write every column of their result
"""
from . import facts, wr
from .cfg import CFG, Flow
from .sym import Sym, Poly

SHAPE_PREFIXES = ("poulpy_cpu_ref::reference", "poulpy_cpu_ref::hal_defaults", "poulpy_cpu_avx")


def wr1(p, res, restrict=None, rule="WR-1"):
    memo = {}
    sfs = wr.shape_functions(p, SHAPE_PREFIXES)
    n_ow = 0
    covered = 0
    for f, si in sorted(sfs, key=lambda x: x[0].uid):
        if f.is_test() or f.name.startswith("test_"):
            continue
        if restrict and not restrict(f):
            continue
        bn = wr.base_name(f.name)
        if bn not in wr.OVERWRITE:
            continue
        n_ow += 1
        v = wr.analyse(p, f, memo)
        if v.kind == "covered":
            covered += 1
            res.ok(rule, {"fn": f.pretty, "limb_ranges": v.ranges[:2], "exact": not getattr(v, "bounded", False)} if covered % 12 == 1 else None)
        elif v.kind in ("gap", "skip"):
            if "forwards to" in v.msg:
                res.rules[rule]["obligations"] += 1  # inherited from the callee, reported there
                continue
            if v.kind == "skip" and _guard_folds_over_operands(f):
                # the conditional write is guarded by a bound folded over *all* operands of a slice parameter (`a.iter().map(size).min()`): whether the other writes cover
                # the limbs below it depends on every part's size - outside the lattice
                res.undec(rule, "%s: conditional limb write guarded by a fold over a slice of operands" % f.pretty)
                continue
            res.bad(rule, f.pretty, "stale-limb:%s" % v.kind, "%s (overwrite-type operation): %s" % (f.pretty, v.msg), site=f.where(v.line))
        else:
            # a function that addresses the output at one computed limb only (no loop over limbs, no forwarder) leaves the other limbs stale
            er = wr.early_return(p, f)
            if er is not None:
                res.bad(rule, f.pretty, "stale-limb:early-return", "%s (overwrite-type operation): %s" % (f.pretty, er), site=f.where())
                continue
            single = single_limb_writer(p, f, si)
            if single is not None:
                res.bad(rule, f.pretty, "stale-limb:single-limb-writer", "%s (overwrite-type operation) writes the output only at limb `%s` and has no loop over the remaining limbs: they keep their previous contents whenever the result has more than one limb"
                        % (f.pretty, single[0]), site=f.where(single[1]))
            else:
                res.undec(rule, "%s: %s" % (f.pretty, v.msg))
    return n_ow, covered


def _guard_folds_over_operands(f):
    """a comparison whose bound comes from Iterator::min / max / fold (through unwrap / unwrap_or)"""
    flow = Flow(f)
    for blk in f.blocks:
        for st in blk["s"]:
            if st[0] == "A" and st[2]["k"] == "Bin" and st[2]["op"] in ("Ge", "Gt", "Lt", "Le"):
                for o in st[2]["o"]:
                    todo = [o]
                    hops = 0
                    while todo and hops < 6:
                        hops += 1
                        oo = todo.pop()
                        for r in flow.op_roots(oo):
                            if r[0] == "call":
                                t = f.blocks[r[1]]["t"]
                                d = f.callee_def(t) or {}
                                if d.get("n") in ("min", "max", "fold", "min_by_key", "max_by_key") and "iter" in d.get("p", "").lower():
                                    return True
                                if d.get("n") in ("unwrap_or", "unwrap", "unwrap_or_default", "expect") and t["a"]:
                                    todo.append(t["a"][0])
    return False


def single_limb_writer(p, f, si):
    if si.out is None:
        return None
    out_l = si.out[0]
    g = CFG(f)
    flow = Flow(f, transparent=wr.VIEW_T)
    sym = Sym(f, Flow(f))
    ats = []
    for bi, t in f.calls():
        d = f.callee_def(t) or {}
        if d.get("n") == "at_mut" and len(t["a"]) == 3 and any(r[0] == "param" and r[1] == out_l for r in flow.op_roots(t["a"][0])):
            ats.append((bi, t))
        elif d.get("u", "").startswith(("poulpy_cpu_ref::", "poulpy_cpu_avx::")) and d.get("n") not in ("at_mut", "at", "to_mut", "to_ref"):
            # hands the output to another library function: not a leaf writer
            for a in t["a"]:
                if a[0] in ("c", "m") and f.local_ty(a[1][0]).get("r", "").startswith("&mut") and any(r[0] == "param" and r[1] == out_l for r in flow.op_roots(a)) \
                        and not any(r[0] == "call" for r in Flow(f).op_roots(a)):
                    return None
    if len(ats) != 1 or p.closures_of(f):
        return None
    bi, t = ats[0]
    if g.innermost_loop(bi) is not None:
        return None
    return (repr(sym.operand(t["a"][2])), t["l"])


def wr2(p, res, restrict=None, rule="WR-2"):
    n = 0
    sites = 0
    for f, si in sorted(wr.shape_functions(p, SHAPE_PREFIXES), key=lambda x: x[0].uid):
        if f.is_test() or f.name.startswith("test_"):
            continue
        if restrict and not restrict(f):
            continue
        k, issues = wr.column_check(p, f, si)
        sites += k
        if k == 0:
            continue
        n += 1
        if issues:
            for where, nm, got in issues[:3]:
                res.bad(rule, f.pretty, "column:%s" % nm, "%s: operand `%s` is accessed at column %s instead of its column argument `%s_col`" % (f.pretty, nm, got, nm), site=where)
        else:
            res.ok(rule, {"fn": f.pretty, "accessor_sites": k} if n % 30 == 1 else None)
    return n, sites


STORE_FNS = ("_mm256_storeu_si256", "_mm256_store_si256", "_mm256_storeu_pd", "_mm256_store_pd", "_mm256_storeu_ps", "_mm_storeu_si128", "_mm256_maskstore_epi64",
             "_mm256_stream_si256", "_mm_storeu_pd", "_mm256_storeu2_m128i", "write", "write_unaligned", "write_volatile", "write_bytes", "copy_to", "copy_to_nonoverlapping")


def wr3(p, res):
    """pointers derived from `<[T]>::as_ptr()` of a shared slice (or *const -> *mut casts of them) never reach a store destination"""
    n_src = 0
    for f in p.lib_fns():
        if not f.uid.startswith(("poulpy_cpu_ref", "poulpy_cpu_avx", "poulpy_hal")) or f.is_test():
            continue
        tainted = {}
        for bi, t in f.calls():
            d = f.callee_def(t) or {}
            if d.get("n") == "as_ptr" and d.get("p", "").startswith(("core::slice", "std::slice", "alloc::vec", "std::vec")) and t["a"]:
                # origin must be a shared reference (a `&[T]` parameter or reborrow), not a `&mut`
                a = t["a"][0]
                if a[0] in ("c", "m"):
                    ty = f.local_ty(a[1][0])
                    if ty.get("r", "").startswith("&mut"):
                        continue
                    # a shared reborrow of a `&mut` slice is not a read-only operand of the operation
                    fl = Flow(f, transparent=("deref", "as_ref", "borrow", "index", "get_unchecked", "as_slice"))
                    roots = fl.op_roots(a)
                    if any(r[0] == "param" and f.local_ty(r[1]).get("r", "").startswith("&mut") for r in roots):
                        continue
                    if not any(r[0] == "param" for r in roots):
                        continue
                tainted[t["d"][0]] = (bi, t["l"])
                n_src += 1
        if not tainted:
            continue
        # forward propagation through casts / pointer arithmetic
        changed = True
        while changed:
            changed = False
            for bi, blk in enumerate(f.blocks):
                if blk["c"]:
                    continue
                for s in blk["s"]:
                    if s[0] != "A" or len(s[1]) != 1:
                        continue
                    rv = s[2]
                    if rv["k"] in ("Use", "Cast") and rv["o"][0][0] in ("c", "m") and len(rv["o"][0][1]) == 1 and rv["o"][0][1][0] in tainted and s[1][0] not in tainted:
                        tainted[s[1][0]] = tainted[rv["o"][0][1][0]]
                        changed = True
                t = blk["t"]
                if t and t["k"] == "Call" and len(t["d"]) == 1 and t["d"][0] not in tainted:
                    d = f.callee_def(t) or {}
                    if d.get("n") in ("add", "offset", "sub", "cast", "cast_mut", "wrapping_add", "byte_add", "as_mut_ptr") and t["a"] and t["a"][0][0] in ("c", "m") and len(t["a"][0][1]) == 1 and t["a"][0][1][0] in tainted:
                        tainted[t["d"][0]] = tainted[t["a"][0][1][0]]
                        changed = True
        bad = None
        for bi, blk in enumerate(f.blocks):
            if blk["c"]:
                continue
            for s in blk["s"]:
                if s[0] == "A" and "*" in s[1][1:] and s[1][0] in tainted:
                    bad = (s[3], "store through the pointer")
                if s[0] == "CNO" and s[2][0] in ("c", "m") and s[2][1][0] in tainted:
                    bad = (s[4], "copy_nonoverlapping destination")
            t = blk["t"]
            if t and t["k"] == "Call":
                d = f.callee_def(t) or {}
                if d.get("n") in STORE_FNS and t["a"] and t["a"][0][0] in ("c", "m") and t["a"][0][1][0] in tainted:
                    bad = (t["l"], "%s destination" % d.get("n"))
                if d.get("n") in ("copy_nonoverlapping", "copy") and len(t["a"]) >= 2 and t["a"][1][0] in ("c", "m") and t["a"][1][1][0] in tainted:
                    bad = (t["l"], "ptr::%s destination" % d.get("n"))
        if bad:
            res.bad("WR-3", f.pretty, "store-through-const", "%s: a pointer obtained with as_ptr() from a read-only slice operand is used as %s" % (f.pretty, bad[1]), site=f.where(bad[0]))
        else:
            res.ok("WR-3")
    return n_src


COL_NAMES = {"glwe_add_into", "glwe_sub", "glwe_negate", "glwe_copy", "glwe_rotate", "glwe_mul_xp_minus_one", "glwe_lsh", "glwe_rsh", "glwe_normalize",
             # in-place forms whose untouched columns would be wrong: res = a - res must negate every column of res
             "glwe_sub_negate_assign", "glwe_negate_assign"}
VIEW_CORE = wr.VIEW_T + ("data_mut", "data")


def col1(p, res, rule="COL-1"):
    """core noise-free operations: the columns handed as `res_col` to HAL calls on the result cover [0, res.rank()+1) on every path"""
    n = 0
    for f in sorted(p.lib_fns(), key=lambda x: x.uid):
        if not f.uid.startswith(("poulpy_core::api::operations", "poulpy_core::operations")) or f.kind == "Closure" or f.name not in COL_NAMES:
            continue
        n += 1
        g = CFG(f)
        flow = Flow(f, transparent=VIEW_CORE)
        plain = Flow(f)
        sym = Sym(f, plain)
        res_l = None
        for l in range(2, f.argc + 1):
            if f.local_ty(l).get("r", "").startswith("&mut") and "Scratch" not in f.local_ty(l)["s"]:
                res_l = l
                break
        if res_l is None:
            res.undec(rule, "%s: no result parameter" % f.pretty)
            continue

        def is_res(op):
            return any(r[0] == "param" and r[1] == res_l for r in flow.op_roots(op))
        # rank of the result: rank(view of res) (+1)
        rank_atoms = set()
        for bi, t in f.calls():
            d = f.callee_def(t) or {}
            if d.get("n") == "rank" and t["a"] and is_res(t["a"][0]):
                for mono in sym.local(t["d"][0]).t:
                    rank_atoms.update(mono)
        if not rank_atoms:
            res.undec(rule, "%s: res.rank() is not read" % f.pretty)
            continue
        R = Poly.atom(sorted(rank_atoms, key=repr)[0]) + Poly.const(1)
        items = {}
        unrec = 0
        for L in g.loops():
            nx = None
            for b in sorted(L["body"]):
                t = f.blocks[b]["t"]
                if t and t["k"] == "Call" and (f.callee_def(t) or {}).get("n") == "next" and g.innermost_loop(b) is L:
                    nx = (b, t)
                    break
            if nx is None:
                continue
            rg = wr.range_of_next(f, plain, sym, nx[1])
            var = Poly.atom(("call", f.uid, nx[0], ("0",)))
            wrote = False
            for b in L["body"]:
                t = f.blocks[b]["t"]
                if not t or t["k"] != "Call":
                    continue
                d = f.callee_def(t) or {}
                if not d.get("n", "").startswith("vec_znx_") or len(t["a"]) < 3:
                    continue
                for ai, a in enumerate(t["a"][:-1]):
                    if a[0] in ("c", "m") and is_res(a) and f.local_ty(a[1][0]).get("r", "").startswith("&mut"):
                        col = sym.operand(t["a"][ai + 1])
                        if col == var and rg is not None:
                            wrote = True
                        else:
                            unrec += 1
                        break
            if wrote:
                items[L["header"]] = {"bb": L["header"], "lo": rg[0], "hi": rg[1], "skip": False, "line": f.blocks[nx[0]]["t"]["l"]}
        # result writes outside loops (single-column operations) make the function non-idiomatic
        for bi, t in f.calls():
            d = f.callee_def(t) or {}
            if d.get("n", "").startswith("vec_znx_") and g.innermost_loop(bi) is None and len(t["a"]) >= 3:
                for ai, a in enumerate(t["a"][:-1]):
                    if a[0] in ("c", "m") and is_res(a) and f.local_ty(a[1][0]).get("r", "").startswith("&mut"):
                        unrec += 1
                        break
        if not items or unrec:
            res.undec(rule, "%s: result columns are not all written in range loops over the column index (%d other writes)" % (f.pretty, unrec))
            continue
        # per returning path
        loop_of = {}
        for L in g.loops():
            if L["header"] in items:
                for b in L["body"]:
                    loop_of.setdefault(b, L)
        paths = []
        budget = [512]

        def walk(b, acc, onpath):
            if budget[0] <= 0:
                return
            if b in loop_of:
                L = loop_of[b]
                acc2 = acc + (items[L["header"]],)
                for (x, y) in L["exits"]:
                    if y not in onpath and y in g.can_return():
                        walk(y, acc2, onpath | set(L["body"]) | {y})
                return
            if b in g.returns:
                budget[0] -= 1
                paths.append(acc)
                return
            for s2 in g.succ[b]:
                if s2 in onpath or s2 not in g.can_return():
                    continue
                walk(s2, acc, onpath | {s2})
        walk(0, (), {0})
        verdict = "covered"
        msg = ""
        line = None
        for path in paths:
            if not path:
                verdict, msg = "gap", "a returning path writes no column of the result"
                break
            kind, m, ln, pure = wr.cover_check(list(path), R)
            if kind != "covered":
                verdict, msg, line = kind, m, ln
                if kind in ("gap", "skip"):
                    break
        if verdict == "covered":
            res.ok(rule, {"fn": f.pretty, "column_ranges": [(repr(i["lo"]), repr(i["hi"])) for i in paths[0]]})
        elif verdict in ("gap", "skip"):
            res.bad(rule, f.pretty, "stale-column", "%s: %s" % (f.pretty, msg.replace("limb", "column").replace("output column", "result")), site=f.where(line))
        else:
            res.undec(rule, "%s: %s" % (f.pretty, msg))
    return n


# ------------------------------------------------------------------ COL-2
def col2(p, res, rule="COL-2"):
    """core noise-free operations: a read operand is accessed at the loop's column index only below its own rank + 1
    (loop bound = rank(operand)+1, a min(..) containing it, or an asserted equality of the ranks)"""
    from .c17 import key_le
    n = 0
    for f in sorted(p.lib_fns(), key=lambda x: x.uid):
        if not f.uid.startswith(("poulpy_core::api::operations", "poulpy_core::operations")) or f.kind == "Closure":
            continue
        if not f.name.startswith("glwe_") or f.name.endswith("_tmp_bytes"):
            continue
        g = CFG(f)
        flow = Flow(f, transparent=VIEW_CORE)
        plain = Flow(f)
        sym = Sym(f, plain)
        # asserted equalities: `==` whose false arm cannot return
        eqs = []
        cr = g.can_return()
        for b in g.reach:
            t = f.blocks[b]["t"]
            if not t or t["k"] != "Switch" or len(t["ts"]) != 1:
                continue
            for r in plain.op_roots(t["o"]):
                false_arm = t["ts"][0][1] if t["ts"][0][0] == 0 else None
                if false_arm is None or false_arm in cr:
                    continue
                if r[0] == "bin":
                    st = f.blocks[r[1]]["s"][r[2]][2]
                    if st["op"] == "Eq":
                        eqs.append((sym.operand(st["o"][0]).key(), sym.operand(st["o"][1]).key()))
                elif r[0] == "call":
                    t2 = f.blocks[r[1]]["t"]
                    if (f.callee_def(t2) or {}).get("n") == "eq" and len(t2["a"]) == 2:
                        eqs.append((sym.operand(t2["a"][0]).key(), sym.operand(t2["a"][1]).key()))
        # equalities also come through assert_eq!(a, b): match on (&a, &b) then `*l == *r`
        def rank_of(pi):
            return Poly.atom(("f", "rank", (Poly.atom(("p", pi, ())).key(),)))

        def same(a, b):
            if a == b:
                return True
            return (a, b) in eqs or (b, a) in eqs

        for L in g.loops():
            nx = None
            for b in sorted(L["body"]):
                t = f.blocks[b]["t"]
                if t and t["k"] == "Call" and (f.callee_def(t) or {}).get("n") == "next" and g.innermost_loop(b) is L:
                    nx = (b, t)
                    break
            if nx is None:
                continue
            rg = wr.range_of_next(f, plain, sym, nx[1])
            if rg is None or rg[1] is None:
                continue
            var = Poly.atom(("call", f.uid, nx[0], ("0",)))
            for b in L["body"]:
                t = f.blocks[b]["t"]
                if not t or t["k"] != "Call" or g.innermost_loop(b) is not L:
                    continue
                d = f.callee_def(t) or {}
                if not d.get("n", "").startswith("vec_znx_") or len(t["a"]) < 3:
                    continue
                for ai, a in enumerate(t["a"][:-1]):
                    if a[0] not in ("c", "m") or f.local_ty(a[1][0]).get("r", "").startswith("&mut"):
                        continue
                    owners = {r[1] for r in flow.op_roots(a) if r[0] == "param" and r[1] > 1}
                    if len(owners) != 1:
                        continue
                    if not (sym.operand(t["a"][ai + 1]) == var):
                        continue
                    pi = next(iter(owners))
                    ty = f.local_ty(pi)["s"]
                    n += 1
                    hi = rg[1]
                    bound = rank_of(pi) + Poly.const(1)
                    hm1 = (hi - Poly.const(1)).key()
                    rk = rank_of(pi).key()
                    ok = key_le(hi.key(), bound.key()) or key_le(hm1, rk)
                    if not ok:
                        # hi = rank(X) + 1 with rank(X) asserted equal to rank(operand)
                        ok = same(hm1, rk)
                    if not ok:
                        # hi = max(x, y) + 1 under a dominating comparison of x and y that makes the operand's rank the larger one
                        am = hm1[0][0][0] if len(hm1) == 1 and hm1[0][1] == 1 and len(hm1[0][0]) == 1 else None
                        if am is not None and am[0] == "f" and am[1] == "max" and rk in am[2]:
                            other = [k for k in am[2] if k != rk]
                            for sb in g.reach:
                                ts = f.blocks[sb]["t"]
                                if not ts or ts["k"] != "Switch" or len(ts["ts"]) != 1 or not g.dominates(sb, b) or sb == b:
                                    continue
                                zero_arm = ts["ts"][0][1] if ts["ts"][0][0] == 0 else None
                                other_arm = ts["o2"] if "o2" in ts else None
                                for r in plain.op_roots(ts["o"]):
                                    cmpn, x, y = None, None, None
                                    if r[0] == "call":
                                        t2 = f.blocks[r[1]]["t"]
                                        cn2 = (f.callee_def(t2) or {}).get("n")
                                        if cn2 in ("gt", "ge", "lt", "le") and len(t2["a"]) == 2:
                                            cmpn, x, y = cn2, sym.operand(t2["a"][0]).key(), sym.operand(t2["a"][1]).key()
                                    elif r[0] == "bin":
                                        st = f.blocks[r[1]]["s"][r[2]][2]
                                        if st["op"] in ("Gt", "Ge", "Lt", "Le"):
                                            cmpn, x, y = st["op"].lower(), sym.operand(st["o"][0]).key(), sym.operand(st["o"][1]).key()
                                    if cmpn is None or {x, y} != {rk, other[0] if other else None}:
                                        continue
                                    # which arm dominates the read?
                                    true_side = [s2 for s2 in g.succ[sb] if s2 != zero_arm]
                                    on_true = any(g.dominates(s2, b) or s2 == b for s2 in true_side)
                                    on_false = zero_arm is not None and (g.dominates(zero_arm, b) or zero_arm == b)
                                    if on_true == on_false:
                                        continue
                                    larger_is_x = cmpn in ("gt", "ge")
                                    if not on_true:
                                        larger_is_x = not larger_is_x
                                    larger = x if larger_is_x else y
                                    if larger == rk:
                                        ok = True
                    if not ok and "rank" not in repr(hi.key()):
                        continue  # the bound is not a rank expression (cols of a raw vector etc.)
                    pn = f.param_names().get(pi, "#%d" % pi)
                    if ok:
                        res.ok(rule, {"fn": f.pretty, "operand": pn, "columns": "%r..%r" % (rg[0], hi)} if n % 10 == 1 else None)
                    else:
                        res.bad(rule, f.pretty, "operand-column-beyond-rank:%s" % pn,
                                "%s reads operand `%s` at columns up to %r, which is not bounded by `%s.rank() + 1` (no min, no asserted equality): with a lower-rank operand the accessor panics on a column the operand does not have"
                                % (f.pretty, pn, hi, pn), site=f.where(t["l"]))
    return n


# ------------------------------------------------------------------ WR-4
def wr4(p, res):
    """offset kernels over raw slices (vector-matrix product with `limb_offset`): the zero fill of the result starts exactly one stride after the last
    explicitly addressed written limb; a gap would leave limbs with their previous contents"""
    n = 0
    ZERO = ("reim_zero", "fill", "znx_zero", "zero")
    for f in sorted(p.lib_fns(), key=lambda x: x.uid):
        pn = f.param_names()
        if "limb_offset" not in pn.values() or f.kind == "Closure":
            continue
        outs = [l for l in range(1, f.argc + 1) if f.local_ty(l)["s"].startswith("&mut [")]
        if not outs:
            continue
        lo_l = [l for l, nm in pn.items() if nm == "limb_offset"][0]
        lo_atom = ("p", lo_l, ())
        flow = Flow(f)
        sym = Sym(f, flow)
        vflow = Flow(f, transparent=("deref_mut", "as_mut"))
        writes, tails = [], []
        for bi, t in f.calls():
            nm = (f.callee_def(t) or {}).get("n")
            if nm != "index_mut" or len(t["a"]) != 2:
                continue
            if not any(r[0] == "param" and r[1] in outs for r in flow.op_roots(t["a"][0])):
                continue
            rty = f.local_ty(t["a"][1][1][0])["s"] if t["a"][1][0] in ("c", "m") else ""
            if "RangeFrom" not in rty and "Range<" not in rty:
                continue
            start = sym.operand(t["a"][1], ("start",))
            # loop variable of `for col in lo..hi` -> lo
            for a in list(start.atoms()):
                if a[0] == "call" and len(a) > 3 and a[3] == ("0",):
                    t2 = f.blocks[a[2]]["t"]
                    if (f.callee_def(t2) or {}).get("n") == "next":
                        rg = wr.range_of_next(f, flow, sym, t2)
                        if rg is not None and rg[0] is not None:
                            out = Poly()
                            for mono, c in start.t.items():
                                term = Poly.const(c)
                                for x in mono:
                                    term = term * (rg[0] if x == a else Poly.atom(x))
                                out = out + term
                            start = out
            # who consumes the sub-slice
            dest = t["d"][0]
            cons = None
            for b2, t2 in f.calls():
                if b2 == bi:
                    continue
                for x in t2["a"]:
                    if x[0] in ("c", "m") and any(r[0] == "call" and r[1] == bi for r in vflow.op_roots(x)):
                        cons = (f.callee_def(t2) or {}).get("n")
            if cons in ZERO:
                tails.append((start, t["l"]))
            elif cons is not None:
                writes.append((start, t["l"], cons))
        if not tails:
            continue
        n += 1
        explicit = [w for w in writes if lo_atom in w[0].atoms() and all(a[0] in ("p", "f") for a in w[0].atoms())]
        if not explicit:
            res.undec("WR-4", "%s: no explicitly addressed write involving limb_offset" % f.pretty)
            continue
        for tstart, tl in tails:
            good = False
            for w in explicit:
                d = tstart - w[0]
                if lo_atom not in d.atoms() and len(d.t) == 1 and all(c > 0 for c in d.t.values()) and all(a[0] == "p" for a in d.atoms()):
                    good = True
            if good:
                res.ok("WR-4", {"fn": f.pretty, "tail_zero_from": repr(tstart), "last_written": [repr(w[0]) for w in explicit]})
            else:
                res.bad("WR-4", f.pretty, "tail-zero-gap",
                        "%s zero-fills the result from offset `%r`, which is not one stride after the last limb it writes (`%s`): with limb_offset > 0 the limbs in between keep their previous contents"
                        % (f.pretty, tstart, "`, `".join(repr(w[0]) for w in explicit)), site=f.where(tl))
    return n


# ------------------------------------------------------------------ WR-5
WR5_VIEWS = ("to_mut", "to_ref", "deref", "deref_mut", "as_mut", "as_ref", "borrow", "borrow_mut")
WR5_OK = {"at_mut", "zero_at", "to_mut", "deref_mut", "as_mut", "borrow_mut"}
# functions that address the output by raw offset (column arithmetic inside; listed as undecided under WR-1/WR-2)
WR5_RAW = {"convolution_by_const_apply": "block kernel, raw offsets", "convolution_apply_dft": "block kernel, raw offsets",
           "convolution_pairwise_apply_dft": "block kernel, raw offsets", "vec_znx_lsh_assign": "in-place limb move through split_at_mut of the raw buffer",
           "vec_znx_split_ring": "res is a slice of vectors"}


def wr5(p, res):
    """stray-write discipline: in a shape function whose output operand is paired with a column argument, every mutable use of that operand selects a
    column (at_mut / zero_at), re-views it, or hands it to another shape function; whole-object mutators (zero, fill, raw_mut, data_mut, ...) touch the other columns"""
    n = 0
    for f, si in sorted(wr.shape_functions(p, SHAPE_PREFIXES), key=lambda x: x[0].uid):
        if f.is_test() or si.out is None:
            continue
        out_l, out_c, out_n = si.out
        flow = Flow(f, transparent=WR5_VIEWS)
        n += 1
        bad = None
        for bi, t in f.calls():
            if not t["a"]:
                continue
            a = t["a"][0]
            if a[0] not in ("c", "m") or not f.local_ty(a[1][0]).get("r", "").startswith("&mut"):
                continue
            if not any(r[0] == "param" and r[1] == out_l for r in flow.op_roots(a)):
                continue
            d = f.callee_def(t) or {}
            cn = d.get("n", "")
            if cn in WR5_OK or d.get("u", "").startswith(("poulpy_cpu_ref::", "poulpy_cpu_avx::")):
                continue
            if f.name in WR5_RAW and cn in ("raw_mut", "index_mut", "iter_mut"):
                continue
            bad = (cn, t["l"])
            break
        if bad:
            res.bad("WR-5", f.pretty, "whole-object-mutation:%s" % bad[0],
                    "%s mutates its output operand `%s` through `%s`, which is not column-selective: columns other than `%s_col` are modified" % (f.pretty, out_n, bad[0], out_n),
                    site=f.where(bad[1]))
        else:
            res.ok("WR-5", {"fn": f.pretty, "out": out_n} if n % 40 == 1 else None)
    return n


def _range_bounds(f, flow, sym, t):
    """(lo, hi, reversed) of the plain Range behind `next(&mut it)`, following into_iter and rev; None otherwise"""
    rg = wr.range_of_next(f, flow, sym, t)
    if rg is not None and rg[0] is not None and rg[1] is not None:
        return rg[0], rg[1], False
    for r in flow.op_roots(t["a"][0]):
        cur, hops = r, 0
        while cur[0] == "call" and hops < 4:
            t2 = f.blocks[cur[1]]["t"]
            n2 = (f.callee_def(t2) or {}).get("n")
            if n2 == "rev":
                for r2 in flow.op_roots(t2["a"][0]):
                    if r2[0] == "agg":
                        rv = f.blocks[r2[1]]["s"][r2[2]][2]
                        if rv.get("ak") == "Adt" and f.d(rv["adt"])["p"].endswith("ops::Range"):
                            vals = {rv["fields"][i]: sym.operand(rv["o"][i]) for i in range(len(rv["o"]))}
                            if vals.get("start") is not None and vals.get("end") is not None:
                                return vals["start"], vals["end"], True
                return None
            if n2 == "into_iter":
                nxt = list(flow.op_roots(t2["a"][0]))
                if len(nxt) != 1:
                    return None
                cur, hops = nxt[0], hops + 1
                continue
            return None
    return None


def _first_iteration_value(f, flow, sym, t):
    rb = _range_bounds(f, flow, sym, t)
    if rb is not None:
        return (rb[1] - Poly.const(1)) if rb[2] else rb[0]
    return None


def _first_iteration_value_old(f, flow, sym, t):
    """value of the loop variable on the first traversal of `for v in lo..hi` (lo) or `for v in (lo..hi).rev()` (hi - 1); None when not a plain range"""
    rg = wr.range_of_next(f, flow, sym, t)
    if rg is not None and rg[0] is not None:
        return rg[0]
    for r in flow.op_roots(t["a"][0]):
        cur = r
        hops = 0
        while cur[0] == "call" and hops < 4:
            t2 = f.blocks[cur[1]]["t"]
            n2 = (f.callee_def(t2) or {}).get("n")
            if n2 == "rev":
                for r2 in flow.op_roots(t2["a"][0]):
                    if r2[0] == "agg":
                        rv = f.blocks[r2[1]]["s"][r2[2]][2]
                        if rv.get("ak") == "Adt" and f.d(rv["adt"])["p"].endswith("ops::Range"):
                            vals = {rv["fields"][i]: sym.operand(rv["o"][i]) for i in range(len(rv["o"]))}
                            if vals.get("end") is not None:
                                return vals["end"] - Poly.const(1)
                return None
            if n2 in ("into_iter",):
                nxt = list(flow.op_roots(t2["a"][0]))
                if len(nxt) != 1:
                    return None
                cur = nxt[0]
                hops += 1
                continue
            return None
    return None


def _first_iteration_feasible(f, g, path, flow, sym):
    """False when the first traversal of a range loop takes the `v != first value` arm of a comparison of the loop variable with that value"""
    for L in g.loops():
        h = L["header"]
        if h not in path:
            continue
        nx = None
        for b in sorted(L["body"]):
            t = f.blocks[b]["t"]
            if t and t["k"] == "Call" and (f.callee_def(t) or {}).get("n") == "next" and g.innermost_loop(b) is L:
                nx = (b, t)
                break
        if nx is None:
            continue
        first = _first_iteration_value(f, flow, sym, nx[1])
        if first is None:
            continue
        var = Poly.atom(("call", f.uid, nx[0], ("0",)))
        nxt = {path[i]: path[i + 1] for i in range(len(path) - 1)}
        for b in path:
            if b not in L["body"] or b not in nxt:
                continue
            t = f.blocks[b]["t"]
            if not t or t["k"] != "Switch" or len(t["ts"]) != 1:
                continue
            for r in flow.op_roots(t["o"]):
                if r[0] != "bin":
                    continue
                st = f.blocks[r[1]]["s"][r[2]][2]
                if st["op"] not in ("Eq", "Ne"):
                    continue
                a, c = sym.operand(st["o"][0]), sym.operand(st["o"][1])
                if {a.key(), c.key()} != {var.key(), first.key()}:
                    continue
                truth = nxt[b] != t["ts"][0][1]
                equal = truth if st["op"] == "Eq" else (not truth)
                if not equal:
                    return False
    return True


# ------------------------------------------------------------------ WR-6
def wr6(p, res):
    """carry buffers of the shift / normalisation shape functions: on every feasible path - zero-trip loops included, with `for j in 0..T` skipped
    implying T == 0 - the buffer is written (first_step* kernel or znx_zero) before a middle/final step reads it"""
    from . import sc, c12
    n = 0
    for f in sorted(p.lib_fns(), key=lambda x: x.uid):
        if f.kind == "Closure" or not f.uid.startswith(("poulpy_cpu_ref::reference::vec_znx", "poulpy_cpu_ref::reference::fft64::vec_znx_big", "poulpy_cpu_ref::reference::ntt120::vec_znx_big")):
            continue
        flow = Flow(f, transparent=("split_at_mut", "index_mut", "deref_mut", "as_mut"))
        # carry objects: last argument of normalisation step kernels
        events = {}  # bb -> (object key, kind)
        for bi, t in f.calls():
            cn = (f.callee_def(t) or {}).get("n", "")
            if cn.startswith("znx_normalize_") and t["a"]:
                rr = flow.op_roots(t["a"][-1])
                key = tuple(sorted(r[:2] + (r[2],) if r[0] == "param" else r[:3] for r in rr if r[0] in ("param", "call")))
                if not key:
                    continue
                kind = "init" if "first_step" in cn else "read"
                events[bi] = (key, kind, cn, t["l"])
        objs = {e[0] for e in events.values()}
        if not objs:
            continue
        for bi, t in f.calls():
            cn = (f.callee_def(t) or {}).get("n", "")
            if cn in ("znx_zero", "fill", "znx_copy") and t["a"]:
                rr = flow.op_roots(t["a"][0])
                key = tuple(sorted(r[:2] + (r[2],) if r[0] == "param" else r[:3] for r in rr if r[0] in ("param", "call")))
                if key in objs:
                    events[bi] = (key, "init", cn, t["l"])
        n += 1
        g = CFG(f)
        paths = sc.returning_paths(f, g, cap=4096, unroll=1, dowhile=False)
        if not paths:
            res.undec("WR-6", "%s: too many paths" % f.pretty)
            continue
        plain = Flow(f)
        sym = Sym(f, plain)
        loops = g.loops()
        # trip-count facts: header -> polynomial `hi - lo` of `for j in lo..hi`
        trip = {}
        for L in loops:
            for b in sorted(L["body"]):
                t = f.blocks[b]["t"]
                if t and t["k"] == "Call" and (f.callee_def(t) or {}).get("n") == "next" and g.innermost_loop(b) is L:
                    rg = _range_bounds(f, plain, sym, t)
                    if rg:
                        trip[L["header"]] = (rg[1] - rg[0], L)
                    break

        def feasible(path):
            on = set(path)
            facts_ = []  # (poly key, is_zero)
            for h, (tp, L) in trip.items():
                if h not in on:
                    continue
                latches = [b for b in L["body"] if h in g.succ[b]]
                entered = any(b in on for b in latches)
                facts_.append((tp.key(), not entered))
            # loops with the same trip count run zero times together
            seen_f = {}
            for k, z in facts_:
                if seen_f.setdefault(k, z) != z:
                    return False
            nxt = {path[i]: path[i + 1] for i in range(len(path) - 1)}
            for b in path:
                t = f.blocks[b]["t"]
                if not t or t["k"] != "Switch" or len(t["ts"]) != 1 or b not in nxt:
                    continue
                for r in plain.op_roots(t["o"]):
                    if r[0] != "bin":
                        continue
                    st = f.blocks[r[1]]["s"][r[2]][2]
                    if st["op"] not in ("Eq", "Ne"):
                        continue
                    a, c = sym.operand(st["o"][0]), sym.operand(st["o"][1])
                    truth = nxt[b] != t["ts"][0][1]
                    equal = truth if st["op"] == "Eq" else (not truth)
                    for d in ((a - c).key(), (c - a).key()):
                        for k, is_zero in facts_:
                            if d == k and equal != is_zero:
                                return False
            return True

        bad = None
        for path in paths:
            state = {}
            hit = None
            for b in path:
                if b in events:
                    key, kind, cn, line = events[b]
                    if kind == "init":
                        state[key] = True
                    elif not state.get(key):
                        hit = (cn, line)
                        break
            if hit and feasible(path) and _first_iteration_feasible(f, g, path, plain, sym):
                bad = hit
                break
        if bad:
            res.bad("WR-6", f.pretty, "carry-read-before-write:%s" % bad[0],
                    "%s: on a path where the loop that primes the carry buffer runs zero times, `%s` reads the carry before anything wrote it: the result depends on the previous contents of the scratch slice"
                    % (f.pretty, bad[0]), site=f.where(bad[1]))
        else:
            res.ok("WR-6", {"fn": f.pretty, "paths": len(paths), "carry_objects": len(objs)})
    return n


# ------------------------------------------------------------------ NRM-1
def wr2c(p, res, rule="WR-2"):
    """raw column offsets: an index into `X.raw()` / `X.raw_mut()` that is computed from a column argument (`col * n * size`) and from strides (`size * 8`) uses the limb count of
    X itself - the limb count of another operand addresses another column (or another object's memory) as soon as the two operands differ in size"""
    n = 0
    for f in sorted(p.lib_fns(), key=lambda x: x.uid):
        if f.kind == "Closure" or not f.blocks or not f.uid.startswith(("poulpy_cpu_ref::reference", "poulpy_cpu_avx")):
            continue
        raws = {}  # local holding X.raw() -> operand param of X
        flow = Flow(f, transparent=wr.VIEW_T)
        for bi, t in f.calls():
            if (f.callee_def(t) or {}).get("n") in ("raw", "raw_mut") and t["a"] and t.get("d"):
                ps = [r[1] for r in flow.op_roots(t["a"][0]) if r[0] == "param"]
                if len(ps) == 1:
                    raws[t["d"][0]] = ps[0]
        if len(set(raws.values())) < 2:
            continue
        sym = Sym(f, Flow(f))
        plain = Flow(f)
        # limb counts asserted equal (`assert_eq!(left.size(), right.size())`) are interchangeable
        same = {}

        def size_param(pl):
            at = list(pl.atoms())
            if len(pl.t) == 1 and len(at) == 1 and at[0][0] == "f" and at[0][1] == "size":
                ps = [x[1] for mono, c in at[0][2][0] for x in mono if x[0] == "p"]
                return ps[0] if len(ps) == 1 else None
            return None
        for blk in f.blocks:
            for st in blk["s"]:
                if st[0] == "A" and st[2]["k"] == "Bin" and st[2]["op"] == "Eq":
                    a_, b_ = size_param(sym.operand(st[2]["o"][0])), size_param(sym.operand(st[2]["o"][1]))
                    if a_ and b_ and a_ != b_:
                        same.setdefault(a_, set()).add(b_)
                        same.setdefault(b_, set()).add(a_)
        # slicing sites: index / index_mut / get on a raw slice with a range whose start is a local
        for bi, t in f.calls():
            d = f.callee_def(t) or {}
            if d.get("n") not in ("index", "index_mut") or len(t["a"]) != 2:
                continue
            base = None
            for r in plain.op_roots(t["a"][0]):
                if r[0] == "call" and f.blocks[r[1]]["t"].get("d") and f.blocks[r[1]]["t"]["d"][0] in raws:
                    base = raws[f.blocks[r[1]]["t"]["d"][0]]
            if base is None:
                # through a copy of the raw slice local
                for r in flow.op_roots(t["a"][0]):
                    if r[0] == "call" and (f.callee_def(f.blocks[r[1]]["t"]) or {}).get("n") in ("raw", "raw_mut"):
                        ps = [q[1] for q in flow.op_roots(f.blocks[r[1]]["t"]["a"][0]) if q[0] == "param"]
                        if len(ps) == 1:
                            base = ps[0]
            if base is None:
                continue
            # the index locals feeding the range
            idx_locals = set()
            for r in plain.op_roots(t["a"][1]):
                if r[0] == "agg":
                    st = f.blocks[r[1]]["s"][r[2]][2]
                    for o in st.get("o", []):
                        if o[0] in ("c", "m") and len(o[1]) == 1:
                            idx_locals.add(o[1][0])
            # follow plain copies down to the (possibly loop-carried) index variables
            chased = set()
            todo = list(idx_locals)
            while todo:
                l = todo.pop()
                if l in chased:
                    continue
                chased.add(l)
                for dfn in plain.defs.get(l, []):
                    if dfn[0] != "call" and dfn[4]["k"] in ("Use", "Cast") and dfn[4]["o"][0][0] in ("c", "m") and len(dfn[4]["o"][0][1]) == 1:
                        todo.append(dfn[4]["o"][0][1][0])
            idx_locals = chased
            sizes = set()
            for l in idx_locals:
                for dfn in plain.defs.get(l, []):
                    if dfn[0] == "call":
                        continue
                    v = sym.rvalue(dfn[4], (), 0, dfn[1], dfn[2])
                    for a in _all_atoms(v):
                        if a[0] == "f" and a[1] == "size":
                            for mono, c in a[2][0]:
                                for x in mono:
                                    if x[0] == "p":
                                        sizes.add(x[1])
                    # one level through locals such as `b_row_size`
                    for a in v.atoms():
                        if a[0] == "phi":
                            pass
            if not sizes:
                continue
            n += 1
            foreign = sorted(x for x in sizes if x != base and x not in same.get(base, ()))
            pn = f.param_names()
            if foreign:
                res.bad(rule, f.pretty, "raw-offset-foreign-size:%s" % pn.get(base, "#%d" % base),
                        "%s indexes the raw limbs of `%s` at an offset computed with the limb count of `%s`: with operands of different sizes the offset addresses another column"
                        % (f.pretty, pn.get(base, "#%d" % base), ", ".join(pn.get(x, "#%d" % x) for x in foreign)), site=f.where(t["l"]))
            else:
                res.ok(rule, {"fn": f.pretty, "raw_operand": pn.get(base), "offset_sizes": "own"} if n % 4 == 1 else None)
    return n


def nrm2(p, res, rule="NRM-2"):
    """right shifts: every limb of the operand passes through the carry chain once, and the chain then crosses the `steps` limb positions the value is moved down by.  The number
    of chain steps (trip counts of the loops that hand the carry buffer to a normalisation step, plus helper loops over the carry) therefore equals  size(operand) + steps  for
    every operand size, result size and shift - a piecewise-linear identity in the sizes.  A chain that is shorter deposits the carry too high (the result is too large by a
    power of the radix when the shift exceeds the precision of the result)."""
    from . import pwl, sc
    n = 0
    for f in sorted(p.lib_fns(), key=lambda x: x.uid):
        if f.kind == "Closure" or not f.uid.startswith("poulpy_cpu_ref::reference::vec_znx::shift") or "rsh" not in f.name or f.name.endswith("tmp_bytes"):
            continue
        flow = Flow(f, transparent=("split_at_mut", "index_mut", "deref_mut", "as_mut"))
        sym = Sym(f, Flow(f))
        g = CFG(f)
        # chain sites: block -> contribution per execution (1 for a step kernel, the count argument for a helper that loops over the carry)
        sites = {}
        for bi, t in f.calls():
            d = f.callee_def(t) or {}
            cn = d.get("n", "")
            if cn.startswith("znx_normalize_") and t["a"]:
                sites[bi] = Poly.const(1)
            elif d.get("u", "").startswith("poulpy_cpu_ref::reference::vec_znx") and not cn.startswith("znx_"):
                h = p.fn(d["u"])
                if h is None or not h.blocks:
                    continue
                hg = CFG(h)
                hflow = Flow(h)
                hsym = Sym(h, hflow)
                cnt = None
                for b2, t2 in h.calls():
                    if (h.callee_def(t2) or {}).get("n") == "next" and hg.innermost_loop(b2) is not None:
                        rb = _range_bounds(h, hflow, hsym, t2)
                        if rb is not None:
                            at = list(rb[1].atoms())
                            if rb[0].is_const() and (rb[0].const_value() or 0) == 0 and len(at) == 1 and at[0][0] == "p" and not at[0][2] and at[0][1] - 1 < len(t["a"]):
                                cnt = sym.operand(t["a"][at[0][1] - 1])
                if cnt is not None:
                    sites[bi] = cnt
        if sites:
            for bi in _inline_carry_closures(p, f, g):
                sites.setdefault(bi, Poly.const(1))
        if not sites:
            continue
        # loops that contain a chain site, with their trip counts
        trips = {}
        outside = Poly()
        bad_loop = False
        for bi, contrib in sites.items():
            l = g.innermost_loop(bi)
            if l is None:
                outside = outside + contrib
                continue
            h = l["header"]
            if h in trips:
                continue
            tc = None
            for b2 in sorted(l["body"]):
                t2 = f.blocks[b2]["t"]
                if t2 and t2["k"] == "Call" and (f.callee_def(t2) or {}).get("n") == "next" and g.innermost_loop(b2) is l:
                    rb = _range_bounds(f, Flow(f), sym, t2)
                    if rb is not None:
                        tc = (rb[0], rb[1])
            if tc is None:
                bad_loop = True
            trips[h] = tc
        if bad_loop:
            res.undec(rule, "%s: a carry-chain loop is not a plain range" % f.pretty)
            continue
        # one representative path per set of chain loops (const-generic branches select different loops)
        paths = sc.returning_paths(f, g, cap=400) or []
        combos = set()
        for path in paths:
            combos.add(tuple(sorted(h for h in trips if h in path)))
        if not combos:
            continue
        src = None
        pn = {v: k for k, v in f.param_names().items()}
        src_param = pn.get("a", pn.get("res"))
        size_atoms = set()
        for tc in trips.values():
            for pl in tc:
                for a in _all_atoms(pl):
                    if a[0] == "f" and a[1] == "size":
                        size_atoms.add(a)
        src_size = [a for a in size_atoms if any(x[0] == "p" and x[1] == src_param for mono, c in a[2][0] for x in mono)]
        others = set()
        for tc in trips.values():
            for pl in tc:
                for a in _all_atoms(pl):
                    if a[0] in ("phi", "p", "call") or (a[0] == "f" and a[1] not in ("size", "min", "max", "saturating_sub")):
                        others.add(a)
        if len(src_size) != 1 or len(others) != 1:
            res.undec(rule, "%s: chain trip counts depend on %d size atom(s) of the operand and %d other quantities" % (f.pretty, len(src_size), len(others)))
            continue
        n += 1
        S = Poly.atom(list(others)[0])
        A = Poly.atom(src_size[0])
        bad = None
        for combo in sorted(combos):
            for val in pwl.valuations(count=3000, hi=9):
                ev = pwl.Eval(p, val)
                ev.syms[f.uid] = sym
                try:
                    tot = ev.poly(outside)
                    for h in combo:
                        lo, hi = trips[h]
                        per = [c for b, c in sites.items() if g.innermost_loop(b) is not None and g.innermost_loop(b)["header"] == h]
                        # several sites of one loop lie on exclusive branches (first / middle / final step): one step per iteration
                        tot += max(ev.poly(hi) - ev.poly(lo), 0) * max(ev.poly(c) for c in per)
                    want = ev.poly(A) + ev.poly(S)
                except pwl.ErrPath:
                    continue
                if tot != want and bad is None:
                    bad = {"operand_limbs": ev.poly(A), "steps": ev.poly(S), "chain_steps": tot, "valuation": {k[:50]: v for k, v in ev.val.items() if k != "__fresh__"}}
        if bad:
            res.bad(rule, f.pretty, "carry-chain-length",
                    "%s: with %d operand limb(s) and a shift of %d limb position(s) the carry passes through %d normalisation steps instead of %d: the carry out of the top limb is deposited "
                    "%d limb(s) too high (shift larger than the precision of the result)" % (f.pretty, bad["operand_limbs"], bad["steps"], bad["chain_steps"], bad["operand_limbs"] + bad["steps"],
                                                                                           bad["operand_limbs"] + bad["steps"] - bad["chain_steps"]), site=f.where(), detail=bad)
        else:
            res.ok(rule, {"fn": f.pretty, "chain_loops": len(trips), "law": "steps of the chain == size(operand) + steps"})
    return n


def wr9(p, res, rule="WR-9", restrict=None):
    """in-place limb-wise loops `for j in lo..hi { kernel_assign(res.at_mut(c, j + r), a.at(c', j + s)) }`: the loop runs over the whole overlap of the two index windows,
        hi - lo == max(min(size(res) - r - lo, size(a) - s - lo), 0)
    for every size and offset (piecewise-linear identity over the extracted trip count and accessor indices).  Fewer iterations drop limbs of the operand that the result can
    hold (the sum is truncated short of the result's precision); more iterations index past an operand."""
    import random
    from . import pwl
    n = 0
    for f in sorted(p.lib_fns(), key=lambda x: x.uid):
        if f.kind == "Closure" or not f.blocks or not f.uid.startswith("poulpy_cpu_ref::reference") or (restrict and not restrict(f)):
            continue
        g = CFG(f)
        loops = g.loops()
        if not loops:
            continue
        flow = Flow(f, transparent=("deref", "deref_mut", "borrow", "borrow_mut", "as_mut", "as_ref", "to_ref", "to_mut"))
        plain = Flow(f)
        sym = None
        k = 0
        for L in loops:
            ks = []
            for bi in sorted(L["body"]):
                t = f.blocks[bi]["t"]
                if t and t["k"] == "Call" and g.innermost_loop(bi) is L:
                    nm = (f.callee_def(t) or {}).get("n", "")
                    if nm.endswith("_assign") and len(t["a"]) == 2:
                        ks.append((bi, t, nm))
            if len(ks) != 1:
                continue
            bi, t, nm = ks[0]
            if sym is None:
                sym = Sym(f, plain)
            acc = []
            for a in t["a"]:
                rr = [r for r in plain.op_roots(a) if r[0] == "call"]
                if len(rr) != 1:
                    acc = None
                    break
                t2 = f.blocks[rr[0][1]]["t"]
                an = (f.callee_def(t2) or {}).get("n", "")
                if not (an in ("at", "at_mut") or an.startswith("limb_")) or len(t2["a"]) != 3:
                    acc = None
                    break
                objs = {r[1] for r in flow.op_roots(t2["a"][0]) if r[0] == "param"}
                if len(objs) != 1:
                    acc = None
                    break
                acc.append((list(objs)[0], sym.operand(t2["a"][2])))
            if not acc or acc[0][0] == acc[1][0]:
                continue
            rb = nb = None
            for b2 in sorted(L["body"]):
                t2 = f.blocks[b2]["t"]
                if t2 and t2["k"] == "Call" and (f.callee_def(t2) or {}).get("n") == "next" and g.innermost_loop(b2) is L:
                    rb = _range_bounds(f, plain, sym, t2)
                    nb = b2
            if rb is None:
                continue
            J = ("call", f.uid, nb, ("0",))
            if not all(any(a == J for a in pl.atoms()) for _, pl in acc):
                continue            # an operand addressed at a fixed limb (scalar-vector products): not a window overlap
            k += 1
            n += 1
            jkey = repr(J)
            sizes = [Poly.atom(("f", "size", (Poly.atom(("p", o, ())).key(),))) for o, _ in acc]
            bad = None
            pts = 0
            rnd = random.Random(99)
            for i in range(2500):
                r = random.Random(rnd.random())
                span = (3, 6, 9)[i % 3]
                j0 = r.randint(0, 3)
                ev = pwl.Eval(p, {"__fresh__": (lambda kk, r=r, span=span, j0=j0: j0 if kk == jkey else r.randint(0, span))})
                ev.syms[f.uid] = sym
                try:
                    lo, hi = ev.poly(rb[0]), ev.poly(rb[1])
                    offs = [ev.poly(pl) - j0 for _, pl in acc]
                    szs = [ev.poly(sz) for sz in sizes]
                except pwl.ErrPath:
                    continue
                pts += 1
                want = max(min(szs[0] - offs[0] - lo, szs[1] - offs[1] - lo), 0)
                if max(hi - lo, 0) != want and bad is None:
                    bad = {"trip_count": max(hi - lo, 0), "overlap": want, "sizes": szs, "offsets": offs, "lo": lo}
            pn = f.param_names()
            if bad:
                res.bad(rule, f.pretty, "%s#%d:overlap" % (nm, k),
                        "%s: the loop around `%s` runs %d time(s) where the limb windows of `%s` (%d limbs, offset %d) and `%s` (%d limbs, offset %d) overlap on %d limb(s)"
                        % (f.pretty, nm, bad["trip_count"], pn.get(acc[0][0]), bad["sizes"][0], bad["offsets"][0], pn.get(acc[1][0]), bad["sizes"][1], bad["offsets"][1], bad["overlap"]),
                        site=f.where(t["l"]), detail=bad)
            elif pts >= 300:
                res.ok(rule, {"fn": f.pretty, "kernel": nm, "trip": "%r..%r" % (rb[0], rb[1])})
            else:
                res.undec(rule, "%s: too few admissible points" % f.pretty)
    return n


def _inline_carry_closures(p, f, g):
    """blocks of f, inside a loop, that build a closure applying get_carry (the inline form of a carry-only pass: `carry.iter_mut().for_each(|c| ..get_carry..)`)"""
    out = []
    for bi, blk in enumerate(f.blocks):
        for st in blk["s"]:
            if st[0] == "A" and st[2]["k"] == "Agg" and st[2].get("ak") == "Closure" and g.innermost_loop(bi) is not None:
                cf = p.fn(f.duid(st[2]["clos"]))
                if cf is not None and cf.blocks and any((cf.callee_def(t2) or {}).get("n") in ("get_carry_i64", "get_carry_i128") for _, t2 in cf.calls()):
                    out.append(bi)
    return out


def _carry_helper_count(p, f, sym, t):
    """a call of a local helper that runs the digit / carry pair over its carry argument `count` times (a `for _ in 0..count` loop around get_digit / get_carry): the count
    argument as an expression of the caller, else None"""
    d = f.callee_def(t) or {}
    if not d.get("u", "").startswith("poulpy_cpu_ref::reference") or d.get("n", "").startswith(("znx_", "nfc_zero")):
        return None
    h = p.fn(d["u"])
    if h is None or not h.blocks or len(h.blocks) > 40:
        return None
    # the helper (or its closure) applies get_carry
    names = set()
    for q in [h] + [c for c in p.fns.values() if c.kind == "Closure" and c.uid.startswith(h.uid + "::")]:
        for _, t2 in q.calls():
            names.add((q.callee_def(t2) or {}).get("n"))
    if not names & {"get_carry_i64", "get_carry_i128"}:
        return None
    hg = CFG(h)
    hflow = Flow(h)
    hsym = Sym(h, hflow)
    for b2, t2 in h.calls():
        if (h.callee_def(t2) or {}).get("n") == "next" and hg.innermost_loop(b2) is not None:
            rb = _range_bounds(h, hflow, hsym, t2)
            if rb is not None:
                at = list(rb[1].atoms())
                if rb[0].is_const() and (rb[0].const_value() or 0) == 0 and len(at) == 1 and at[0][0] == "p" and not at[0][2] and at[0][1] - 1 < len(t["a"]):
                    return sym.operand(t["a"][at[0][1] - 1])
    return None


def nrm3(p, res, rule="NRM-3"):
    """same-radix normalisation with a signed limb offset L (limb i of the operand aligns with limb i - L of the result): the carry chain starts at the last limb of the
    operand and ends at limb 0 of the result, so it has  max(size(operand) - L, 0)  steps for every operand size, result size and offset - limbs of the operand below the result
    are crossed carry-only, limb positions between the operand and the result (offset more negative than the result is long) are crossed too.  A shorter chain deposits the
    carry too high."""
    import random
    from . import pwl, sc
    n = 0
    for f in sorted(p.lib_fns(), key=lambda x: x.uid):
        if f.kind == "Closure" or not f.blocks or not f.uid.startswith(("poulpy_cpu_ref::reference", "poulpy_cpu_avx")) or "normalize" not in f.name or f.name.endswith("tmp_bytes"):
            continue
        g = CFG(f)
        sym = Sym(f, Flow(f))
        sites = {}
        helpers = []
        for bi, t in f.calls():
            cn = (f.callee_def(t) or {}).get("n", "")
            if (cn.startswith("znx_normalize_") or (cn.startswith("nfc_") and ("step" in cn or "carry" in cn))) and g.innermost_loop(bi) is not None:
                sites[bi] = 1
            elif g.innermost_loop(bi) is None:
                cnt = _carry_helper_count(p, f, sym, t)
                if cnt is not None:
                    helpers.append(cnt)
        for bi in _inline_carry_closures(p, f, g):
            sites[bi] = 1
        if not sites:
            continue
        trips = {}
        plain = True
        for bi in sites:
            l = g.innermost_loop(bi)
            h = l["header"]
            if h in trips:
                continue
            tc = None
            for b2 in sorted(l["body"]):
                t2 = f.blocks[b2]["t"]
                if t2 and t2["k"] == "Call" and (f.callee_def(t2) or {}).get("n") == "next" and g.innermost_loop(b2) is l:
                    rb = _range_bounds(f, Flow(f), sym, t2)
                    if rb is not None:
                        tc = (rb[0], rb[1])
            if tc is None:
                plain = False
            trips[h] = tc
        # the offset variable: a phi (mutable i64) that the clamp arguments of the trip counts depend on
        phis, sizes, clamps = set(), set(), 0
        if plain:
            for tc in trips.values():
                for pl in tc:
                    for a in _all_atoms(pl):
                        if a[0] == "call" and a[1] == f.uid:
                            t2 = f.blocks[a[2]]["t"]
                            if (f.callee_def(t2) or {}).get("n") == "clamp":
                                clamps += 1
                                for o in t2["a"]:
                                    for b in _all_atoms(sym.operand(o)):
                                        if b[0] == "phi":
                                            phis.add(b)
                                        elif b[0] == "f" and b[1] == "size":
                                            sizes.add(b)
        if not clamps:
            continue            # not an offset-driven chain (plain normalisation)
        foreign = False
        if plain:
            for tc in trips.values():
                for pl in tc:
                    for a in _all_atoms(pl):
                        if a[0] == "p" or (a[0] == "f" and a[1] not in ("size", "min", "max", "saturating_sub")):
                            foreign = True
                        elif a[0] == "call" and not (a[1] == f.uid and (f.callee_def(f.blocks[a[2]]["t"]) or {}).get("n") == "clamp"):
                            foreign = True
        if foreign:
            continue            # cross-radix forms: limb counts of two radices do not add (not decided)
        pn = {v: k for k, v in f.param_names().items()}
        src = [a for a in sizes if any(x[0] == "p" and x[1] == pn.get("a") for mono, c in a[2][0] for x in mono)]
        if not plain or len(phis) != 1 or len(src) != 1:
            res.undec(rule, "%s: the chain loops are not plain ranges over clamps of one offset variable and the operand size" % f.pretty)
            continue
        n += 1
        L, A = Poly.atom(list(phis)[0]), Poly.atom(src[0])
        phikey = repr(list(phis)[0])
        bad = None
        rnd = random.Random(4242)
        for i in range(4000):
            r = random.Random(rnd.random())
            span = (3, 6, 10)[i % 3]
            ev = pwl.Eval(p, {"__fresh__": (lambda k, r=r, span=span: r.randint(-span - 3, span + 3) if k == phikey else r.randint(1, span))})
            ev.syms[f.uid] = sym
            try:
                tot = 0
                for h, (lo, hi) in trips.items():
                    tot += max(ev.poly(hi) - ev.poly(lo), 0)
                for c in helpers:
                    tot += max(ev.poly(c), 0)
                a_, l_ = ev.poly(A), ev.poly(L)
            except pwl.ErrPath:
                continue
            want = max(a_ - l_, 0)
            if tot != want and bad is None:
                bad = {"operand_limbs": a_, "limb_offset": l_, "chain_steps": tot, "expected": want, "valuation": {k[:60]: v for k, v in ev.val.items() if k != "__fresh__"}}
        if bad:
            res.bad(rule, f.pretty, "carry-chain-length",
                    "%s: with %d operand limb(s) and a limb offset of %d the carry passes through %d normalisation steps instead of %d: the carry out of the top limb is deposited %d limb(s) "
                    "too high (offset more negative than the result is long)" % (f.pretty, bad["operand_limbs"], bad["limb_offset"], bad["chain_steps"], bad["expected"],
                                                                                bad["expected"] - bad["chain_steps"]), site=f.where(), detail=bad)
        else:
            res.ok(rule, {"fn": f.pretty, "chain_loops": len(trips), "law": "steps of the chain == max(size(operand) - limb_offset, 0)"})
    return n


def _all_atoms(pl, depth=0):
    out = []
    for a in pl.atoms():
        out.append(a)
        if a[0] == "f" and a[1] != "size" and depth < 5:
            for k in a[2]:
                if isinstance(k, tuple):
                    try:
                        out += _all_atoms(Poly(dict(k)), depth + 1)
                    except (TypeError, ValueError):
                        pass
    return out


def nrm1(p, res, rule="NRM-1"):
    """carry chains of the shift / normalisation shape functions: the final step consumes the carry - on no feasible path (two traversals per
    loop, first / last iteration tests on the loop variable respected) is the same carry buffer handed to another middle or final step afterwards"""
    from . import sc
    n = 0
    for f in sorted(p.lib_fns(), key=lambda x: x.uid):
        if f.kind == "Closure" or not f.uid.startswith(("poulpy_cpu_ref::reference::vec_znx", "poulpy_cpu_ref::reference::fft64::vec_znx_big", "poulpy_cpu_ref::reference::ntt120::vec_znx_big")):
            continue
        flow = Flow(f, transparent=("split_at_mut", "index_mut", "deref_mut", "as_mut"))
        events = {}
        for bi, t in f.calls():
            cn = (f.callee_def(t) or {}).get("n", "")
            if cn.startswith("znx_normalize_") and t["a"]:
                rr = flow.op_roots(t["a"][-1])
                key = tuple(sorted(r[:2] + (r[2],) if r[0] == "param" else r[:3] for r in rr if r[0] in ("param", "call")))
                if key:
                    kind = "first" if "first_step" in cn else ("final" if "final_step" in cn else "middle")
                    events[bi] = (key, kind, cn, t["l"])
        if not any(e[1] == "final" for e in events.values()):
            continue
        n += 1
        g = CFG(f)
        paths = sc.returning_paths(f, g, cap=20000, unroll=2, dowhile=True)
        if not paths:
            res.undec(rule, "%s: too many paths" % f.pretty)
            continue
        plain = Flow(f)
        sym = Sym(f, plain)
        info = {}
        for L in g.loops():
            for b in sorted(L["body"]):
                t = f.blocks[b]["t"]
                if t and t["k"] == "Call" and (f.callee_def(t) or {}).get("n") == "next" and g.innermost_loop(b) is L:
                    rb = _range_bounds(f, plain, sym, t)
                    if rb:
                        lo, hi, rev = rb
                        first = (hi - Poly.const(1)) if rev else lo
                        last = lo if rev else (hi - Poly.const(1))
                        info[L["header"]] = (L, Poly.atom(("call", f.uid, b, ("0",))).key(), first.key(), last.key())
                    break

        def feasible(path):
            for h, (L, var, first, last) in info.items():
                occ = [i for i, b in enumerate(path) if b == h]
                for k, start in enumerate(occ):
                    i = start
                    while i + 1 < len(path) and path[i] in L["body"] and (k + 1 >= len(occ) or i < occ[k + 1]):
                        b = path[i]
                        t = f.blocks[b]["t"]
                        if t and t["k"] == "Switch" and len(t["ts"]) == 1:
                            for r in plain.op_roots(t["o"]):
                                if r[0] != "bin":
                                    continue
                                st = f.blocks[r[1]]["s"][r[2]][2]
                                if st["op"] not in ("Eq", "Ne"):
                                    continue
                                a, c = sym.operand(st["o"][0]).key(), sym.operand(st["o"][1]).key()
                                if var not in (a, c):
                                    continue
                                other = c if a == var else a
                                truth = path[i + 1] != t["ts"][0][1]
                                equal = truth if st["op"] == "Eq" else (not truth)
                                if other == first and first != last:
                                    if equal != (k == 0):
                                        return False
                                if other == last and first != last:
                                    if equal and k != len(occ) - 1:
                                        return False
                                if other == first and first == last and not equal:
                                    return False
                        i += 1
                        if i < len(path) and path[i] == h and i != start:
                            break
            return True

        hit = None
        for path in paths:
            dead = {}
            local_hit = None
            for b in path:
                if b in events:
                    key, kind, cn, line = events[b]
                    if dead.get(key):
                        local_hit = (dead[key], cn, line)
                        break
                    if kind == "final":
                        dead[key] = cn
                    elif kind == "first":
                        dead[key] = None
            if local_hit and feasible(path):
                hit = local_hit
                break
        if hit:
            res.bad(rule, f.pretty, "carry-used-after-final-step:%s" % hit[1],
                    "%s hands the carry to `%s` after `%s` has already consumed it on the same path: the final step must be the last link of a carry chain (its sibling forms apply it on the last iteration)"
                    % (f.pretty, hit[1], hit[0]), site=f.where(hit[2]))
        else:
            res.ok(rule, {"fn": f.pretty, "paths": len(paths), "final_steps": sum(1 for e in events.values() if e[1] == "final")})
    return n


# ------------------------------------------------------------------ WR-7
def wr7(p, res):
    """block extraction into an output operand (fft64 convolution prepare): per block the rows written by the extraction kernel plus the rows
    zero-filled behind them make up the whole row count of the destination; without a zero fill the extracted row count must be the destination's,
    evaluated in the frame of the caller that sizes the temporary"""
    from .c17 import key_le
    from .c12 import subst_key
    n = 0
    callers = {}
    for f0 in p.lib_fns():
        for bi, t in f0.calls():
            for x in p.targets(f0, t):
                callers.setdefault(x, []).append((f0, bi, t))

    def loop_var_of(f, g, plain, sym, b):
        L = g.innermost_loop(b)
        while L is not None:
            for bb in sorted(L["body"]):
                t = f.blocks[bb]["t"]
                if t and t["k"] == "Call" and (f.callee_def(t) or {}).get("n") == "next" and g.innermost_loop(bb) is L:
                    return Poly.atom(("call", f.uid, bb, ("0",))), L
            L = None
        return None, None

    def coeff_of(poly, var_atom):
        out = Poly()
        rest = Poly()
        for mono, c in poly.t.items():
            if mono.count(var_atom) == 1:
                m2 = list(mono)
                m2.remove(var_atom)
                term = Poly.const(c)
                for a in m2:
                    term = term * Poly.atom(a)
                out = out + term
            elif var_atom not in mono:
                term = Poly.const(c)
                for a in mono:
                    term = term * Poly.atom(a)
                rest = rest + term
        return out, rest

    for f in sorted(p.lib_fns(), key=lambda x: x.uid):
        if f.kind == "Closure" or not f.uid.startswith("poulpy_cpu_ref::reference::fft64::convolution"):
            continue
        g = CFG(f)
        plain = Flow(f)
        sym = Sym(f, plain)
        vflow = Flow(f, transparent=("index_mut", "index", "raw_mut", "raw", "to_mut", "deref_mut", "as_mut"))
        for bi, t in f.calls():
            if (f.callee_def(t) or {}).get("n") != "reim4_extract_1blk_contiguous":
                continue
            dst = t["a"][3]
            roots = vflow.op_roots(dst)
            outs = [r for r in roots if r[0] == "param" and f.local_ty(r[1]).get("r", "").startswith("&mut")]
            if not outs:
                continue  # extraction into a temporary (vmp): MS-8 territory
            # destination start: index_mut(base, RangeFrom{start})
            dr = [r for r in plain.op_roots(dst) if r[0] == "call"]
            if len(dr) != 1 or (f.callee_def(f.blocks[dr[0][1]]["t"]) or {}).get("n") != "index_mut":
                res.undec("WR-7", "%s: destination of the extraction is not a range-from sub-slice" % f.pretty)
                continue
            n += 1
            it = f.blocks[dr[0][1]]["t"]
            S = sym.operand(it["a"][1], ("start",))
            base_roots = plain.op_roots(it["a"][0])
            var, L = loop_var_of(f, g, plain, sym, bi)
            if var is None:
                res.undec("WR-7", "%s: extraction outside a block loop" % f.pretty)
                continue
            va = next(iter(var.atoms()))
            stride, _ = coeff_of(S, va)
            rows = sym.operand(t["a"][1])
            written = rows * Poly.const(8)
            # a zero fill of the same base slice inside the same loop
            covered = None
            for b2 in sorted(L["body"]):
                t2 = f.blocks[b2]["t"]
                if not t2 or t2["k"] != "Call" or (f.callee_def(t2) or {}).get("n") not in ("reim_zero", "znx_zero", "fill"):
                    continue
                zr = [r for r in plain.op_roots(t2["a"][0]) if r[0] == "call"]
                if len(zr) != 1 or (f.callee_def(f.blocks[zr[0][1]]["t"]) or {}).get("n") != "index_mut":
                    continue
                zt = f.blocks[zr[0][1]]["t"]
                if plain.op_roots(zt["a"][0]) != base_roots:
                    continue
                zs, ze = sym.operand(zt["a"][1], ("start",)), sym.operand(zt["a"][1], ("end",))
                covered = ((zs - S) == written, (ze - S) == stride, repr(zs - S), repr(ze - S))
            if covered is not None:
                if covered[0] and covered[1]:
                    res.ok("WR-7", {"fn": f.pretty, "rows_extracted": repr(rows), "zero_fill": "from %s to %s of each block" % (covered[2], covered[3])})
                else:
                    res.bad("WR-7", f.pretty, "block-rows-gap",
                            "%s extracts `%r` rows per block and zero-fills from offset %s to %s of a block of %r scalars: rows between are left with their previous contents"
                            % (f.pretty, rows, covered[2], covered[3], stride), site=f.where(t["l"]))
                continue
            # no zero fill: the extraction itself must cover the block, in the frame that sizes the temporaries
            def frames(fn, stack, depth):
                out = []
                cs = [c for c in callers.get(fn.uid, []) if not c[0].is_test()]
                if not cs or depth >= 3:
                    return [stack]
                for (c, cb, ct) in cs:
                    out.extend(frames(c, [(c, ct)] + stack, depth + 1))
                return out
            ok_all = True
            why = ""
            for stack in frames(f, [], 0):
                chain = stack + [(f, None)]
                syms = []
                for k, (fr, ct) in enumerate(chain):
                    sub = {}
                    if k > 0:
                        pf, pct = chain[k - 1]
                        for ai, a in enumerate(pct["a"]):
                            sub[(ai + 1, ())] = syms[k - 1].operand(a)
                    syms.append(Sym(fr, Flow(fr), param_subst=sub))
                r2 = syms[-1].operand(t["a"][1])
                s2 = syms[-1].operand(it["a"][1], ("start",))
                st2, _ = coeff_of(s2, va)
                # size of an object taken in an outer frame = the size argument of the take
                mapping = {}
                def resolve(poly):
                    out = Poly()
                    for mono, c in poly.t.items():
                        term = Poly.const(c)
                        for a in mono:
                            term = term * resolve_atom(a)
                        out = out + term
                    return out
                def resolve_atom(a):
                    if a[0] == "f" and a[1] == "size" and len(a[2]) == 1 and len(a[2][0]) == 1 and len(a[2][0][0][0]) == 1:
                        inner = a[2][0][0][0][0]
                        if inner[0] == "call" and len(inner) >= 3:
                            fr0 = p.fn(inner[1])
                            if fr0 is not None:
                                tt = fr0.blocks[inner[2]]["t"]
                                if (fr0.callee_def(tt) or {}).get("n", "").startswith("take_vec_znx"):
                                    for (fr, ct), sy in zip(chain, syms):
                                        if fr.uid == fr0.uid:
                                            return sy.operand(tt["a"][-1])
                    if a[0] == "f" and isinstance(a[2], tuple):
                        args = []
                        for k2 in a[2]:
                            if isinstance(k2, tuple) and (not k2 or (isinstance(k2[0], tuple) and len(k2[0]) == 2 and isinstance(k2[0][0], tuple))):
                                args.append(resolve(Poly(dict(k2))).key())
                            else:
                                args.append(k2)
                        return Poly.atom((a[0], a[1], tuple(args)) + tuple(a[3:]))
                    return Poly.atom(a)
                r3, st3 = resolve(r2), resolve(st2)
                need = st3  # scalars per block
                have = r3 * Poly.const(8)
                good = have == need
                if not good:
                    # rows >= block rows through min/max structure: compare rows with stride / 8 when the stride is 8 * X
                    halves = Poly()
                    okdiv = True
                    for mono, c in need.t.items():
                        if c % 8 != 0:
                            okdiv = False
                        term = Poly.const(c // 8)
                        for a in mono:
                            term = term * Poly.atom(a)
                        halves = halves + term
                    good = okdiv and key_le(halves.key(), r3.key())
                if not good:
                    ok_all = False
                    why = "rows = %r, block rows = %r / 8 (frame of %s)" % (r3, need, chain[0][0].name)
            if ok_all:
                res.ok("WR-7", {"fn": f.pretty, "rows_extracted": repr(rows), "zero_fill": "none needed: the extraction covers the block"})
            else:
                res.bad("WR-7", f.pretty, "block-rows-gap",
                        "%s extracts `%r` rows per block and has no zero fill behind them; %s: the remaining rows of the destination keep their previous contents" % (f.pretty, rows, why),
                        site=f.where(t["l"]))
    return n


# ------------------------------------------------------------------ WR-8
def wr8(p, res, rule="WR-8"):
    """accumulation loops: inside a loop (or a for_each closure) over inputs, the first operation on a result column that does not change between
    iterations must not be an overwrite-type operation - every iteration would discard what the previous ones produced"""
    n = 0
    for f in sorted(p.lib_fns(), key=lambda x: x.uid):
        if f.kind == "Closure" or f.is_test() or not f.uid.startswith(("poulpy_cpu_ref::reference::vec_znx", "poulpy_cpu_ref::reference::fft64", "poulpy_cpu_ref::reference::ntt120")):
            continue
        pn = f.param_names()
        outs = [l for l in range(1, f.argc + 1) if f.local_ty(l).get("r", "").startswith("&mut") and pn.get(l) in ("res",)]
        if not outs:
            continue
        # loop bodies: closures handed to for_each, and natural loops of the function itself
        bodies = []
        for cl in p.closures_of(f):
            drv = [(b2, t2) for b2, t2 in f.calls() if cl.uid in f.callee_closures(t2)]
            if drv and (f.callee_def(drv[0][1]) or {}).get("n") in ("for_each", "try_for_each"):
                bodies.append(("closure", cl, drv[0]))
        g = CFG(f)
        for L in g.loops():
            bodies.append(("loop", L, None))
        for kind, body, drv in bodies:
            if kind == "closure":
                cl = body
                cflow = Flow(cl, transparent=wr.VIEW_T)
                fflow = Flow(f, transparent=wr.VIEW_T)
                # captures that are views of the output parameter, and captures that are loop-invariant scalars
                site = None
                for bb, blk in enumerate(f.blocks):
                    for st in blk["s"]:
                        if st[0] == "A" and st[2]["k"] == "Agg" and st[2].get("ak") == "Closure" and f.duid(st[2]["clos"]) == cl.uid:
                            site = st
                if site is None:
                    continue
                out_caps = set()
                for k, o in enumerate(site[2]["o"]):
                    if o[0] in ("c", "m") and any(r[0] == "param" and r[1] in outs for r in fflow.op_roots(o)):
                        out_caps.add(str(k))
                if not out_caps:
                    continue
                first = None
                for bi, t in sorted(cl.calls()):
                    d = cl.callee_def(t) or {}
                    if not d.get("u", "").startswith("poulpy_cpu_ref::reference"):
                        continue
                    for ai, a in enumerate(t["a"][:-1]):
                        if a[0] in ("c", "m") and any(r[0] == "param" and r[1] == 1 and r[2][:1] and r[2][0] in out_caps for r in cflow.op_roots(a)):
                            col_roots = cflow.op_roots(t["a"][ai + 1])
                            varies = any(r[0] == "param" and r[1] >= 2 for r in col_roots) or any(r[0] == "call" for r in col_roots)
                            first = (d.get("n", ""), varies, t["l"])
                            break
                    if first:
                        break
                n += 1
                if first is None:
                    res.ok(rule, {"fn": f.pretty, "first_op_on_result": "none on a captured result column (outputs selected by the loop item)"})
                    continue
                name, varies, line = first
                if wr.base_name(name) in wr.OVERWRITE and not varies:
                    res.bad(rule, f.pretty, "overwrite-in-accumulation-loop:%s" % name,
                            "%s: inside its loop over the inputs the first operation on the result column is `%s`, an overwrite-type operation on a column that does not change between iterations: every iteration discards what the previous ones produced (only the last input contributes)"
                            % (f.pretty, name), site=cl.where(line))
                else:
                    res.ok(rule, {"fn": f.pretty, "first_op_on_result": name, "column_varies": varies})
    return n


# ------------------------------------------------------------------ WR-2b
def wr2b(p, res, rule="WR-2"):
    """raw-offset writers: a kernel that receives a slice of `X.raw_mut()` of a column-selected output receives the column as well - in the offset of
    the slice or in another argument of the same call"""
    n = 0
    for f, si in sorted(wr.shape_functions(p, SHAPE_PREFIXES), key=lambda x: x[0].uid):
        if f.is_test() or si.out is None:
            continue
        out_l, out_c, out_n = si.out
        raws = [bi for bi, t in f.calls() if (f.callee_def(t) or {}).get("n") == "raw_mut" and t["a"]
                and any(r[0] == "param" and r[1] == out_l for r in Flow(f, transparent=WR5_VIEWS).op_roots(t["a"][0]))]
        if not raws:
            continue
        plain = Flow(f)
        sym = Sym(f, plain)
        chain = Flow(f, transparent=("index_mut", "index", "deref_mut", "as_mut", "split_at_mut"))
        col_atom = ("p", out_c, ())

        def mentions_col(poly):
            return "('p', %d, ())" % out_c in repr(poly.key())

        for bi, t in f.calls():
            d = f.callee_def(t) or {}
            cn = d.get("n", "")
            if cn in ("raw_mut", "index_mut", "index", "split_at_mut", "len", "as_mut_ptr") or not d.get("u", "").startswith("poulpy_"):
                continue
            hit = None
            for ai, a in enumerate(t["a"]):
                if a[0] not in ("c", "m") or not f.local_ty(a[1][0]).get("r", "").startswith("&mut"):
                    continue
                if any(r[0] == "call" and r[1] in raws for r in chain.op_roots(a)):
                    hit = ai
            if hit is None:
                continue
            n += 1
            ok = False
            # column in another argument
            for ai, a in enumerate(t["a"]):
                if ai != hit and a[0] in ("c", "m", "k"):
                    try:
                        if mentions_col(sym.operand(a)):
                            ok = True
                    except Exception:
                        pass
            # column in the offset of the slice (index_mut range starts on the way from raw_mut to the argument)
            seen, work = set(), [r for r in plain.op_roots(t["a"][hit])]
            while work and not ok:
                r = work.pop()
                if r in seen or r[0] != "call":
                    continue
                seen.add(r)
                t2 = f.blocks[r[1]]["t"]
                n2 = (f.callee_def(t2) or {}).get("n")
                if n2 in ("index_mut", "split_at_mut") and len(t2["a"]) == 2:
                    for pth in (("start",), ("end",), ()):
                        if mentions_col(sym.operand(t2["a"][1], pth)):
                            ok = True
                    work.extend(plain.op_roots(t2["a"][0]))
                elif n2 in ("deref_mut", "as_mut"):
                    work.extend(plain.op_roots(t2["a"][0]))
            if ok:
                res.ok(rule, {"fn": f.pretty, "raw_writer": cn, "column": "in the offset or in another argument"} if n % 3 == 1 else None)
            else:
                res.bad(rule, f.pretty, "raw-write-ignores-column:%s" % cn,
                        "%s hands `%s.raw_mut()` to `%s` without the column `%s_col` entering the slice offset or any argument of the call: the result lands at column 0 of a multi-column `%s` and the selected column stays stale"
                        % (f.pretty, out_n, cn, out_n, out_n), site=f.where(t["l"]))
    return n


def run(res, tier):
    res.level = "other"
    res.explanation = ("Shape-level clauses of C11 on MIR of every HAL shape function of the reference and AVX crates (functions with an (X, X_col) operand pair): for overwrite-type "
                       "operations the limb ranges handed to kernels must cover [0, res.size()) on every returning path - decided exactly by evaluating the min/max range bounds over "
                       "every ordering of the size variables - and every loop-body path must write its limb; every accessor on operand X uses column X_col; no store goes through a "
                       "pointer derived from a read-only operand. Functions outside the limb-range idiom (normalisation with carries, shifts, block stores) are listed as undecided. "
                       "Bytes inside a limb (kernel contracts) are not decided.")
    res.rule("WR-1", "overwrite-type shape function: written limb ranges (direct, via for_each, or forwarded to another overwrite-type shape function) cover [0, res.size()) for every ordering of the size variables; conditional writes need another write for the same limb")
    res.rule("WR-2", "every at/at_mut on a view of operand X takes X_col as its column (polynomial identity, closures included)")
    res.rule("WR-3", "pointers from as_ptr() of read-only slice operands never become store destinations")
    res.rule("COL-2", "core noise-free operations read an operand at the loop's column index only below the operand's own rank + 1 (bound equal, min-dominated, or ranks asserted equal)")
    res.rule("WR-8", "inside a for_each over inputs the first operation on a loop-invariant result column is not an overwrite-type operation (every iteration would discard the previous ones)")
    res.rule("ZERO-1", "ZnxZero::zero of the HAL layouts clears the active window (raw_mut), not the backing buffer")
    res.rule("PART-1", "the closure handling one part of a slice of results bounds its limb loops by that part's own limb count")
    res.rule("WR-7", "block extraction into an output operand: rows extracted + rows zero-filled = rows of the destination block (or the extraction alone covers it, in the frame that sizes the temporary)")
    res.rule("WR-6", "carry buffers of shift / normalisation shape functions are written (first_step* kernel or znx_zero) before any middle/final step reads them on every feasible path, zero-trip loops included (a skipped `for j in 0..T` implies T == 0)")
    res.rule("WR-5", "every mutable use of a column-selected output operand is column-selective (at_mut / zero_at), a re-view, or a hand-over to another shape function; whole-object mutators are violations (five raw-offset functions listed by name)")
    res.rule("WR-4", "raw-slice kernels taking `limb_offset`: the zero fill of the result starts exactly one stride after the last explicitly addressed written limb (fft64 and ntt120 vector-matrix products)")
    res.rule("COL-1", "core noise-free operations write their result through HAL calls whose column is the variable of a range loop")
    res.assumptions = ["kernels write the whole limb slice they receive (C07-C09 territory)", "a conditional write whose guard is not a comparison of the limb index with a bound is assumed able to be false"]
    cfgs = ["avx-dev"] if tier == "quick" else ["avx-dev", "avx-nodbg", "ref-dev"]
    for cfg in cfgs:
        p = facts.load(cfg)
        res.configs.append(p.build_info)
        n_ow, cov = wr1(p, res)
        res.floor("WR-1", "overwrite-type shape functions", n_ow, 160, ref_min=100)
        res.floor("WR-1", "covered overwrite-type shape functions", cov, 140, ref_min=90)
        n2, sites = wr2(p, res)
        res.floor("WR-2", "shape functions with column accessors", n2, 85)
        res.extra["accessor_sites"] = sites
        n3 = wr3(p, res)
        res.extra["as_ptr_sources"] = n3
        res.floor("WR-3", "as_ptr sources on read-only operands", n3, 20, ref_min=2)
        nc = col1(p, res)
        res.floor("COL-1", "core noise-free operations", nc, 12)
        nc2 = col2(p, res)
        res.floor("COL-2", "read operands indexed by a column loop", nc2, 10)
        n6 = wr6(p, res)
        res.floor("WR-6", "shape functions with a carry buffer", n6, 6)
        n2c = wr2c(p, res)
        res.floor("WR-2", "raw column offsets", n2c, 2)
        n2b = wr2b(p, res)
        res.floor("WR-2", "raw-offset writers of a column-selected output", n2b, 1)
        n8 = wr8(p, res)
        res.floor("WR-8", "for_each bodies operating on a result column", n8, 1)
        nz = zero1(p, res)
        res.floor("ZERO-1", "ZnxZero::zero impls", nz, 4)
        npt = part1(p, res)
        res.floor("PART-1", "limb loops over a part of a slice of results", npt, 2)
        n7 = wr7(p, res)
        res.floor("WR-7", "block extractions into an output operand", n7, 2)
        n5 = wr5(p, res)
        res.floor("WR-5", "shape functions with a column-selected output", n5, 150, ref_min=90)
        n4 = wr4(p, res)
        res.floor("WR-4", "offset kernels with a zero-filled tail", n4, 2)
        res.fn_count += n_ow + n2
    if tier == "thorough":
        from . import witness
        witness.check(res, ["W1ReadOnlyViews"])


def zero1(p, res):
    """`ZnxZero::zero` of the HAL layouts clears the active window of the object - the slice `raw_mut()` (n * cols * size scalars) - and nothing else: the backing buffer also holds the
    limbs between `size` and `max_size`, which the operation does not own.  Every impl fills a slice that comes from `raw_mut` / a limb accessor, not the `data` field itself."""
    n = 0
    for f in sorted(p.lib_fns(), key=lambda x: x.uid):
        if f.name != "zero" or f.kind == "Closure" or not f.blocks or f.is_test() or not f.uid.startswith("poulpy_hal::layouts"):
            continue
        flow = Flow(f, transparent=("deref_mut", "deref", "as_mut", "as_mut_slice", "borrow_mut", "index_mut", "cast_slice_mut"))
        fills = [(bi, t) for bi, t in f.calls() if (f.callee_def(t) or {}).get("n") in ("fill", "znx_zero_ref", "znx_zero", "write_bytes") and t["a"]]
        if not fills:
            continue
        n += 1
        bad = None
        for bi, t in fills:
            for r in flow.op_roots(t["a"][0]):
                if r[0] == "param" and r[2] and r[2][-1] == "data":
                    bad = t["l"]
                elif r[0] == "call" and (f.callee_def(f.blocks[r[1]]["t"]) or {}).get("n") not in ("raw_mut", "at_mut", "at_mut_ptr"):
                    bad = bad  # other helpers: not judged
        if bad:
            res.bad("ZERO-1", f.pretty, "zero-fills-backing-buffer", "%s fills the `data` buffer itself: the limbs between `size` and `max_size` belong to the capacity of the object, not to its value - "
                    "clearing them modifies memory beyond the active size (the sibling layouts and `zero_at` go through `raw_mut()` / the limb accessor)" % f.pretty, site=f.where(bad))
        else:
            res.ok("ZERO-1", {"fn": f.pretty})
    return n


def part1(p, res):
    """operations over a slice of result objects (`vec_znx_split_ring`): inside the closure that handles one part, the limb loops that write the part run up to a bound that mentions the
    part's own limb count - the parts of a split may have different sizes, and a bound hoisted from part 0 writes zeros into (or indexes past) the others."""
    from .rad import _deep_atoms
    n = 0
    for f in sorted(p.lib_fns(), key=lambda x: x.uid):
        if f.kind != "Closure" or not f.blocks or not f.uid.startswith(("poulpy_cpu_ref::reference::vec_znx::split_ring", "poulpy_cpu_ref::reference::vec_znx::merge_rings")):
            continue
        g = CFG(f)
        flow = Flow(f)
        vflow = Flow(f, transparent=wr.VIEW_T + ("deref_mut", "deref"))
        sym = Sym(f, flow)
        for L in g.loops():
            nx = [b for b in sorted(L["body"]) if f.blocks[b]["t"] and f.blocks[b]["t"]["k"] == "Call" and (f.callee_def(f.blocks[b]["t"]) or {}).get("n") == "next" and g.innermost_loop(b) is L]
            if not nx:
                continue
            rg = wr.range_of_next(f, flow, sym, f.blocks[nx[0]]["t"])
            if rg is None:
                continue
            var = Poly.atom(("call", f.uid, nx[0], ("0",)))
            own = False
            for b in L["body"]:
                t = f.blocks[b]["t"]
                if t and t["k"] == "Call" and (f.callee_def(t) or {}).get("n") == "at_mut" and len(t["a"]) == 3 and sym.operand(t["a"][2]) == var:
                    if any(r[0] == "param" and r[1] >= 2 for r in vflow.op_roots(t["a"][0])):
                        own = True
            if not own:
                continue
            n += 1
            mentions = any(a[0] == "p" and a[1] >= 2 for pl in rg for a in _deep_atoms(pl))
            if mentions:
                res.ok("PART-1", {"closure": f.pretty, "bounds": [repr(rg[0]), repr(rg[1])]})
            else:
                res.bad("PART-1", f.pretty, "part-bound-not-its-own", "%s writes the limbs %r..%r of the part it was handed, a range that does not mention that part's own limb count: parts of "
                        "different sizes get zeros where the source has data, or are indexed past their size" % (f.pretty, rg[0], rg[1]), site=f.where())
    return n
