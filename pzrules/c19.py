"""C19 — seed-compressed objects expand to what full encryption produces (structural agreement).

CMP-1 compressed and standard routines run the same kernel (compressed flag constant true / false)
CMP-2 stored seed = used seed, and the seed store reaches the caller's object (not a detached copy)
CMP-3 seed index under which the encryptor stores a cell's seed == index under which the layout hands it to the expander
CMP-4 expander order: Source::new(stored seed); mask columns filled by an ascending Range without adaptor, same shape as the kernel's mask loop; radix from the compressed object
CMP-5 row plaintext preparation agrees between standard and compressed routine of each matrix layout
"""
from . import facts
from .cfg import CFG, Flow
from .sym import Sym, Poly
from .c20 import cap_subst_for, closure_creation, range_term, iter_term

KERNEL = "glwe_encrypt_sk_internal"
ACCESS = ("deref", "deref_mut", "borrow", "borrow_mut", "as_mut", "as_ref", "into", "from", "clone", "by_ref", "data_mut", "data", "at_mut", "at", "key_mut",
          "index_mut", "index", "get_mut", "iter_mut", "as_mut_slice")
STREAM_T = ("deref", "deref_mut", "borrow", "borrow_mut", "as_mut", "as_ref", "into", "from", "by_ref")


def norm_poly(pl, loopvars=None):
    """replace accessor atoms by their bare names and loop-variable atoms by labels so that polynomials from different bodies compare"""
    loopvars = loopvars or {}
    out = {}
    for mono, c in pl.t.items():
        m2 = []
        for a in mono:
            if a in loopvars:
                m2.append(("var", loopvars[a]))
            elif a[0] == "f":
                m2.append(("acc", a[1]))
            elif a[0] == "p":
                m2.append(("p",) + tuple(a[1:]))
            else:
                m2.append(a)
        k = tuple(sorted(m2, key=repr))
        out[k] = out.get(k, 0) + c
    return Poly(out)


def loop_var_labels(fn, flow, sym):
    """atoms of `for v in lo..hi` induction variables -> label = normalised hi"""
    labels = {}
    for bi, t in fn.calls():
        d = fn.callee_def(t) or {}
        if d.get("n") != "next":
            continue
        it = iter_term(fn, flow, sym, t["a"][0])
        # Range iterator: root is the Range aggregate
        rr = flow.op_roots(t["a"][0])
        rng = None
        for r in rr:
            if r[0] == "agg":
                st = fn.blocks[r[1]]["s"][r[2]]
                rv = st[2]
                if rv.get("ak") == "Adt" and fn.d(rv["adt"])["p"].endswith("Range"):
                    vals = {rv["fields"][i]: sym.operand(rv["o"][i]) for i in range(len(rv["o"]))}
                    rng = (vals.get("start"), vals.get("end"))
            elif r[0] == "call":
                t2 = fn.blocks[r[1]]["t"]
                if (fn.callee_def(t2) or {}).get("n") == "into_iter":
                    for r2 in flow.op_roots(t2["a"][0]):
                        if r2[0] == "agg":
                            rv = fn.blocks[r2[1]]["s"][r2[2]][2]
                            if rv.get("ak") == "Adt" and fn.d(rv["adt"])["p"].endswith("Range"):
                                vals = {rv["fields"][i]: sym.operand(rv["o"][i]) for i in range(len(rv["o"]))}
                                rng = (vals.get("start"), vals.get("end"))
        if rng and rng[1] is not None:
            atom = ("call", fn.uid, bi, ("0",))
            labels[atom] = (repr(norm_poly(rng[0])), repr(norm_poly(rng[1])))
    return labels


def kernel_sites(p):
    out = []
    for f in p.lib_fns():
        for bi, t in f.calls():
            d = f.callee_def(t) or {}
            if d.get("n") == KERNEL and len(t["a"]) >= 10:
                out.append((f, bi, t))
    return out


def cmp1(p, res):
    sites = kernel_sites(p)
    res.floor("CMP-1", "kernel call sites", len(sites), 6)
    comp_fns = set()
    for f, bi, t in sites:
        flag = t["a"][4]
        v = flag[1].get("v") if flag[0] == "k" else None
        compressed_ctx = "::compressed::" in f.uid or "compressed" in f.name
        # a closure inside a compressed routine
        par = f
        while par is not None and par.kind == "Closure":
            par = p.fn(par.parent)
        if par is not None and ("::compressed::" in par.uid or "compressed" in par.name):
            compressed_ctx = True
        if v is None:
            res.bad("CMP-1", f.pretty, "flag-not-constant", "%s passes a non-constant `compressed` flag to the encryption kernel" % f.pretty, site=f.where(t["l"]))
            continue
        if compressed_ctx and v != 1:
            res.bad("CMP-1", f.pretty, "flag-false-in-compressed", "compressed routine %s runs the kernel with compressed=false" % f.pretty, site=f.where(t["l"]))
        elif not compressed_ctx and v != 0:
            res.bad("CMP-1", f.pretty, "flag-true-in-standard", "standard routine %s runs the kernel with compressed=true" % f.pretty, site=f.where(t["l"]))
        else:
            res.ok("CMP-1", {"fn": f.pretty, "compressed": bool(v)})
        if compressed_ctx and par is not None:
            comp_fns.add(par.uid)
    # every compressed encryption default reaches a compressed kernel site
    reach = set(comp_fns)
    changed = True
    callers = {}
    lib = [f for f in p.lib_fns() if f.uid.startswith(("poulpy_core", "poulpy_bin_fhe", "poulpy_cpu_ref", "poulpy_cpu_avx"))]
    while changed:
        changed = False
        for f in lib:
            if f.uid in reach:
                continue
            hit = False
            for bi, t in f.calls():
                if any(x in reach for x in p.targets(f, t)):
                    hit = True
                    break
                for cu in f.callee_closures(t):
                    if cu in reach:
                        hit = True
            if not hit:
                for cl in p.closures_of(f):
                    if cl.uid in reach:
                        hit = True
            if hit:
                reach.add(f.uid)
                changed = True
    n = 0
    for f in lib:
        if f.kind != "Closure" and f.name.endswith("compressed_encrypt_sk") or (f.kind != "Closure" and "::encryption::compressed::" in f.uid and f.name.endswith("encrypt_sk")):
            n += 1
            if f.uid in reach:
                res.ok("CMP-1")
            else:
                res.bad("CMP-1", f.pretty, "no-compressed-kernel", "compressed encryption routine %s never reaches glwe_encrypt_sk_internal(compressed = true)" % f.pretty, site=f.where())
    res.floor("CMP-1", "compressed encryption routines", n, 20)


def stream_origin(f, flow, op):
    """follow a `&mut Source` operand back to the Source constructor: ("new"|"branch", bb) or ("param", n)"""
    out = set()
    for r in flow.op_roots(op):
        if r[0] == "call":
            t = f.blocks[r[1]]["t"]
            d = f.callee_def(t) or {}
            if d.get("u", "").startswith("poulpy_hal::source::") and d.get("n") in ("new", "branch"):
                out.add((d["n"], r[1], r[2]))
            else:
                out.add(("callres", r[1], r[2]))
        elif r[0] == "param":
            out.add(("param", r[1], r[2]))
        else:
            out.add(r[:3])
    return out


def cmp2(p, res):
    """stored seed = used seed at every kernel site of a compressed routine"""
    n = 0
    for f, bi, t in kernel_sites(p):
        flag = t["a"][4]
        if not (flag[0] == "k" and flag[1].get("v") == 1):
            continue
        n += 1
        # body function (closures: analyse in the parent chain)
        flow = Flow(f, transparent=STREAM_T)
        so = stream_origin(f, flow, t["a"][9])
        fkey = f.pretty
        if len(so) != 1:
            res.bad("CMP-2", fkey, "mask-stream-origin", "%s: mask stream of the compressed kernel call has %d origins" % (fkey, len(so)), site=f.where(t["l"]))
            continue
        kind, sb, path = list(so)[0]
        # find the seed_mut store in the same top-level function
        top = f
        while top.kind == "Closure":
            top = p.fn(top.parent)
        tflow = Flow(top, transparent=STREAM_T)
        stores = [(b2, t2) for b2, t2 in top.calls() if (top.callee_def(t2) or {}).get("n") == "seed_mut"]
        if not stores:
            res.bad("CMP-2", top.pretty, "no-seed-store", "%s runs a compressed encryption but never stores the seed (no seed_mut())" % top.pretty, site=top.where())
            continue
        # value copied into seed_mut(): copy_from_slice(seed_mut(res), &X)
        copied = None
        for b2, t2 in top.calls():
            if (top.callee_def(t2) or {}).get("n") in ("copy_from_slice", "clone_from_slice") and len(t2["a"]) == 2:
                r0 = tflow.op_roots(t2["a"][0])
                if any(r[0] == "call" and (top.callee_def(top.blocks[r[1]]["t"]) or {}).get("n") == "seed_mut" for r in r0):
                    copied = t2["a"][1]
                    # the object whose seed is written must be a parameter of the routine
                    st = top.blocks[[r[1] for r in r0 if r[0] == "call"][0]]["t"]
                    owner = tflow.op_roots(st["a"][0])
                    if not any(r[0] == "param" for r in owner):
                        res.bad("CMP-2", top.pretty, "seed-store-target", "%s stores the seed into an object that is not its result parameter" % top.pretty, site=top.where(t2["l"]))
        if copied is None:
            res.bad("CMP-2", top.pretty, "seed-store-shape", "%s: seed_mut() is not filled by copy_from_slice" % top.pretty, site=top.where())
            continue
        croots = tflow.op_roots(copied)
        if kind == "new":
            # Source::new(seed): seed must be the value stored
            st = f.blocks[sb]["t"]
            seed_roots = {(r[0], r[1]) for r in flow.op_roots(st["a"][0])}
            if f is top and seed_roots & {(r[0], r[1]) for r in croots}:
                res.ok("CMP-2", {"fn": fkey, "seed": "Source::new(s) and seed_mut() <- s"})
            else:
                res.bad("CMP-2", fkey, "seed-mismatch", "%s: the mask stream is Source::new(x) but a different value is stored as the object's seed" % fkey, site=f.where(t["l"]))
        elif kind == "branch":
            # (seed, stream) = src.branch(): `seed` must be stored into the table that is copied to seed_mut()
            if path[:1] != ("1",):
                res.bad("CMP-2", fkey, "branch-component", "%s: mask stream is not the stream component of branch()" % fkey, site=f.where(t["l"]))
                continue
            stored = False
            table_roots = {(r[0], r[1]) for r in croots}
            for b2, blk in enumerate(f.blocks):
                if blk["c"]:
                    continue
                for s in blk["s"]:
                    if s[0] != "A" or "*" not in s[1][1:] and not any(isinstance(x, list) and x[0] == "i" for x in s[1][1:]):
                        continue
                    vr = flow.op_roots(s[2]["o"][0]) if s[2]["k"] == "Use" else set()
                    if any(r[0] == "call" and r[1] == sb and r[2][:1] == ("0",) for r in vr):
                        stored = True
                        store_stmt = (b2, s)
            if stored:
                res.ok("CMP-2", {"fn": fkey, "seed": "branch().0 stored in the seed table, branch().1 used as mask stream"})
            else:
                res.bad("CMP-2", fkey, "seed-not-stored", "%s: the per-cell mask stream comes from branch() but the seed component of that very call is not stored in the seed table" % fkey, site=f.where(t["l"]))
        else:
            res.bad("CMP-2", fkey, "mask-stream-kind", "%s: compressed kernel call uses a mask stream that is neither Source::new(seed) nor branch().1 (%s)" % (fkey, kind), site=f.where(t["l"]))
    res.floor("CMP-2", "compressed kernel sites", n, 3)


def cloning_tomut(p):
    """impl fns named to_mut/to_ref-like that build a struct whose `seed` field is a clone (detached copy)"""
    out = set()
    for f in p.lib_fns():
        if f.name not in ("to_mut",) or not f.uid.startswith("poulpy_"):
            continue
        flow = Flow(f)
        for blk in f.blocks:
            for s in blk["s"]:
                if s[0] == "A" and s[2]["k"] == "Agg" and s[2].get("ak") == "Adt" and "seed" in s[2].get("fields", []):
                    o = s[2]["o"][s[2]["fields"].index("seed")]
                    for r in flow.op_roots(o):
                        if r[0] == "call" and (f.callee_def(f.blocks[r[1]]["t"]) or {}).get("n") in ("clone", "to_vec", "to_owned"):
                            out.add(f.uid)
        # to_mut that maps element-wise to_mut of a cloning type
        for bi, t in f.calls():
            for cu in f.callee_closures(t):
                cf = p.fn(cu)
                if cf:
                    for b2, t2 in cf.calls():
                        if (cf.callee_def(t2) or {}).get("n") == "to_mut":
                            out.add(("via", f.uid, tuple(p.targets(cf, t2))))
    # resolve "via"
    direct = {x for x in out if isinstance(x, str)}
    changed = True
    while changed:
        changed = False
        for x in list(out):
            if isinstance(x, tuple) and any(y in direct for y in x[2]) and x[1] not in direct:
                direct.add(x[1])
                changed = True
    return direct


def cmp2b(p, res):
    """seed-store effect must reach the caller's own object"""
    clon = cloning_tomut(p)
    res.extra["cloning_to_mut_impls"] = sorted(clon)
    # effect(F) = set of param indices whose object's seed is stored
    eff = {}
    fns = [f for f in p.lib_fns() if f.uid.startswith(("poulpy_core", "poulpy_bin_fhe", "poulpy_cpu"))]
    flows = {}

    def fl(f):
        if f.uid not in flows:
            flows[f.uid] = Flow(f, transparent=ACCESS)
        return flows[f.uid]

    for f in fns:
        for bi, t in f.calls():
            if (f.callee_def(t) or {}).get("n") == "seed_mut":
                for r in fl(f).op_roots(t["a"][0]):
                    if r[0] == "param":
                        eff.setdefault(f.uid, set()).add(r[1])
    changed = True
    sites = 0
    reported = set()
    while changed:
        changed = False
        for f in fns:
            for bi, t in f.calls():
                tg = [x for x in p.targets(f, t) if x in eff]
                if not tg:
                    continue
                for x in tg:
                    for pi in eff[x]:
                        if pi - 1 >= len(t["a"]):
                            continue
                        a = t["a"][pi - 1]
                        rr = fl(f).op_roots(a)
                        for r in rr:
                            if r[0] == "param":
                                if r[1] not in eff.setdefault(f.uid, set()):
                                    eff[f.uid].add(r[1])
                                    changed = True
    # now check every call site of an effectful callee
    for f in fns:
        for bi, t in f.calls():
            tg = [x for x in p.targets(f, t) if x in eff]
            if not tg:
                continue
            for x in tg:
                for pi in eff[x]:
                    if pi - 1 >= len(t["a"]):
                        continue
                    sites += 1
                    a = t["a"][pi - 1]
                    # follow with a flow that does NOT look through to_mut
                    f2 = Flow(f, transparent=tuple(x for x in ACCESS))
                    detached = None
                    st = [a]
                    seen = set()
                    while st:
                        oo = st.pop()
                        for r in Flow(f, transparent=()).op_roots(oo) if False else f2.op_roots(oo):
                            pass
                        # explicit walk: stop at to_mut calls
                        for r in Flow(f, transparent=tuple(n for n in ACCESS)).op_roots(oo):
                            if r[0] == "call":
                                t2 = f.blocks[r[1]]["t"]
                                d2 = f.callee_def(t2) or {}
                                if d2.get("n") == "to_mut":
                                    if any(y in clon for y in p.targets(f, t2)):
                                        detached = (r[1], d2.get("p"))
                                    elif t2["a"] and ("c", r[1]) not in seen:
                                        seen.add(("c", r[1]))
                                        st.append(t2["a"][0])
                    key = (f.uid, bi, pi)
                    if detached:
                        # compensated: the seeds are copied out of the view and written back through `seed_mut` of the caller's own object (not through a cloning view)
                        fplain = Flow(f, transparent=tuple(n for n in ACCESS if n not in ("at_mut", "at", "key_mut", "index_mut", "index", "get_mut")))
                        for b3, t3 in f.calls():
                            if (f.callee_def(t3) or {}).get("n") in ("clone_from", "copy_from_slice", "clone_from_slice", "extend_from_slice") and t3["a"]:
                                for r3 in fplain.op_roots(t3["a"][0]):
                                    if r3[0] != "call":
                                        continue
                                    t4 = f.blocks[r3[1]]["t"]
                                    if (f.callee_def(t4) or {}).get("n") != "seed_mut" or not t4["a"]:
                                        continue
                                    via_view = False
                                    owner = False
                                    for r4 in fplain.op_roots(t4["a"][0]):
                                        if r4[0] == "param":
                                            owner = True
                                        if r4[0] == "call" and (f.callee_def(f.blocks[r4[1]]["t"]) or {}).get("n") == "to_mut":
                                            via_view = True
                                    if owner and not via_view:
                                        detached = None
                    if detached and key not in reported:
                        reported.add(key)
                        res.bad("CMP-2", f.pretty, "seed-stored-in-copy:%s" % (f.callee_def(t) or {}).get("n"),
                                "%s hands %s a view produced by %s, whose impl clones the seed table: the seeds written by the callee land in a temporary and the caller's object keeps its old seeds, so decompression regenerates the wrong masks"
                                % (f.pretty, (f.callee_def(t) or {}).get("n"), detached[1]), site=f.where(t["l"]))
                    elif key not in reported:
                        reported.add(key)
                        res.ok("CMP-2")
    res.floor("CMP-2", "seed-store call sites", sites, 8)


def seed_index_poly(atf):
    """polynomial of the index with which a layout accessor selects `self.seed[..]`"""
    asym = Sym(atf, Flow(atf))
    idx_poly = None
    for blk in atf.blocks:
        for s in blk["s"]:
            if s[0] != "A":
                continue
            rv = s[2]
            places = []
            if rv["k"] == "Use" and rv["o"][0][0] in ("c", "m"):
                places.append(rv["o"][0][1])
            if "p" in rv:
                places.append(rv["p"])
            for pl in places:
                names = [x[2] for x in pl[1:] if isinstance(x, list) and x[0] == "f"]
                idxs = [x[1] for x in pl[1:] if isinstance(x, list) and x[0] == "i"]
                if "seed" in names and idxs:
                    idx_poly = asym.local(idxs[0])
        tt = blk["t"]
        if tt and tt["k"] == "Call" and (atf.callee_def(tt) or {}).get("n") in ("index", "index_mut") and len(tt["a"]) == 2:
            fr = Flow(atf, transparent=("deref", "deref_mut")).op_roots(tt["a"][0])
            if any(r[0] == "param" and r[2] and r[2][-1] == "seed" for r in fr):
                idx_poly = asym.operand(tt["a"][1])
    return idx_poly


def cmp3(p, res):
    """index agreement between encryptor store and layout accessor"""
    n = 0
    for f, bi, t in kernel_sites(p):
        flag = t["a"][4]
        if not (flag[0] == "k" and flag[1].get("v") == 1):
            continue
        flow = Flow(f, transparent=("deref", "deref_mut", "borrow_mut", "as_mut", "data_mut"))
        sym = Sym(f, Flow(f))
        labels = loop_var_labels(f, Flow(f), sym)
        # result operand: &mut res.at_mut(row, col).data  -> at_mut call
        rr = flow.op_roots(t["a"][2])
        atc = [r for r in rr if r[0] == "call" and (f.callee_def(f.blocks[r[1]]["t"]) or {}).get("n") == "at_mut"]
        if not atc:
            # single-cell object (GLWECompressed): one seed, nothing to index
            continue
        n += 1
        at_t = f.blocks[atc[0][1]]["t"]
        tg = [x for x in p.targets(f, at_t) if p.fn(x) is not None]
        if len(tg) != 1:
            res.undec("CMP-3", "%s: at_mut target not unique" % f.pretty)
            continue
        atf = p.fn(tg[0])
        idx_poly = seed_index_poly(atf)
        if idx_poly is None:
            res.bad("CMP-3", atf.pretty, "accessor-seed-index", "%s does not select the cell's seed by an index expression" % atf.pretty, site=atf.where())
            continue
        # the read accessor used by the expander (`at`) must select the seed with the same index as `at_mut`
        sib = None
        for im in p.impls:
            if im["uid"] and atf.impl_uid and im["self"].split("<")[0] == [x for x in p.impls if x["uid"] == atf.impl_uid][0]["self"].split("<")[0] and im["trait"] is None and "at" in im["names"]:
                sib = p.fn(im["names"]["at"])
        if sib is None:
            res.bad("CMP-3", atf.pretty, "anchor-lost:at", "read accessor `at` of the compressed layout not found")
        else:
            ip = seed_index_poly(sib)
            if ip is None or norm_poly(ip) != norm_poly(idx_poly):
                res.bad("CMP-3", sib.pretty, "at-vs-at_mut", "%s selects the cell's seed with index %r but %s (used by the encryptor) with %r: the expander regenerates a cell's mask from another cell's seed"
                        % (sib.pretty, norm_poly(ip) if ip is not None else None, atf.pretty, norm_poly(idx_poly)), site=sib.where())
            else:
                res.ok("CMP-3", {"accessors": [sib.pretty, atf.pretty], "seed_index": repr(norm_poly(ip))})
        # substitute the accessor's (row, col) parameters by the call's argument polynomials
        args = [sym.operand(a) for a in at_t["a"]]
        sub = {}
        for i, a in enumerate(args):
            sub[("p", i + 1, ())] = a
        expected = Poly()
        for mono, c in idx_poly.t.items():
            term = Poly.const(c)
            for a in mono:
                if a in sub:
                    term = term * sub[a]
                else:
                    term = term * Poly.atom(a)
            expected = expected + term
        expected_n = norm_poly(expected, labels)
        # store index in the encryptor: seeds[IDX] = seed   (IndexMut::index_mut(seeds, IDX) or direct Index projection)
        store_idx = None
        for b2, t2 in f.calls():
            if (f.callee_def(t2) or {}).get("n") == "index_mut" and len(t2["a"]) == 2:
                ty = f.local_ty(t2["a"][0][1][0])["s"] if t2["a"][0][0] in ("c", "m") else ""
                if "[u8; 32]" in ty:
                    store_idx = sym.operand(t2["a"][1])
        for blk in f.blocks:
            for s in blk["s"]:
                if s[0] == "A" and any(isinstance(x, list) and x[0] == "i" for x in s[1][1:]):
                    ty = f.local_ty(s[1][0])["s"]
                    if "[u8; 32]" in ty:
                        store_idx = sym.local([x[1] for x in s[1][1:] if isinstance(x, list) and x[0] == "i"][0])
        if store_idx is None:
            res.bad("CMP-3", f.pretty, "store-index", "%s: no indexed store of the per-cell seed found" % f.pretty, site=f.where(t["l"]))
            continue
        got_n = norm_poly(store_idx, labels)
        # accessor names may differ by aliasing locals (cols = rank+1): compare after expanding known aliases numerically is out of reach;
        # both sides are polynomials over accessor names and loop labels
        if equal_mod_alias(expected_n, got_n):
            res.ok("CMP-3", {"fn": f.pretty, "store_index": repr(got_n), "accessor_index": repr(expected_n)})
        else:
            res.bad("CMP-3", f.pretty, "index-mismatch",
                    "%s stores the seed of cell (row, col) under index %r, but %s hands the expander the seed at index %r" % (f.pretty, got_n, atf.pretty, expected_n),
                    site=f.where(t["l"]))
    res.floor("CMP-3", "matrix compressed kernel sites", n, 2)


def equal_mod_alias(a, b):
    if a == b:
        return True
    # rank_out()+1 may appear as the local `cols` (computed from the same accessor) on one side: both normalise to acc atoms already.
    return False


def cmp4(p, res):
    # expander: decompress_glwe and decompress_lwe
    exps = [f for f in p.lib_fns() if f.name in ("decompress_glwe", "decompress_lwe") and f.kind == "AssocFn" and f.uid.startswith("poulpy_core::layouts::compressed")]
    res.floor("CMP-4", "expanders", len(exps), 2)
    for f in exps:
        flow = Flow(f, transparent=STREAM_T)
        fkey = f.pretty
        news = [(bi, t) for bi, t in f.calls() if (f.callee_def(t) or {}).get("u", "") == "poulpy_hal::source::{impl#0}::new"]
        if len(news) != 1:
            res.bad("CMP-4", fkey, "source-new", "%s creates %d mask streams (expected exactly one Source::new(stored seed))" % (fkey, len(news)), site=f.where())
            continue
        sr = flow.op_roots(news[0][1]["a"][0])
        good = False
        for r in sr:
            if r[0] == "call":
                t2 = f.blocks[r[1]]["t"]
                if (f.callee_def(t2) or {}).get("n") == "to_ref" and r[2] and r[2][-1] == "seed":
                    good = True
            if r[0] == "param" and r[2] and r[2][-1] == "seed":
                good = True
        if not good:
            res.bad("CMP-4", fkey, "seed-origin", "%s seeds the mask stream with something other than the compressed object's stored seed" % fkey, site=f.where(news[0][1]["l"]))
        else:
            res.ok("CMP-4", {"fn": fkey, "stream": "Source::new(other.seed)"})
        # mask fill sites (in the body or in a for_each closure)
        bodies = [f] + p.closures_of(f)
        fills = []
        for b in bodies:
            for bi, t in b.calls():
                if (b.callee_def(t) or {}).get("n") == "vec_znx_fill_uniform":
                    fills.append((b, bi, t))
        if not fills:
            res.bad("CMP-4", fkey, "no-mask-fill", "%s never regenerates the mask" % fkey, site=f.where())
            continue
        # the regeneration is unconditional: every returning path of the expander runs the mask fill (directly or through its column loop)
        from . import sc as _sc
        g_f = CFG(f)
        paths_f = _sc.returning_paths(f, g_f, cap=512) or []
        drivers = set()
        for b, bi, t in fills:
            if b is f:
                drivers.add(bi)
            else:
                for b2, t2 in f.calls():
                    if b.uid in f.callee_closures(t2):
                        drivers.add(b2)
        skipped = [pth for pth in paths_f if not any(x in drivers for x in pth)]
        if not paths_f:
            res.undec("CMP-4", "%s: paths not enumerable" % fkey)
        elif skipped:
            res.bad("CMP-4", fkey, "mask-fill-conditional", "%s has a returning path that does not regenerate the mask from the stored seed: for some stored seed or shape the expansion is not what encryption produced" % fkey, site=f.where())
        else:
            res.ok("CMP-4", {"fn": fkey, "mask_fill": "on every returning path (%d)" % len(paths_f)})
        for b, bi, t in fills:
            sym_f = Sym(f, Flow(f))
            if b is f:
                sy = sym_f
                col = sy.operand(t["a"][3])
                radix = sy.operand(t["a"][1])
                if f.name == "decompress_lwe":
                    if col.const_value() == 0:
                        res.ok("CMP-4", {"fn": fkey, "mask": "single column"})
                    else:
                        res.bad("CMP-4", fkey, "lwe-column", "%s fills column %r" % (fkey, col), site=f.where(t["l"]))
                    rn = norm_poly(radix)
                    if "base2k" not in repr(rn):
                        res.bad("CMP-4", fkey, "radix", "%s regenerates the mask with radix %r (expected the compressed object's base2k)" % (fkey, rn), site=f.where(t["l"]))
                    continue
                res.undec("CMP-4", "%s: mask fill outside the column closure" % fkey)
                continue
            sy = Sym(b, Flow(b), cap_subst=cap_subst_for(f, sym_f, b.uid))
            col = sy.operand(t["a"][3])
            radix = norm_poly(sy.operand(t["a"][1]))
            if col != Poly.atom(("p", 2, ())):
                res.bad("CMP-4", fkey, "column-index", "%s fills mask column %r instead of the loop column" % (fkey, col), site=b.where(t["l"]))
            if "base2k" not in repr(radix):
                res.bad("CMP-4", fkey, "radix", "%s regenerates the mask with radix %r (expected the compressed object's base2k)" % (fkey, radix), site=b.where(t["l"]))
            # the closure is driven by for_each over a plain ascending Range 1..rank+1
            drv = [(b2, t2) for b2, t2 in f.calls() if b.uid in f.callee_closures(t2)]
            if len(drv) != 1 or (f.callee_def(drv[0][1]) or {}).get("n") != "for_each":
                res.bad("CMP-4", fkey, "column-loop", "%s: mask columns are not filled by a for_each over a range" % fkey, site=f.where())
                continue
            it_op = drv[0][1]["a"][0]
            rt = range_term(f, Flow(f), sym_f, it_op)
            ity = f.local_ty(it_op[1][0])["s"] if it_op[0] in ("c", "m") else ""
            if rt is None or not ity.startswith(("std::ops::Range<", "core::ops::Range<")):
                res.bad("CMP-4", fkey, "column-order", "%s iterates the mask columns with %s (expected the plain ascending range 1..rank+1): the stream would be consumed in a different order than by the encryptor" % (fkey, ity or "a non-range iterator"),
                        site=f.where(drv[0][1]["l"]))
                continue
            lo, hi = rt
            hin = norm_poly(hi)
            if lo.const_value() != 1 or "rank" not in repr(hin):
                res.bad("CMP-4", fkey, "column-range", "%s regenerates mask columns %r..%r (expected 1..rank+1)" % (fkey, lo, hin), site=f.where(drv[0][1]["l"]))
            else:
                res.ok("CMP-4", {"fn": fkey, "columns": "%r..%r ascending" % (lo, hin), "radix": repr(radix)})
    # the kernel's own mask loop has the same shape: (1..cols).for_each(|i| fill_uniform(base2k, ct, col, source_xa))
    ks = [f for f in p.lib_fns() if f.name == KERNEL and f.kind == "AssocFn" and f.impl_uid]
    for f in ks:
        sym_f = Sym(f, Flow(f))
        okk = False
        for b in p.closures_of(f):
            for bi, t in b.calls():
                if (b.callee_def(t) or {}).get("n") == "vec_znx_fill_uniform":
                    drv = [(b2, t2) for b2, t2 in f.calls() if b.uid in f.callee_closures(t2)]
                    if len(drv) == 1 and (f.callee_def(drv[0][1]) or {}).get("n") == "for_each":
                        it_op = drv[0][1]["a"][0]
                        ity = f.local_ty(it_op[1][0])["s"] if it_op[0] in ("c", "m") else ""
                        rt = range_term(f, Flow(f), sym_f, it_op)
                        if rt and rt[0].const_value() == 1 and ity.startswith(("std::ops::Range<", "core::ops::Range<")):
                            okk = True
        if okk:
            res.ok("CMP-4", {"kernel": f.pretty, "mask_loop": "(1..cols).for_each ascending"})
        else:
            res.bad("CMP-4", f.pretty, "kernel-mask-order", "the encryption kernel no longer draws mask columns in ascending order 1..cols with a plain range", site=f.where())


def row_prep(p, f):
    """list of (callee name, normalised limb-index polynomial) of the plaintext preparation calls of a matrix encryptor"""
    out = []
    flow = Flow(f)
    sym = Sym(f, flow)
    labels = loop_var_labels(f, flow, sym)
    g = CFG(f)
    loops = g.loops()
    for bi, t in f.calls():
        n = (f.callee_def(t) or {}).get("n")
        depth = "loop-depth %d" % sum(1 for L in loops if bi in L["body"])
        if n == "vec_znx_add_scalar_assign":
            out.append((n, repr(norm_poly(sym.operand(t["a"][3]), labels)), repr(norm_poly(sym.operand(t["a"][2]), labels)), depth))
        elif n == "vec_znx_normalize_assign":
            out.append((n, "", "", depth))
        elif n in ("zero", "zero_at", "fill"):
            # clearing the row plaintext: which clearing primitive, and in which loop (per cell or once)
            out.append((n, "", "", depth))
    return sorted(out)


def cmp5(p, res):
    pairs = [("gglwe_encrypt_sk", "gglwe_compressed_encrypt_sk"), ("ggsw_encrypt_sk", "ggsw_compressed_encrypt_sk")]
    for std, cmpn in pairs:
        fs = [f for f in p.lib_fns() if f.name == std and f.uid.startswith("poulpy_core::encryption::") and "compressed" not in f.uid and f.kind == "AssocFn"]
        fc = [f for f in p.lib_fns() if f.name == cmpn and f.uid.startswith("poulpy_core::encryption::compressed") and f.kind == "AssocFn"]
        if len(fs) != 1 or len(fc) != 1:
            res.bad("CMP-5", std, "anchor-lost", "standard/compressed pair %s / %s not found (%d/%d)" % (std, cmpn, len(fs), len(fc)))
            continue
        a, b = row_prep(p, fs[0]), row_prep(p, fc[0])
        if a == b and a:
            res.ok("CMP-5", {"pair": [std, cmpn], "row_plaintext_calls": a})
        else:
            res.bad("CMP-5", fc[0].pretty, "row-plaintext", "row plaintext preparation differs between %s and %s: %s vs %s" % (std, cmpn, a, b), site=fc[0].where())


INFOS_TRAITS = ("LWEInfos", "GLWEInfos", "GGLWEInfos", "GGSWInfos")
CONV = ("into", "from", "as_usize", "as_u32", "clone", "deref", "index", "borrow", "as_ref")


def accessor_shape(f):
    """names of the non-conversion calls an infos accessor makes, in block order"""
    return tuple(n for n in ((f.callee_def(t) or {}).get("n") for bi, t in f.calls()) if n and n not in CONV)


def cmp6(p, res):
    """a compressed layout reports the same layout parameters as its standard sibling: each infos accessor either delegates to the same-named accessor of
    the wrapped object, or reads a stored field / data dimension, or is computed from the same accessors as the standard sibling's"""
    acc = {}
    for f in p.lib_fns():
        if f.kind != "AssocFn" or not f.impl_uid or not f.trait_item:
            continue
        parts = f.trait_item.split("::")
        if len(parts) < 2 or parts[-2] not in INFOS_TRAITS:
            continue
        # self type name: "<path::Type<D> as Trait>::m"
        head = f.pretty.split(" as ")[0].lstrip("<")
        ty = head.split("<")[0].split("::")[-1]
        acc.setdefault(ty, {})[f.name] = f
    n = 0
    for ty in sorted(acc):
        if not ty.endswith("Compressed"):
            continue
        std = acc.get(ty[: -len("Compressed")])
        if std is None:
            continue
        for m, f in sorted(acc[ty].items()):
            if m not in std:
                continue
            n += 1
            a, b = accessor_shape(f), accessor_shape(std[m])
            data_dims = ("n", "size", "rows", "cols", "cols_in", "cols_out")
            if a == (m,) or a == b or all(x in data_dims for x in a):
                res.ok("CMP-6", {"type": ty, "accessor": m, "shape": list(a)})
            else:
                res.bad("CMP-6", f.pretty, "accessor-disagrees:%s" % m,
                        "%s::%s is computed from %s while the standard layout computes it from %s (and it is not a plain delegation to the wrapped object's %s): receivers "
                        "sized from the compressed object's infos do not match the object" % (ty, m, list(a), list(b), m), site=f.where())
    res.floor("CMP-6", "compressed infos accessors with a standard sibling", n, 60)


def cmp7(p, res):
    """matrix expanders (a loop of decompress_glwe over rows and columns) compare the digit size of receiver and compressed operand: dsize is not part of
    the per-cell layout that decompress_glwe asserts, and a receiver with another dsize would silently get cells gadget-scaled for the wrong digit size"""
    n = 0
    for f in p.lib_fns():
        if f.kind != "AssocFn" or not f.uid.startswith("poulpy_core::layouts::compressed") or not f.name.startswith("decompress_"):
            continue
        g = CFG(f)
        cells = [(bi, t) for bi, t in f.calls() if (f.callee_def(t) or {}).get("n") == "decompress_glwe" and g.innermost_loop(bi) is not None]
        if not cells:
            continue
        n += 1
        flow = Flow(f, transparent=ACCESS + ("to_mut", "to_ref"))
        ds = {}
        for bi, t in f.calls():
            if (f.callee_def(t) or {}).get("n") == "dsize" and t["a"]:
                for r in flow.op_roots(t["a"][0]):
                    if r[0] == "param":
                        ds.setdefault(bi, set()).add(r[1])
        good = False
        for bi, t in f.calls():
            if (f.callee_def(t) or {}).get("n") in ("eq", "ne") and len(t["a"]) == 2:
                sides = []
                for a in t["a"]:
                    ps = set()
                    for r in flow.op_roots(a):
                        if r[0] == "call" and r[1] in ds:
                            ps |= ds[r[1]]
                    sides.append(ps)
                if sides[0] and sides[1] and sides[0] != sides[1]:
                    good = True
        if good:
            res.ok("CMP-7", {"expander": f.pretty, "compares": "res.dsize() with other.dsize()"})
        else:
            res.bad("CMP-7", f.pretty, "dsize-not-compared",
                    "%s expands every cell with decompress_glwe but never compares the receiver's dsize with the compressed object's: a receiver allocated with another "
                    "digit size is filled without complaint and decrypts to different plaintexts" % f.pretty, site=f.where())
    res.floor("CMP-7", "matrix expanders", n, 2)


def cmp8(p, res):
    """every decompression trait of the compressed layouts is implemented for Module (the traits carry the expander as a provided method; without an impl the
    layout cannot be expanded at all)"""
    n = 0
    for u, t in sorted(p.traits.items()):
        if not (u.startswith("poulpy_core::layouts::compressed::") and u.endswith("Decompress")):
            continue
        n += 1
        ims = [im for im in p.impls if im["trait"] == u and im["self"].startswith("poulpy_hal::layouts::Module<")]
        if ims:
            res.ok("CMP-8", {"trait": u, "impl": ims[0]["self"]})
        else:
            res.bad("CMP-8", u, "no-module-impl", "%s has no impl for Module<B>: its provided expander can never be called" % u)
    res.floor("CMP-8", "decompression traits", n, 11)


def cmp9(p, res):
    """every routine that hands `cols = X.rank() + 1` columns and a secret to `glwe_encrypt_sk_internal` compares a rank of X with the rank of that secret: the kernel indexes the
    secret's columns 0 .. cols - 2 and never looks at its rank, so a secret of larger rank is accepted silently (the result is not an encryption under the key that was passed).
    The compressed entry has to refuse what its standard sibling refuses."""
    from .rad import _deep_atoms
    n = 0
    for f in sorted(p.lib_fns(), key=lambda x: x.uid):
        if f.is_test() or not f.blocks or "test_suite" in f.uid:
            continue
        cs = [(bi, t) for bi, t in f.calls() if (f.callee_def(t) or {}).get("n") == "glwe_encrypt_sk_internal" and len(t["a"]) >= 7]
        if not cs:
            continue
        flow = Flow(f, transparent=("to_ref", "to_mut", "deref", "borrow", "as_ref", "into", "from", "clone"))
        sym = Sym(f, Flow(f))
        cmps = []
        for blk in f.blocks:
            for s in blk["s"]:
                if s[0] == "A" and s[2]["k"] == "Bin" and s[2]["op"] in ("Eq", "Ne"):
                    cmps.append([sym.operand(o) for o in s[2]["o"]])
            t = blk["t"]
            if t and t["k"] == "Call" and (f.callee_def(t) or {}).get("n") in ("eq", "ne") and len(t["a"]) == 2:
                cmps.append([sym.operand(o) for o in t["a"]])

        def rank_params(pl):
            out = set()
            for a in _deep_atoms(pl):
                if a[0] == "f" and a[1] in ("rank", "rank_out", "rank_in") and len(a[2]) == 1:
                    for b in _deep_atoms(Poly(dict(a[2][0]))):
                        if b[0] == "p":
                            out.add(b[1])
            return out
        for bi, t in cs:
            n += 1
            cols = rank_params(sym.operand(t["a"][3]))
            sk = {r[1] for r in flow.op_roots(t["a"][6]) if r[0] == "param"}
            if len(cols) != 1 or len(sk) != 1:
                res.undec("CMP-9", "%s: column count / secret of the kernel call not traced to parameters" % f.pretty)
                continue
            x, y = sorted(cols)[0], sorted(sk)[0]
            ok = any((x in rank_params(a) and y in rank_params(b)) or (y in rank_params(a) and x in rank_params(b)) for a, b in cmps)
            pn = f.param_names()
            if ok:
                res.ok("CMP-9", {"fn": f.pretty, "receiver": pn.get(x), "secret": pn.get(y)})
            else:
                res.bad("CMP-9", f.pretty, "rank-of-secret-not-compared", "%s encrypts `%s.rank() + 1` columns under `%s` without comparing the two ranks: a secret of larger rank is accepted and only its "
                        "first columns are used, where every sibling routine (standard and compressed) refuses the call" % (f.pretty, pn.get(x), pn.get(y)), site=f.where(t["l"]))
    return n


def run(res, tier):
    res.level = "other"
    res.explanation = ("Structural agreement of compressor, expander and standard encryption decided on MIR: same kernel with the compressed flag constant; the seed stored for a cell "
                       "is the seed of the stream that masked it and the store reaches the caller's object; the index under which a seed is stored equals (as polynomials over "
                       "row, col and the layout accessors) the index under which the layout hands it to the expander; the expander seeds one stream from the stored seed and fills "
                       "mask columns 1..rank+1 in ascending order with the object's radix, the same loop shape as the kernel; row plaintext placement agrees between standard and "
                       "compressed routines. Bit-identity of the produced cells is not executed.")
    res.rule("CMP-1", "compressed routines call glwe_encrypt_sk_internal with compressed = const true, standard routines with const false; every compressed encryption default reaches such a site")
    res.rule("CMP-2", "mask stream = Source::new(s) with s stored in seed_mut(), or branch().1 with branch().0 stored in the seed table copied to seed_mut(); the seed store reaches the caller's object (no cloning to_mut in between)")
    res.rule("CMP-3", "seed store index polynomial == accessor seed index polynomial under the (row, col) substitution of the kernel's result operand")
    res.rule("CMP-4", "expander: one Source::new(other.seed); columns filled by for_each over the plain Range 1..rank+1 with column = loop variable and radix = other.base2k; kernel mask loop has the same shape")
    res.rule("CMP-5", "vec_znx_add_scalar_assign limb/column polynomials, normalisation calls and clearing of the row plaintext (primitive and loop depth) agree between standard and compressed matrix encryptors")
    res.rule("CMP-6", "each infos accessor of a compressed layout delegates to the same accessor of the wrapped object, reads data dimensions, or has the standard sibling's shape")
    res.rule("CMP-7", "matrix expanders compare res.dsize() with other.dsize() before expanding cells")
    res.rule("CMP-9", "every caller of glwe_encrypt_sk_internal compares the rank its column count comes from with the rank of the secret it passes")
    res.rule("CMP-8", "every *Decompress trait of poulpy_core::layouts::compressed has an impl for Module<B>")
    res.assumptions = ["kernel arithmetic (C01) and cross-backend bits (C10) are not decided here", "accessor atoms are compared by name (one compressed object in scope)"]
    cfgs = ["avx-dev"] if tier == "quick" else ["avx-dev", "ref-dev"]
    for cfg in cfgs:
        p = facts.load(cfg)
        res.configs.append(p.build_info)
        cmp1(p, res)
        cmp2(p, res)
        cmp2b(p, res)
        cmp3(p, res)
        cmp4(p, res)
        cmp5(p, res)
        cmp6(p, res)
        cmp7(p, res)
        cmp8(p, res)
        n9 = cmp9(p, res)
        res.floor("CMP-9", "callers of the encryption kernel", n9, 5)
        # compression followed by serialisation and deserialisation: compressed layouts restore every serialised field (seeds included)
        from . import c18
        rd, wr = c18.readers_writers(p)
        res.rule("SER-6", "compressed layouts: every receiver field serialised by write_to (seed table included) is stored back by read_from")
        res.rule("SER-4", "compressed layouts: write_to and read_from perform the same ordered sequence of items")
        n6 = c18.ser6(p, res, rd, wr, only=lambda k: "ompressed" in k)
        res.floor("SER-6", "compressed writer/reader pairs", n6, 11)
        c18.ser4(p, res, rd, wr, only=lambda k: "ompressed" in k, floor=10)
        res.rule("SER-10", "compressed layouts: a reader that stages the seed table in a temporary commits the whole temporary")
        n10 = c18.ser10(p, res)
        res.floor("SER-10", "staged seed-table commits", n10, 2)
        res.fn_count += len(kernel_sites(p)) + 6
