"""Program model over the JSON fact files written by pz-mir."""
import json
import os
from functools import lru_cache

from . import build


class Fn:
    __slots__ = (
        "crate", "raw", "cr", "uid", "pretty", "name", "kind", "file", "line", "end_line", "vis", "unsafe", "tf",
        "argc", "blocks", "names", "impl_uid", "trait_item", "in_trait", "parent", "_cfg", "generics", "promoted",
    )

    def __init__(self, cr, raw):
        self.cr = cr
        self.raw = raw
        d = cr.defs[raw["d"]]
        self.crate = cr.name
        self.uid = d["u"]
        self.pretty = d["p"]
        self.name = d.get("n", "")
        self.kind = d["k"]
        sp = raw["body_sp"]
        self.file = sp[0]
        self.line = raw["sp"][1]
        self.end_line = sp[3]
        self.vis = raw.get("vis", "")
        self.unsafe = raw.get("unsafe", False)
        self.tf = raw.get("tf", [])
        self.argc = raw["argc"]
        self.blocks = raw["blocks"]
        self.names = raw["names"]
        self.generics = raw.get("generics", [])
        self.promoted = raw.get("promoted", [])
        self.impl_uid = cr.defs[d["im"]]["u"] if "im" in d else None
        self.trait_item = cr.defs[d["ti"]]["u"] if "ti" in d else None
        self.in_trait = cr.defs[d["tr"]]["u"] if "tr" in d else None
        self.parent = cr.defs[d["par"]]["u"] if "par" in d else None
        self._cfg = None

    # ----- helpers over the crate tables
    def d(self, i):
        return self.cr.defs[i]

    def duid(self, i):
        return self.cr.defs[i]["u"]

    def ty(self, i):
        return self.cr.tys[i]

    def tys(self, i):
        return self.cr.tys[i]["s"]

    def local_ty(self, l):
        return self.cr.tys[self.raw["locals"][l]]

    def local_name(self, l):
        for n, p, _ in self.names:
            if p and len(p) == 1 and p[0] == l:
                return n
        return None

    def param_names(self):
        """arg index (1-based local) -> source name"""
        out = {}
        for n, p, ai in self.names:
            if ai is not None and p and len(p) == 1:
                out.setdefault(p[0], n)
        return out

    def where(self, line=None):
        return "%s:%s" % (self.file, line if line is not None else self.line)

    def calls(self):
        """yield (bb index, terminator) for every Call terminator in non-cleanup blocks"""
        for i, b in enumerate(self.blocks):
            if b["c"]:
                continue
            t = b["t"]
            if t and t["k"] == "Call":
                yield i, t

    def callee_uid(self, t):
        f = t.get("f")
        if not f:
            return None
        return self.cr.defs[f["d"]]["u"]

    def callee_def(self, t):
        f = t.get("f")
        if not f:
            return None
        return self.cr.defs[f["d"]]

    def callee_res(self, t):
        f = t.get("f")
        if not f:
            return None
        if "r" in f:
            return self.cr.defs[f["r"]]["u"]
        return None

    def callee_name(self, t):
        f = t.get("f")
        if not f:
            return None
        return self.cr.defs[f["d"]].get("n")

    def callee_closures(self, t):
        f = t.get("f")
        if not f:
            return []
        return [self.cr.defs[c]["u"] for c in f.get("clos", [])]

    def is_test(self):
        u = self.uid
        return "::tests::" in u or "::test_suite" in u or u.endswith("::tests")

    def __repr__(self):
        return "<Fn %s>" % self.uid


class Crate:
    def __init__(self, path):
        with open(path) as f:
            j = json.load(f)
        self.name = j["crate"]
        self.raw = j
        self.defs = j["defs"]
        self.tys = j["tys"]
        self.fns = [Fn(self, r) for r in j["fns"]]
        self.impls = j["impls"]
        self.traits = j["traits"]
        self.adts = j["adts"]
        self.statics = j["statics"]
        self.consts = j["consts"]
        self.nfns = j["nfns"]
        self.skipped_tests = j["skipped_test_bodies"]


class Program:
    def __init__(self, cfg, fdir, digest):
        self.cfg = cfg
        self.digest = digest
        self.crates = {}
        for c in build.LIB_CRATES:
            p = os.path.join(fdir, c + ".lib.json")
            self.crates[c] = Crate(p)
        self.fns = {}
        for c in self.crates.values():
            for f in c.fns:
                self.fns[f.uid] = f
        # impl tables
        self.impls = []  # dicts: uid, crate, trait uid, self ty string, items {trait_item_uid: impl_item_uid}
        self.trait_impl_items = {}  # trait item uid -> list of (impl dict, impl item uid)
        for c in self.crates.values():
            for im in c.impls:
                d = c.defs[im["d"]]
                ent = {
                    "uid": d["u"],
                    "crate": c.name,
                    "trait": c.defs[im["trait"]]["u"] if "trait" in im else None,
                    "self": c.tys[im["self"]]["s"],
                    "self_ty": c.tys[im["self"]],
                    "cr": c,
                    "unsafe": im.get("unsafe", False),
                    "test": im.get("test", False),
                    "sp": im["sp"],
                    "preds": im.get("preds", []),
                    "trait_arg_strs": [c.tys[x]["s"] for x in im.get("trait_args", [])[1:]],
                    "items": {},
                    "names": {},
                    "consts": {},
                }
                for it in im["items"]:
                    iu = c.defs[it["d"]]["u"]
                    ent["names"][it["n"]] = iu
                    if "v" in it:
                        ent["consts"][it["n"]] = it["v"]
                    if "ti" in it:
                        tu = c.defs[it["ti"]]["u"]
                        ent["items"][tu] = iu
                        self.trait_impl_items.setdefault(tu, []).append((ent, iu))
                self.impls.append(ent)
        self.traits = {}
        self.decl_args = {}  # trait method uid -> declared parameter names (self included)
        for c in self.crates.values():
            for tr in c.traits:
                d = c.defs[tr["d"]]
                for it in tr["items"]:
                    if "args" in it:
                        self.decl_args[c.defs[it["d"]]["u"]] = it["args"]
                self.traits[d["u"]] = {
                    "uid": d["u"],
                    "crate": c.name,
                    "items": {it["n"]: (c.defs[it["d"]]["u"], it["default"]) for it in tr["items"]},
                    "test": tr.get("test", False),
                    "sp": tr["sp"],
                }
        self.check_floors()

    def check_floors(self):
        for c, floor in build.BODY_FLOORS.items():
            n = self.crates[c].nfns
            if self.cfg.startswith("ref") and c == "poulpy_cpu_avx":
                continue
            if n < floor:
                raise build.BuildError("fact file for %s lists %d bodies, floor %d (cfg %s)" % (c, n, floor, self.cfg))

    def lib_fns(self):
        for f in self.fns.values():
            if not f.is_test():
                yield f

    def fn(self, uid):
        return self.fns.get(uid)

    def find_fns(self, suffix):
        return [f for f in self.fns.values() if f.uid.endswith(suffix)]

    def closures_of(self, f):
        return [g for g in self.fns.values() if g.parent == f.uid]

    # ---------- call resolution ----------
    def targets(self, fn, t):
        """Set of body uids a call terminator may reach (one step).
        Static resolution when rustc resolved the instance, otherwise class
        hierarchy over all impls of the trait method, otherwise the def itself."""
        f = t.get("f")
        if not f:
            return []
        d = fn.cr.defs[f["d"]]
        if "r" in f:
            return [fn.cr.defs[f["r"]]["u"]]
        u = d["u"]
        if "tr" in d:
            cands = self.trait_impl_items.get(u, [])
            out = []
            # filter by concrete self type when known
            self_s = None
            if f["ta"]:
                t0 = f["ta"][0]
                if isinstance(t0, int):
                    ty0 = fn.cr.tys[t0]
                    if ty0.get("k") != "param" and not ty0.get("alias"):
                        self_s = ty0
            for ent, iu in cands:
                if self_s is not None and self_s.get("k") == "adt" and "r" not in self_s:
                    sadt = fn.cr.defs[self_s["adt"]]["u"]
                    ety = ent["self_ty"]
                    if ety.get("k") == "adt" and "r" not in ety:
                        if ent["cr"].defs[ety["adt"]]["u"] != sadt:
                            continue
                out.append(iu)
            # provided (default) trait method body
            if u in self.fns:
                out.append(u)
            return out
        return [u]


_CACHE = {}


def load(cfg):
    fdir, dig, rebuilt, secs = build.ensure_facts(cfg)
    key = (cfg, dig)
    if key not in _CACHE:
        _CACHE[key] = Program(cfg, fdir, dig)
    p = _CACHE[key]
    p.build_info = {"cfg": cfg, "rebuilt": rebuilt, "build_s": round(secs, 2), "digest": dig[:16]}
    return p
