"""Fact building: runs the pz-mir driver over /repo's *current working tree*.

Freshness: a digest over every source/manifest file of /repo decides whether the
cached facts of a configuration are still valid; when it differs the workspace
members' cargo fingerprints are deleted (cargo would otherwise skip the wrapper
and replay stale output) and the facts are rebuilt, then asserted present.
"""
import fcntl
import hashlib
import json
import os
import shutil
import subprocess
import sys
import time

VERIF = os.path.dirname(os.path.dirname(os.path.abspath(__file__)))
REPO = os.environ.get("PZ_REPO", "/repo")
CACHE = os.environ.get("PZ_CACHE", os.path.join(VERIF, ".cache"))
DRIVER_DIR = os.path.join(VERIF, "pz-mir")
DRIVER = os.path.join(DRIVER_DIR, "target", "release", "pz-mir")

LIB_CRATES = ["poulpy_hal", "poulpy_core", "poulpy_cpu_ref", "poulpy_cpu_avx", "poulpy_bin_fhe", "poulpy_ckks"]

CONFIGS = {
    # name: (cargo extra args, extra rustflags)
    "ref-dev": ([], []),
    "avx-dev": (["--features", "enable-avx"], ["-C", "target-feature=+avx2,+fma"]),
    "ref-nodbg": ([], ["-C", "debug-assertions=off", "-C", "overflow-checks=off"]),
    "avx-nodbg": (
        ["--features", "enable-avx"],
        ["-C", "target-feature=+avx2,+fma", "-C", "debug-assertions=off", "-C", "overflow-checks=off"],
    ),
}

# frozen floors: number of non-test function bodies emitted per crate on the
# reference tree (counted 2026-09-25); a fact file with far fewer bodies means the
# driver or the build silently skipped code -> fail closed.
BODY_FLOORS = {
    "poulpy_hal": 400,
    "poulpy_core": 1600,
    "poulpy_cpu_ref": 1200,
    "poulpy_cpu_avx": 300,
    "poulpy_bin_fhe": 340,
    "poulpy_ckks": 480,
}


class BuildError(Exception):
    pass


def sysroot():
    return subprocess.check_output(["rustc", "+nightly", "--print", "sysroot"], text=True).strip()


def repo_digest():
    h = hashlib.sha256()
    files = []
    for root, dirs, fnames in os.walk(REPO):
        dirs[:] = [d for d in dirs if d not in ("target", ".git", "docs")]
        for fn in fnames:
            if fn.endswith(".rs") or fn in ("Cargo.toml", "Cargo.lock", "config.toml", "rust-toolchain.toml"):
                files.append(os.path.join(root, fn))
    files.sort()
    for f in files:
        h.update(f.encode())
        h.update(b"\0")
        with open(f, "rb") as fh:
            h.update(fh.read())
        h.update(b"\0")
    # the driver itself is part of the key
    for f in ("src/main.rs", "src/emit.rs", "src/json.rs"):
        with open(os.path.join(DRIVER_DIR, f), "rb") as fh:
            h.update(fh.read())
    return h.hexdigest()


def ensure_driver(force=False):
    srcs = [os.path.join(DRIVER_DIR, "src", f) for f in ("main.rs", "emit.rs", "json.rs")]
    if not force and os.path.exists(DRIVER):
        if all(os.path.getmtime(s) <= os.path.getmtime(DRIVER) for s in srcs):
            return
    env = dict(os.environ)
    env["CARGO_NET_OFFLINE"] = "true"
    r = subprocess.run(
        ["cargo", "build", "--release", "--offline"], cwd=DRIVER_DIR, env=env, stdout=subprocess.PIPE, stderr=subprocess.STDOUT, text=True
    )
    if r.returncode != 0 or not os.path.exists(DRIVER):
        raise BuildError("driver build failed:\n" + r.stdout[-4000:])


def facts_dir(cfg):
    return os.path.join(CACHE, "facts", cfg)


def ensure_facts(cfg, verbose=False):
    """Returns (facts_dir, digest, rebuilt:boolean, seconds)."""
    if cfg not in CONFIGS:
        raise BuildError("unknown configuration " + cfg)
    os.makedirs(CACHE, exist_ok=True)
    lock = open(os.path.join(CACHE, "lock"), "w")
    fcntl.flock(lock, fcntl.LOCK_EX)
    try:
        t0 = time.time()
        ensure_driver()
        dig = repo_digest()
        fdir = facts_dir(cfg)
        stamp = os.path.join(fdir, "DIGEST")
        if os.path.exists(stamp) and open(stamp).read().strip() == dig:
            if all(os.path.exists(os.path.join(fdir, c + ".lib.json")) for c in LIB_CRATES):
                return fdir, dig, False, time.time() - t0
        # rebuild
        if os.path.isdir(fdir):
            shutil.rmtree(fdir)
        os.makedirs(fdir)
        tdir = os.path.join(CACHE, "target", cfg)
        # remove workspace members' fingerprints so that cargo re-invokes the wrapper
        fp = os.path.join(tdir, "debug", ".fingerprint")
        if os.path.isdir(fp):
            for d in os.listdir(fp):
                if d.startswith("poulpy"):
                    shutil.rmtree(os.path.join(fp, d), ignore_errors=True)
        extra, rflags = CONFIGS[cfg]
        env = dict(os.environ)
        env["LD_LIBRARY_PATH"] = sysroot() + "/lib" + (":" + env["LD_LIBRARY_PATH"] if env.get("LD_LIBRARY_PATH") else "")
        env["RUSTFLAGS"] = " ".join(["-Zmir-opt-level=0", "-Awarnings"] + rflags)
        env["RUSTC_WORKSPACE_WRAPPER"] = DRIVER
        env["PZ_FACTS_DIR"] = fdir
        env["CARGO_TARGET_DIR"] = tdir
        env["CARGO_NET_OFFLINE"] = "true"
        env.pop("RUSTC_WRAPPER", None)
        cmd = ["cargo", "+nightly", "check", "--offline", "--workspace", "--exclude", "poulpy-bench"] + extra
        r = subprocess.run(cmd, cwd=REPO, env=env, stdout=subprocess.PIPE, stderr=subprocess.STDOUT, text=True)
        if verbose:
            sys.stderr.write(r.stdout[-3000:])
        if r.returncode != 0:
            raise BuildError("cargo check failed for %s (the tree does not compile?):\n%s" % (cfg, r.stdout[-6000:]))
        missing = [c for c in LIB_CRATES if not os.path.exists(os.path.join(fdir, c + ".lib.json"))]
        if missing:
            raise BuildError("driver did not emit facts for %s in %s" % (missing, cfg))
        with open(stamp, "w") as f:
            f.write(dig)
        return fdir, dig, True, time.time() - t0
    finally:
        fcntl.flock(lock, fcntl.LOCK_UN)
        lock.close()


def clean_targets():
    shutil.rmtree(os.path.join(CACHE, "target"), ignore_errors=True)
