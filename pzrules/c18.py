"""C18 — serialisation round-trips and rejects damaged input without corruption.

SER-1  arithmetic / allocation lengths / slice bounds on stream-derived (tainted) values are checked
SER-2  a tainted value is committed to a dimension field only after validation against the receiver
SER-3  failure atomicity: no failure after a metadata commit
SER-4  writer / reader field sequences agree
SER-5  backend independence of the byte format
"""
from . import facts
from .cfg import CFG, Flow
from .sym import Sym

READER_TRAIT = "poulpy_hal::layouts::serialization::ReaderFrom"
WRITER_TRAIT = "poulpy_hal::layouts::serialization::WriterTo"
TRANSPARENT = ("branch", "into", "from", "clone", "as_ref", "as_mut", "deref", "deref_mut", "borrow", "borrow_mut", "must_use")
ARITH = ("Mul", "Add", "Sub", "MulWithOverflow", "AddWithOverflow", "SubWithOverflow", "MulUnchecked", "AddUnchecked", "SubUnchecked")
CMP = ("Eq", "Ne", "Lt", "Le", "Gt", "Ge")
DIM_FIELDS = {"n", "cols", "size", "max_size", "rows", "cols_in", "cols_out"}
ALLOC_NAMES = {"from_elem", "with_capacity", "alloc_aligned", "alloc_aligned_custom", "resize", "reserve", "reserve_exact", "repeat"}


def readers_writers(p):
    rd, wr = {}, {}
    for im in p.impls:
        if im["test"]:
            continue
        if im["trait"] == READER_TRAIT and "read_from" in im["names"]:
            rd[im["self"]] = (im, p.fn(im["names"]["read_from"]))
        if im["trait"] == WRITER_TRAIT and "write_to" in im["names"]:
            wr[im["self"]] = (im, p.fn(im["names"]["write_to"]))
    return rd, wr


def self_ty_key(s):
    # strip generic parameter names so that reader (D: DataMut) and writer (D: DataRef) impls pair up
    return s.split("<")[0]


class Taint:
    """forward taint from ReadBytesExt::read_* results inside one body"""

    def __init__(self, fn):
        self.fn = fn
        self.flow = Flow(fn, transparent=TRANSPARENT)
        self.sources = {}  # bb -> (callee name)
        for bi, t in fn.calls():
            d = fn.callee_def(t)
            if d and d["p"].startswith("byteorder::ReadBytesExt::read_") and not d["p"].endswith("_into"):
                self.sources[bi] = d.get("n")
        self._memo = {}

    def roots_of_op(self, op):
        return self.flow.op_roots(op)

    def tainted_sources(self, op, depth=0, seen=None):
        """set of source blocks (read_* call sites) an operand value derives from, through arithmetic as well"""
        if seen is None:
            seen = set()
        out = set()
        for r in self.flow.op_roots(op):
            if r[0] == "call" and r[1] in self.sources:
                out.add(r[1])
            elif r[0] == "call":
                # values returned by helper calls on tainted arguments (checked_mul, min, ...) stay tainted
                t = self.fn.blocks[r[1]]["t"]
                key = ("c", r[1])
                if key in seen or depth > 12:
                    continue
                seen.add(key)
                d = self.fn.callee_def(t) or {}
                if d.get("n") in ("len", "available", "size_of", "align_of"):
                    continue
                for a in t["a"]:
                    out |= self.tainted_sources(a, depth + 1, seen)
            elif r[0] == "bin":
                key = ("b", r[1], r[2])
                if key in seen or depth > 12:
                    continue
                seen.add(key)
                st = self.fn.blocks[r[1]]["s"][r[2]][2]
                for o in st["o"]:
                    out |= self.tainted_sources(o, depth + 1, seen)
            elif r[0] == "agg":
                key = ("a", r[1], r[2])
                if key in seen or depth > 12:
                    continue
                seen.add(key)
                st = self.fn.blocks[r[1]]["s"][r[2]][2]
                for o in st["o"]:
                    out |= self.tainted_sources(o, depth + 1, seen)
        return out

    def self_derived(self, op, depth=0, seen=None):
        """operand derives from the receiver (param 1): returns set of field paths"""
        if seen is None:
            seen = set()
        out = set()
        for r in self.flow.op_roots(op):
            if r[0] == "param" and r[1] == 1:
                out.add(r[2])
            elif r[0] == "call":
                key = ("c", r[1])
                if key in seen or depth > 8:
                    continue
                seen.add(key)
                t = self.fn.blocks[r[1]]["t"]
                if r[1] in self.sources:
                    continue
                for a in t["a"][:1]:
                    out |= self.self_derived(a, depth + 1, seen)
            elif r[0] == "bin":
                key = ("b", r[1], r[2])
                if key in seen or depth > 8:
                    continue
                seen.add(key)
                st = self.fn.blocks[r[1]]["s"][r[2]][2]
                for o in st["o"]:
                    out |= self.self_derived(o, depth + 1, seen)
        return out

    def slice_root(self, op):
        """canonical origin of a slice operand: receiver field path or call site"""
        out = set()
        for r in self.flow.op_roots(op):
            if r[0] == "param":
                out.add(("param", r[1], r[2]))
            elif r[0] == "call":
                t = self.fn.blocks[r[1]]["t"]
                d = self.fn.callee_def(t) or {}
                if d.get("n") in ("index", "index_mut", "get", "get_mut", "get_unchecked_mut", "split_at_mut", "split_at"):
                    out |= self.slice_root(t["a"][0])
                else:
                    out.add(("call", d.get("n"), r[1]))
            else:
                out.add(r[:3])
        return out


def guards(fn, g, taint):
    """comparison guards: list of dict(block, lhs_sources, rhs_sources, lhs_self, rhs_self, lhs_slice, rhs_slice)"""
    out = []
    for bi in sorted(g.reach):
        blk = fn.blocks[bi]
        t = blk["t"]
        if not t or t["k"] != "Switch":
            continue
        for r in taint.flow.op_roots(t["o"]):
            if r[0] != "bin":
                continue
            st = fn.blocks[r[1]]["s"][r[2]][2]
            if st["op"] not in CMP:
                continue
            a, b = st["o"]
            ent = {
                "bb": bi, "op": st["op"],
                "src": (taint.tainted_sources(a), taint.tainted_sources(b)),
                "self": (taint.self_derived(a), taint.self_derived(b)),
                "len_of": (len_target(fn, taint, a), len_target(fn, taint, b)),
                "line": t["l"],
            }
            out.append(ent)
    # checked_* results matched against None / is_none / ok_or: treat `checked_mul(...)` + `?`/match as a guard on its operands
    for bi, t in fn.calls():
        d = fn.callee_def(t) or {}
        n = d.get("n", "")
        if n.startswith("checked_") and bi in g.reach:
            srcs = set()
            for a in t["a"]:
                srcs |= taint.tainted_sources(a)
            out.append({"bb": bi, "op": n, "src": (srcs, set()), "self": (set(), set()), "len_of": (set(), set()), "line": t["l"], "checked": True})
    return out


def len_target(fn, taint, op):
    """if operand is `len(X)` returns canonical roots of X"""
    out = set()
    for r in taint.flow.op_roots(op):
        if r[0] == "call":
            t = fn.blocks[r[1]]["t"]
            d = fn.callee_def(t) or {}
            if d.get("n") == "len":
                out |= taint.slice_root(t["a"][0])
        elif r[0] == "other":
            st = fn.blocks[r[1]]["s"][r[2]][2] if r[1] >= 0 else None
            if st and st["k"] == "Un" and st.get("op") == "PtrMetadata":
                out |= taint.slice_root(st["o"][0])
        elif r[0] == "bin":
            pass
    return out


def validated_sources(fn, g, taint, gs, at_block):
    """fixpoint: sources validated by guards dominating `at_block`"""
    dom = [x for x in gs if g.dominates(x["bb"], at_block) and x["bb"] != at_block or x.get("checked") and g.dominates(x["bb"], at_block)]
    valid = set()
    changed = True
    while changed:
        changed = False
        for x in dom:
            if x.get("checked"):
                continue
            for side in (0, 1):
                other = 1 - side
                if not x["src"][side]:
                    continue
                other_ok = bool(x["self"][other]) or bool(x["len_of"][other]) or (x["src"][other] and x["src"][other] <= valid)
                if other_ok and not x["src"][side] <= valid:
                    valid |= x["src"][side]
                    changed = True
    return valid, dom


_ARITH_PARAMS = {}


def unchecked_arith_params(p, cf, depth=0):
    """{param index: op} for the usize parameters of a library function that reach an unchecked Mul / Add / Sub / Shl in its body (or, two levels deep, in a callee's)"""
    if cf.uid in _ARITH_PARAMS:
        return _ARITH_PARAMS[cf.uid]
    _ARITH_PARAMS[cf.uid] = {}
    out = {}
    flow = Flow(cf)
    for blk in cf.blocks:
        if blk["c"]:
            continue
        for s in blk["s"]:
            if s[0] == "A" and s[2]["k"] == "Bin" and s[2]["op"] in ARITH:
                for o in s[2]["o"]:
                    for r in flow.op_roots(o):
                        if r[0] == "param" and not r[2] and cf.local_ty(r[1])["s"] in ("usize", "u64", "u32"):
                            out.setdefault(r[1], s[2]["op"])
    if depth < 2:
        for bi, t in cf.calls():
            d = cf.callee_def(t) or {}
            if not d.get("u", "").startswith("poulpy_"):
                continue
            for x in p.targets(cf, t):
                c2 = p.fn(x)
                if c2 is None or not c2.blocks or c2.uid == cf.uid:
                    continue
                sub = unchecked_arith_params(p, c2, depth + 1)
                for ai, a in enumerate(t["a"]):
                    if ai + 1 in sub:
                        for r in flow.op_roots(a):
                            if r[0] == "param" and not r[2] and cf.local_ty(r[1])["s"] in ("usize", "u64", "u32"):
                                out.setdefault(r[1], sub[ai + 1] + " in " + c2.name)
                break
    _ARITH_PARAMS[cf.uid] = out
    return out


def ser9(p, res):
    """SER-1 trusts the helper `checked_len(dims)` by name: the readers hand it raw header fields and compare its result with the payload length.  The trust is discharged here:
    the helper (and its closures) multiplies only through `checked_mul` - no `Iterator::product` / `sum`, no `*` / wrapping / widening-then-narrowing arithmetic on values that
    come from its argument - and returns the `Option` of that chain."""
    n = 0
    for f in sorted(p.lib_fns(), key=lambda x: x.uid):
        if f.name != "checked_len" or f.kind == "Closure" or not f.blocks or f.is_test():
            continue
        n += 1
        bodies = [f] + list(p.closures_of(f))
        names = [(b, (b.callee_def(t) or {}).get("n", "")) for b in bodies for bi, t in b.calls()]
        has_checked = any(nm == "checked_mul" for _, nm in names)
        loose = sorted({nm for _, nm in names if nm in ("product", "sum", "wrapping_mul", "saturating_mul", "overflowing_mul", "unchecked_mul", "pow", "wrapping_pow")})
        raw = []
        for b in bodies:
            for blk in b.blocks:
                if blk["c"]:
                    continue
                for s in blk["s"]:
                    if s[0] == "A" and s[2]["k"] == "Bin" and s[2]["op"] in ("Mul", "MulWithOverflow", "MulUnchecked", "Shl", "ShlUnchecked"):
                        raw.append(s[2]["op"])
        if has_checked and not loose and not raw:
            res.ok("SER-9", {"helper": f.pretty, "bodies": len(bodies)})
        else:
            res.bad("SER-9", f.pretty, "length-helper-not-checked", "%s - the helper every reader trusts with raw header fields - %s: a product of corrupted fields overflows (panic in dev builds, "
                    "wrap-around in release builds, where it can equal the payload length) before anything is validated" % (f.pretty,
                    "multiplies through %s" % ", ".join(loose + sorted(set(raw))) if (loose or raw) else "does not multiply through checked_mul"), site=f.where())
    return n


def check_reader(p, res, im, fn):
    fkey = fn.pretty
    g = CFG(fn)
    taint = Taint(fn)
    flow = taint.flow
    gs = guards(fn, g, taint)
    src_name = {}
    # name each source by the variable it lands in (debug name) for reports
    for bi in taint.sources:
        src_name[bi] = "%s@l%s" % (taint.sources[bi], fn.blocks[bi]["t"]["l"])
    for bi2, blk in enumerate(fn.blocks):
        for s in blk["s"]:
            if s[0] == "A" and len(s[1]) == 1 and fn.local_name(s[1][0]):
                ss = taint.tainted_sources(["c", s[1]]) if s[2]["k"] in ("Use", "Cast") else set()
                if len(ss) == 1 and fn.local_name(s[1][0]) not in ("val", "residual", "e", "v"):
                    src_name.setdefault(("n", list(ss)[0]), fn.local_name(s[1][0]))

    def nm(b):
        return src_name.get(("n", b), src_name.get(b, "?"))

    # ---------- SER-1 arithmetic on tainted values
    n1 = 0
    for bi in sorted(g.reach):
        blk = fn.blocks[bi]
        for si, s in enumerate(blk["s"]):
            if s[0] != "A" or s[2]["k"] != "Bin":
                continue
            op = s[2]["op"]
            a, b = s[2]["o"]
            ta, tb = taint.tainted_sources(a), taint.tainted_sources(b)
            if op in ("Shl", "Shr", "ShlUnchecked", "ShrUnchecked"):
                if tb:
                    res.bad("SER-1", fkey, "shift-amount:%s" % "+".join(sorted(nm(x) for x in tb)), "%s: shift amount is read from the stream unchecked" % fkey, site=fn.where(s[3]))
                continue
            if op not in ARITH or not (ta or tb):
                continue
            n1 += 1
            srcs = ta | tb
            valid, dom = validated_sources(fn, g, taint, gs, bi)
            checked = any(x.get("checked") and x["src"][0] >= srcs for x in dom)
            # a product of stream values is only safe when computed with checked_*; a dominating bound on every factor
            # (validated against the receiver) is the accepted alternative
            if srcs <= valid or checked:
                res.ok("SER-1")
            else:
                res.bad("SER-1", fkey, "arith:%s:%s" % (op.replace("WithOverflow", ""), "*".join(sorted(nm(x) for x in srcs))),
                        "%s: unchecked `%s` on header field(s) %s read from the stream (overflow panics in dev builds and wraps in release builds before any validation)"
                        % (fkey, op, sorted(nm(x) for x in srcs)), site=fn.where(s[3]))
    # unvalidated header values handed to a library function that multiplies / adds them unchecked (e.g. `VecZnx::bytes_of(n, cols, size)`)
    for bi, t in fn.calls():
        if bi not in g.reach:
            continue
        d = fn.callee_def(t) or {}
        if not d.get("u", "").startswith("poulpy_") or d.get("n") in ("checked_len",):
            continue
        for x in p.targets(fn, t):
            cf = p.fn(x)
            if cf is None or not cf.blocks:
                continue
            arith_params = unchecked_arith_params(p, cf)
            for ai, a in enumerate(t["a"]):
                if ai + 1 not in arith_params:
                    continue
                srcs = taint.tainted_sources(a)
                if not srcs:
                    continue
                n1 += 1
                valid, dom = validated_sources(fn, g, taint, gs, bi)
                if srcs <= valid:
                    res.ok("SER-1")
                else:
                    res.bad("SER-1", fkey, "arith-in-callee:%s:%s" % (cf.name, "+".join(sorted(nm(y) for y in srcs))),
                            "%s: header field(s) %s read from the stream are handed unvalidated to %s, which computes with them unchecked (`%s`): overflow panics in dev builds and wraps in "
                            "release builds, so a corrupted header passes the length comparison" % (fkey, sorted(nm(y) for y in srcs), cf.pretty, arith_params[ai + 1]), site=fn.where(t["l"]))
            break
    # allocation lengths and slice bounds
    for bi, t in fn.calls():
        if bi not in g.reach:
            continue
        d = fn.callee_def(t) or {}
        n = d.get("n", "")
        if n in ALLOC_NAMES:
            for ai, a in enumerate(t["a"]):
                srcs = taint.tainted_sources(a)
                if not srcs:
                    continue
                ty = fn.local_ty(a[1][0])["s"] if a[0] in ("c", "m") else ""
                if ty not in ("usize", "u64", "u32"):
                    continue
                valid, dom = validated_sources(fn, g, taint, gs, bi)
                if srcs <= valid:
                    res.ok("SER-1")
                else:
                    res.bad("SER-1", fkey, "alloc-len:%s:%s" % (n, "+".join(sorted(nm(x) for x in srcs))),
                            "%s: allocation length passed to %s is read from the stream without validation (%s)" % (fkey, d["p"], sorted(nm(x) for x in srcs)),
                            site=fn.where(t["l"]))
        if n in ("index", "index_mut", "split_at", "split_at_mut", "get_unchecked", "get_unchecked_mut") and len(t["a"]) >= 2:
            srcs = taint.tainted_sources(t["a"][1])
            if not srcs:
                continue
            target = taint.slice_root(t["a"][0])
            okk = False
            for x in gs:
                if x.get("checked") or not g.dominates(x["bb"], bi):
                    continue
                for side in (0, 1):
                    if x["src"][side] >= srcs or (x["src"][side] & srcs):
                        lt = x["len_of"][1 - side]
                        if lt and lt == target:
                            okk = True
            if okk:
                res.ok("SER-1", {"reader": fkey, "slice-bound": sorted(nm(x) for x in srcs), "validated-against": sorted(map(str, target))})
            else:
                res.bad("SER-1", fkey, "slice-bound:%s" % "+".join(sorted(nm(x) for x in srcs)),
                        "%s: slice bound %s comes from the stream and is not compared with the length of the slice it indexes (%s) on every path: a corrupted or larger-than-current object panics"
                        % (fkey, sorted(nm(x) for x in srcs), sorted(map(str, target))), site=fn.where(t["l"]))

    # ---------- SER-2 / SER-3: stores to receiver fields
    stores = []  # (bb, si, field path, rv)
    for bi in sorted(g.reach):
        blk = fn.blocks[bi]
        for si, s in enumerate(blk["s"]):
            if s[0] != "A":
                continue
            pl = s[1]
            if pl[0] == 1 and len(pl) > 1 and pl[1] == "*":
                fields = tuple(x[2] for x in pl[2:] if isinstance(x, list) and x[0] == "f")
                if fields:
                    stores.append((bi, si, fields, s[2], s[3]))
    # delegated reads: X::read_from(&mut self.field, reader)  (commit on success inside the callee)
    delegs = []
    fallible = []  # blocks whose terminator is a call returning Result that may fail because of the stream
    for bi, t in fn.calls():
        if bi not in g.reach:
            continue
        d = fn.callee_def(t) or {}
        n = d.get("n", "")
        pr = d.get("p", "")
        is_io = pr.startswith("byteorder::ReadBytesExt::") or pr.startswith("std::io::Read::") or n == "read_from"
        if n == "read_from" and t["a"]:
            rr = [r for r in flow.op_roots(t["a"][0]) if r[0] == "param" and r[1] == 1]
            if rr:
                delegs.append((bi, rr[0][2], t))
            else:
                # element of a receiver collection: `for key in &mut self.keys { key.read_from(reader)? }` (through into_iter / next / index_mut)
                fld = field_of(flow, t["a"][0])
                if fld is not None:
                    delegs.append((bi, (fld, "[*]"), t))
        if is_io:
            fallible.append((bi, t))
    # explicit `return Err(..)`
    err_blocks = []
    for bi in sorted(g.reach):
        for s in fn.blocks[bi]["s"]:
            if s[0] == "A" and s[1] == [0] and s[2]["k"] == "Agg" and s[2].get("variant") == "Err":
                err_blocks.append(bi)

    # ---------- SER-8: the bound an incoming length is tested against survives the reader's own commit
    # (a receiver container whose *logical* length is the bound must not be replaced / shortened by the commit: the next, larger
    #  object that the receiver was allocated for would be rejected)
    bound_fields = {}
    for bi, t in fn.calls():
        if bi not in g.reach:
            continue
        d = fn.callee_def(t) or {}
        if d.get("p", "").startswith("std::vec::Vec") and d.get("n") == "len" and t["a"]:
            rr = [r for r in flow.op_roots(t["a"][0]) if r[0] == "param" and r[1] == 1 and r[2]]
            if not rr or not t.get("d"):
                continue
            # is the length compared with a stream value?
            dst = t["d"]
            for bj in sorted(g.reach):
                for s2 in fn.blocks[bj]["s"]:
                    if s2[0] == "A" and s2[2]["k"] == "Bin" and s2[2]["op"] in ("Gt", "Lt", "Ge", "Le"):
                        a, b = s2[2]["o"]
                        for x, y in ((a, b), (b, a)):
                            if any(r[0] == "call" and r[1] == bi for r in flow.op_roots(x)) and taint.tainted_sources(y):
                                bound_fields[rr[0][2][0]] = t["l"]
    for fld, line in sorted(bound_fields.items()):
        shr = []
        for (bi, si, fields, rv, ln) in stores:
            if fields == (fld,):
                shr.append(("assigned", ln))
        for bi, t in fn.calls():
            d = fn.callee_def(t) or {}
            if bi in g.reach and d.get("p", "").startswith("std::vec::Vec") and d.get("n") in ("truncate", "resize", "clear", "shrink_to_fit", "shrink_to", "drain", "split_off") and t["a"]:
                rr = [r for r in flow.op_roots(t["a"][0]) if r[0] == "param" and r[1] == 1 and r[2] and r[2][0] == fld]
                if rr:
                    shr.append((d.get("n"), t["l"]))
        if shr:
            res.bad("SER-8", fkey, "bound-not-preserved:%s" % fld,
                    "%s: the incoming length is tested against `self.%s.len()` (line %s) but the commit changes that length (%s): a receiver that has read a smaller "
                    "object rejects the next object it was allocated for" % (fkey, fld, line, ", ".join("%s@l%s" % x for x in shr)), site=fn.where(line))
        else:
            res.ok("SER-8")
    # positive instances of the accepted form: bound = capacity()
    for bi, t in fn.calls():
        d = fn.callee_def(t) or {}
        if bi in g.reach and d.get("p", "").startswith("std::vec::Vec") and d.get("n") == "capacity":
            res.ok("SER-8")

    def reach_from(b0, strict=True):
        seen = set()
        st = list(g.succ[b0]) if strict else [b0]
        while st:
            x = st.pop()
            if x in seen:
                continue
            seen.add(x)
            st.extend(g.succ[x])
        return seen

    for bi, si, fields, rv, line in stores:
        f0 = fields[0]
        # SER-2 only for dimension fields of the leaf layouts
        if rv["k"] in ("Use", "Cast", "Agg"):
            srcs = set()
            for o in rv["o"]:
                srcs |= taint.tainted_sources(o)
        else:
            srcs = set()
        if f0 in DIM_FIELDS and len(fields) == 1 and im["crate"] == "poulpy_hal":
            if srcs:
                valid, dom = validated_sources(fn, g, taint, gs, bi)
                # the committed value must be the validated header value itself, not something computed from it
                derived = set()
                if rv["k"] in ("Use", "Cast"):
                    for o in rv["o"]:
                        for r in flow.op_roots(o):
                            if not (r[0] == "call" and r[1] in srcs):
                                derived.add(r[:2])
                clamped = False
                if derived and rv["k"] in ("Use", "Cast"):
                    # accepted derivation: `header.min(receiver_buffer.len() / limb_len)` - the header value clamped to what the receiver holds,
                    # with limb_len made of the dimensions committed alongside
                    for o in rv["o"]:
                        for r in flow.op_roots(o):
                            if r[0] != "call":
                                continue
                            tm = fn.blocks[r[1]]["t"]
                            if (fn.callee_def(tm) or {}).get("n") != "min" or len(tm["a"]) != 2:
                                continue
                            for cap_arg, hdr_arg in ((tm["a"][1], tm["a"][0]), (tm["a"][0], tm["a"][1])):
                                for r2 in flow.op_roots(cap_arg):
                                    if r2[0] != "bin":
                                        continue
                                    st2 = fn.blocks[r2[1]]["s"][r2[2]][2]
                                    if st2["op"] != "Div":
                                        continue
                                    num_is_len = any(r3[0] == "call" and (fn.callee_def(fn.blocks[r3[1]]["t"]) or {}).get("n") == "len" for r3 in flow.op_roots(st2["o"][0])) or \
                                        any(r3[0] == "other" for r3 in flow.op_roots(st2["o"][0]))
                                    num_tainted = taint.tainted_sources(st2["o"][0])
                                    den_srcs = taint.tainted_sources(st2["o"][1])
                                    hdr_srcs = taint.tainted_sources(hdr_arg)
                                    if num_is_len and not num_tainted and den_srcs and hdr_srcs and not (hdr_srcs & den_srcs):
                                        clamped = True
                if derived and clamped:
                    res.ok("SER-2", {"reader": fkey, "field": f0, "validated": "header value clamped to receiver_buffer.len() / limb_len"})
                elif srcs <= valid and derived:
                    res.bad("SER-2", fkey, "commit-derived:%s" % f0,
                            "%s: dimension field `%s` is committed with a value computed from the validated header field (and %s), not with the validated value itself: the capacity check no longer covers what is stored"
                            % (fkey, f0, ", ".join(sorted("%s@bb%s" % x for x in derived))), site=fn.where(line))
                elif srcs <= valid:
                    res.ok("SER-2", {"reader": fkey, "field": f0, "validated": True})
                else:
                    res.bad("SER-2", fkey, "commit:%s" % f0,
                            "%s: dimension field `%s` is committed from the stream without any comparison against the receiver's buffer or capacity" % (fkey, f0),
                            site=fn.where(line))
        # SER-3: a failure reachable after this store
        later = reach_from(bi)
        bad_after = [b for b, t in fallible if b in later or (b == bi)]
        errs_after = [b for b in err_blocks if b in later]
        # byte payload of fixed-size seed arrays / data buffers is exempt (not metadata): a store of a whole Vec (self.seed = vec![..]) is metadata
        if bad_after or errs_after:
            what = fn.callee_def(fn.blocks[bad_after[0]]["t"])["p"] if bad_after else "return Err"
            res.bad("SER-3", fkey, "field:%s" % ".".join(fields),
                    "%s: metadata field `%s` is overwritten before a fallible step (%s): a truncated or corrupt stream leaves the receiver changed although the read failed"
                    % (fkey, ".".join(fields), what), site=fn.where(line))
        else:
            res.ok("SER-3", {"reader": fkey, "field": ".".join(fields), "commit": "after last fallible step"})
    # in-place mutation of a receiver container (`self.seed.clear()`, `.push(..)`, `.extend_from_slice(..)`, `.resize(..)`): a commit like a field store
    MUT = ("clear", "push", "extend_from_slice", "extend", "resize", "truncate", "insert", "pop", "remove", "swap_remove", "retain", "drain", "copy_from_slice", "clone_from_slice", "fill", "append")
    for bi, t in fn.calls():
        if bi not in g.reach or not t["a"]:
            continue
        d = fn.callee_def(t) or {}
        if d.get("n") not in MUT or not (d.get("p", "").startswith(("std::vec::Vec", "alloc::vec::Vec", "core::slice", "std::slice", "<[")) or "Vec" in d.get("p", "") or "slice" in d.get("p", "")):
            continue
        rr = [r for r in flow.op_roots(t["a"][0]) if r[0] == "param" and r[1] == 1 and r[2]]
        if not rr:
            fld = field_of(flow, t["a"][0])
            if fld is None:
                continue
            fields = (fld,)
        else:
            fields = tuple(x for x in rr[0][2] if not x.isdigit()) or rr[0][2]
        later = reach_from(bi)
        bad_after = [b for b, t2 in fallible if b in later]
        errs_after = [b for b in err_blocks if b in later]
        if bad_after or errs_after:
            what = fn.callee_def(fn.blocks[bad_after[0]]["t"])["p"] if bad_after else "return Err"
            res.bad("SER-3", fkey, "mutate:%s.%s" % (".".join(fields), d.get("n")),
                    "%s: receiver container `%s` is modified in place (`%s`) before a fallible step (%s): a truncated or corrupt stream leaves it shortened / partly overwritten although the "
                    "read failed" % (fkey, ".".join(fields), d.get("n"), what), site=fn.where(t["l"]))
        else:
            res.ok("SER-3", {"reader": fkey, "container": ".".join(fields), "mutation": d.get("n"), "position": "after last fallible step"})
    for bi, fields, t in delegs:
        later = reach_from(bi)
        bad_after = [b for b, t2 in fallible if b in later and b != bi]
        in_loop = g.innermost_loop(bi) is not None
        if bad_after or in_loop:
            res.bad("SER-3", fkey, "delegate:%s" % ".".join(fields),
                    "%s: sub-object `%s` is read (and committed) before a later fallible step%s: on failure the receiver is partially updated"
                    % (fkey, ".".join(fields), " (element loop)" if in_loop else ""), site=fn.where(t["l"]))
        else:
            res.ok("SER-3", {"reader": fkey, "delegate": ".".join(fields), "position": "last fallible step"})
    return n1


# ---------------------------------------------------------------- SER-4
def io_trace(p, fn, kind):
    """set of success-path traces; a trace is a tuple of I/O events (op, endianness, field, loop-depth).
    Loops are traversed once (back edges removed); paths through failure blocks (Err / from_residual) are excluded."""
    g = CFG(fn)
    flow = Flow(fn, transparent=TRANSPARENT)
    # for reads: map source block -> field it is finally stored in
    store_of = {}
    if kind == "r":
        for bi in g.reach:
            for s in fn.blocks[bi]["s"]:
                if s[0] == "A" and s[1][0] == 1 and len(s[1]) > 1:
                    fields = tuple(x[2] for x in s[1][2:] if isinstance(x, list) and x[0] == "f")
                    if not fields:
                        continue
                    if s[2]["k"] in ("Use", "Cast", "Agg"):
                        for o in s[2]["o"]:
                            st = [o]
                            seen2 = set()
                            while st:
                                oo = st.pop()
                                for r in flow.op_roots(oo):
                                    if r[0] == "call":
                                        store_of.setdefault(r[1], fields[0])
                                    elif r[0] == "agg" and (r[1], r[2]) not in seen2:
                                        seen2.add((r[1], r[2]))
                                        st.extend(fn.blocks[r[1]]["s"][r[2]][2]["o"])
                                    elif r[0] == "bin" and (r[1], r[2]) not in seen2:
                                        seen2.add((r[1], r[2]))
                                        st.extend(fn.blocks[r[1]]["s"][r[2]][2]["o"])
    events = {}
    failure = set()
    for bi in g.reach:
        blk = fn.blocks[bi]
        for s in blk["s"]:
            if s[0] == "A" and s[1] == [0] and s[2]["k"] == "Agg" and s[2].get("variant") == "Err":
                failure.add(bi)
        t = blk["t"]
        if not t or t["k"] != "Call":
            continue
        d = fn.callee_def(t) or {}
        pr, n = d.get("p", ""), d.get("n", "")
        if n == "from_residual":
            failure.add(bi)
            continue
        depth = sum(1 for l in g.loops() if bi in l["body"])
        endian = ""
        f = t.get("f") or {}
        for x in f.get("ta", []):
            if isinstance(x, int) and "Endian" in fn.tys(x):
                endian = fn.tys(x).rsplit("::", 1)[-1]
        ev = None
        if kind == "w" and pr.startswith("byteorder::WriteBytesExt::write_"):
            fld = None
            st = [t["a"][1]]
            seen2 = set()
            while st and fld is None:
                oo = st.pop()
                for r in flow.op_roots(oo):
                    if r[0] == "param" and r[1] == 1 and r[2]:
                        fld = r[2][0]
                    elif r[0] == "call":
                        t2 = fn.blocks[r[1]]["t"]
                        if ("c", r[1]) not in seen2:
                            seen2.add(("c", r[1]))
                            st.extend(t2["a"][:1])
                    elif r[0] == "bin" and (r[1], r[2]) not in seen2:
                        seen2.add((r[1], r[2]))
                        st.extend(fn.blocks[r[1]]["s"][r[2]][2]["o"])
            ev = (n.replace("write_", ""), endian, fld, depth)
        elif kind == "r" and pr.startswith("byteorder::ReadBytesExt::read_"):
            ev = (n.replace("read_", ""), endian, store_of.get(bi), depth)
        elif kind == "w" and n == "write_all":
            ev = ("bytes", "", field_of(flow, t["a"][1]), depth)
        elif kind == "r" and n == "read_exact":
            ev = ("bytes", "", field_of(flow, t["a"][1]), depth)
        elif kind == "w" and n == "write_to" and t["a"]:
            ev = ("sub", "", field_of(flow, t["a"][0]), depth)
        elif kind == "r" and n == "read_from" and t["a"]:
            rr = field_of(flow, t["a"][0])
            if rr is None and len(t["a"]) == 1:
                # associated-function form: Distribution::read_from(reader) -> value stored into a field
                rr = store_of.get(bi)
            ev = ("sub", "", rr, depth)
        if ev:
            if ev[0].endswith("_into"):
                # read_i64_into(&mut [..]) == a loop of read_i64
                ev = (ev[0][:-5], ev[1], ev[2], ev[3] + 1)
            events[bi] = ev
    # enumerate success paths on the DAG (back edges removed)
    dom = g.dom()
    traces = set()
    budget = [4096]

    def walk(b, acc, onpath):
        if budget[0] <= 0:
            return
        if b in failure:
            return
        if b in events:
            acc = acc + (events[b],)
        if b in g.returns:
            budget[0] -= 1
            traces.add(acc)
            return
        for s2 in g.succ[b]:
            if s2 in dom.get(b, ()):  # back edge: leave the loop through its exits (body traversed once)
                for l in g.loops():
                    if l["header"] == s2:
                        for (x, y) in l["exits"]:
                            if y not in onpath and y not in failure:
                                walk(y, acc, onpath | {y})
                continue
            if s2 in onpath:
                continue
            walk(s2, acc, onpath | {s2})

    walk(0, (), {0})
    if budget[0] <= 0:
        return None
    # leaving a loop body: the DAG walk visits the loop exit from the header as well (zero-iteration path); drop traces that are
    # strict sub-sequences produced only by skipping a loop body when a longer trace with the same prefix/suffix exists
    return traces


def field_of(flow, op):
    st = [op]
    seen = set()
    while st:
        oo = st.pop()
        for r in flow.op_roots(oo):
            if r[0] == "param" and r[1] == 1 and r[2]:
                return r[2][0]
            if r[0] == "call" and ("c", r[1]) not in seen:
                seen.add(("c", r[1]))
                t2 = flow.fn.blocks[r[1]]["t"]
                st.extend(t2["a"][:1])
    return None


def ser4(p, res, rd, wr, only=None, floor=28):
    pairs = 0
    rk = {self_ty_key(k): v for k, v in rd.items()}
    wk = {self_ty_key(k): v for k, v in wr.items()}
    for k in sorted(set(rk) | set(wk)):
        if only is not None and not only(k):
            continue
        if k not in rk or k not in wk:
            # a type that can only be written or only be read: not a round-trip pair
            res.notes.append("SER-4: %s has only %s" % (k, "a reader" if k in rk else "a writer"))
            continue
        (imr, fr), (imw, fw) = rk[k], wk[k]
        if fr is None or fw is None:
            continue
        pairs += 1
        tr = io_trace(p, fr, "r")
        tw = io_trace(p, fw, "w")
        if tr is None or tw is None:
            res.undec("SER-4", "%s: too many paths" % k)
            continue

        def norm(tset):
            # field names compare only when both sides know them: keep two views
            return {tuple((e[0], e[1], e[3]) for e in t) for t in tset}

        def maximal(tset):
            # a `for` loop contributes a zero-iteration path: keep only traces that are not obtainable from another by deleting loop events
            out = set(tset)
            for a in tset:
                for b in tset:
                    if a != b and len(a) < len(b):
                        extra = [e for e in b if e[2] > 0]
                        bb = tuple(e for e in b if e[2] == 0)
                        if extra and tuple(e for e in a) == bb:
                            out.discard(a)
            return out

        nw, nr = maximal(norm(tw)), maximal(norm(tr))
        ok = nw == nr
        why = ""
        if not ok:
            why = "writer item sequences %s, reader item sequences %s" % (sorted(nw - nr), sorted(nr - nw))
        else:
            # field agreement on traces of equal shape
            for a in tw:
                for b in tr:
                    if tuple((e[0], e[1], e[3]) for e in a) == tuple((e[0], e[1], e[3]) for e in b):
                        for i, (x, y) in enumerate(zip(a, b)):
                            if x[2] is not None and y[2] is not None and x[2] != y[2]:
                                ok = False
                                why = "item %d: writer serialises field `%s` where the reader fills field `%s`" % (i, x[2], y[2])
        if ok:
            res.ok("SER-4", {"type": k, "sequences": [[list(e) for e in t] for t in sorted(tw, key=repr)][:3]})
        else:
            res.bad("SER-4", k, "sequence", "write_to / read_from of %s disagree: %s" % (k, why), site=fr.where(),
                    detail={"writer": [[list(e) for e in t] for t in sorted(tw, key=repr)], "reader": [[list(e) for e in t] for t in sorted(tr, key=repr)]})
    res.floor("SER-4", "writer/reader pairs", pairs, floor)


def reader_fields(p, fn):
    """receiver fields that read_from restores: stored fields, delegated sub-objects, fields read into directly"""
    g = CFG(fn)
    flow = Flow(fn, transparent=TRANSPARENT + ("iter_mut", "into_iter", "next", "as_mut_slice", "deref_mut", "index_mut", "get_mut", "ok_or_else", "ok_or", "unwrap", "expect", "as_mut", "values_mut", "entry", "or_insert_with"))
    out = set()
    for bi in g.reach:
        for s in fn.blocks[bi]["s"]:
            if s[0] == "A" and s[1][0] == 1 and len(s[1]) > 1 and s[1][1] == "*":
                f = [x[2] for x in s[1][2:] if isinstance(x, list) and x[0] == "f"]
                if f:
                    out.add(f[0])
        t = fn.blocks[bi]["t"]
        if t and t["k"] == "Call":
            n = (fn.callee_def(t) or {}).get("n")
            if n in ("read_from", "read_exact", "read_i64_into", "read_u64_into", "copy_from_slice", "push", "insert", "extend_from_slice") and t["a"]:
                for a in t["a"][:2]:
                    for r in flow.op_roots(a):
                        if r[0] == "param" and r[1] == 1 and r[2]:
                            out.add(r[2][0])
    return out


def ser6(p, res, rd, wr, only=None):
    """every receiver field that write_to serialises is restored by read_from"""
    rk = {self_ty_key(k): v for k, v in rd.items()}
    wk = {self_ty_key(k): v for k, v in wr.items()}
    n = 0
    for k in sorted(set(rk) & set(wk)):
        if only and not only(k):
            continue
        (imr, fr), (imw, fw) = rk[k], wk[k]
        if fr is None or fw is None:
            continue
        tw = io_trace(p, fw, "w")
        if tw is None:
            continue
        wfields = {e[2] for t in tw for e in t if e[2] is not None}
        rfields = reader_fields(p, fr)
        n += 1
        missing = sorted(wfields - rfields)
        if missing:
            res.bad("SER-6", k, "field-not-restored:%s" % ",".join(missing),
                    "write_to of %s serialises field(s) %s but read_from never stores them back into the receiver: the round trip silently keeps the receiver's old value" % (k, missing),
                    site=fr.where())
        else:
            res.ok("SER-6", {"type": k, "fields": sorted(wfields)})
    return n


# ---------------------------------------------------------------- SER-7
_BITS = {"u8": 8, "i8": 8, "u16": 16, "i16": 16, "u32": 32, "i32": 32, "u64": 64, "i64": 64, "usize": 64, "isize": 64, "u128": 128, "i128": 128}


def ser7(p, res, rd, wr):
    """wire width: a scalar written with write_uN / write_iN is not narrowed on its way to the writer (an i64 / usize field needs a 64-bit item),
    and a scalar read back is not widened from a narrower unsigned item into a signed field"""
    n = 0
    fns = []
    for k, (im, fn) in list(wr.items()) + list(rd.items()):
        if fn is not None:
            fns.append(fn)
    for f in p.lib_fns():
        if f.name in ("read_from", "write_to") and f.impl_uid and f.trait_item is None and f.uid.startswith("poulpy_"):
            fns.append(f)
    seen = set()
    for fn in fns:
        if fn.uid in seen:
            continue
        seen.add(fn.uid)
        flow = Flow(fn)
        for bi, t in fn.calls():
            d = fn.callee_def(t) or {}
            pr = d.get("p", "")
            nm = d.get("n", "")
            if pr.startswith("byteorder::WriteBytesExt::write_") and len(t["a"]) >= 2:
                wire = nm[len("write_"):]
                if wire not in _BITS:
                    continue
                n += 1
                a = t["a"][1]
                src_ty = None
                if a[0] in ("c", "m") and len(a[1]) == 1:
                    ds = flow.defs.get(a[1][0], [])
                    if len(ds) == 1 and ds[0][0] == "stmt" and ds[0][4]["k"] == "Cast" and ds[0][4].get("ck") == "IntToInt":
                        o = ds[0][4]["o"][0]
                        fr = ds[0][4].get("from")
                        src_ty = fn.ty(fr)["s"] if isinstance(fr, int) else None
                        # the number of elements of an in-memory collection is bounded by memory, not by the wire width
                        if o[0] in ("c", "m") and any(r[0] == "call" and (fn.callee_def(fn.blocks[r[1]]["t"]) or {}).get("n") in ("len", "count") for r in flow.op_roots(o)):
                            src_ty = None
                if src_ty in _BITS and _BITS[src_ty] > _BITS[wire]:
                    res.bad("SER-7", fn.pretty, "narrowed:%s->%s" % (src_ty, wire),
                            "%s writes a %s value as a %s item: values outside the narrower range (negative or large) do not survive the round trip" % (fn.pretty, src_ty, wire),
                            site=fn.where(t["l"]))
                else:
                    res.ok("SER-7", {"fn": fn.pretty, "item": wire, "from": src_ty or wire} if n % 25 == 1 else None)
            elif pr.startswith("byteorder::ReadBytesExt::read_") and nm[len("read_"):] in _BITS:
                wire = nm[len("read_"):]
                # the value (through `?`) cast to a wider signed integer
                n += 1
                bad = None
                for b2, blk in enumerate(fn.blocks):
                    for s2 in blk["s"]:
                        if s2[0] == "A" and s2[2]["k"] == "Cast" and s2[2].get("ck") == "IntToInt":
                            o = s2[2]["o"][0]
                            if o[0] in ("c", "m") and any(r[0] == "call" and r[1] == bi for r in flow.op_roots(o)):
                                dst_ty = fn.local_ty(s2[1][0])["s"] if len(s2[1]) == 1 else None
                                if dst_ty in _BITS and dst_ty.startswith("i") and wire.startswith("u") and _BITS[dst_ty] > _BITS[wire]:
                                    bad = (dst_ty, s2[3])
                if bad:
                    res.bad("SER-7", fn.pretty, "zero-extended:%s->%s" % (wire, bad[0]),
                            "%s reads a %s item into a %s field: negative values come back zero-extended" % (fn.pretty, wire, bad[0]), site=fn.where(bad[1]))
                else:
                    res.ok("SER-7", None)
    return n


def ser5(p, res, rd, wr):
    n = 0
    for table in (rd, wr):
        for k, (im, fn) in table.items():
            if fn is None:
                continue
            n += 1
            bad = False
            # generic parameters of the impl must not include a backend
            for pr in im["preds"]:
                if "Backend" in pr or "HalImpl" in pr:
                    res.bad("SER-5", fn.pretty, "backend-bound", "%s is generic over a backend (%s): byte format may differ across backends" % (fn.pretty, pr))
                    bad = True
            for bi, t in fn.calls():
                d = fn.callee_def(t) or {}
                u = d.get("u", "")
                if u.startswith(("poulpy_cpu_ref", "poulpy_cpu_avx")) or "::oep::" in u or "HalImpl" in u:
                    res.bad("SER-5", fn.pretty, "backend-call:%s" % d.get("n"), "%s calls backend code %s" % (fn.pretty, d.get("p")), site=fn.where(t["l"]))
                    bad = True
            if not bad:
                res.ok("SER-5")
    return n


def run(res, tier):
    res.level = "other"
    res.explanation = ("Decides, on MIR of every ReaderFrom/WriterTo impl, the structural clauses of C18: stream-derived header values are never used in unchecked "
                       "arithmetic, allocation lengths or slice bounds (SER-1); dimension fields are committed only after a dominating validation against the receiver "
                       "(SER-2); no failure is reachable after a metadata commit (SER-3, the documented atomicity); writer and reader perform the same sequence of "
                       "(width, endianness, field, nesting) items (SER-4); no backend code is involved (SER-5). Equality of payload bytes after a round trip is not decided.")
    res.rule("SER-1", "tainted (stream-derived) values: no unchecked Mul/Add/Sub/shift amount, no unvalidated allocation length, slice bounds compared with the length of the very slice indexed")
    res.rule("SER-2", "a tainted value is stored into n/cols/size/max_size/rows/cols_in/cols_out only when dominated by a comparison chain ending at the receiver's buffer/capacity")
    res.rule("SER-3", "no fallible step (stream read, delegated read, return Err) is reachable after a store to a receiver metadata field or after a delegated sub-object read")
    res.rule("SER-8", "a receiver container whose length (not capacity) bounds the incoming length is not replaced or shortened by the commit")
    res.rule("SER-10", "a reader that stages a container in a temporary commits the whole temporary")
    res.rule("SER-9", "the length helper the readers trust with raw header fields (checked_len) multiplies only through checked_mul")
    res.rule("SER-7", "a scalar is not narrowed on its way to write_uN/iN, and a narrower unsigned item is not widened into a signed field on the way back")
    res.rule("SER-4", "write_to and read_from of a type perform the same ordered sequence of items")
    res.rule("SER-6", "every receiver field serialised by write_to is stored back (or read into) by read_from")
    res.rule("SER-5", "write_to/read_from impls are not generic over a backend and call no backend code")
    res.assumptions = ["std::io::Read::read_exact / Write::write_all transfer exactly the given range", "byteorder read_*/write_* are inverse for equal width and endianness"]
    cfgs = ["avx-dev"] if tier == "quick" else ["avx-dev", "avx-nodbg"]
    for cfg in cfgs:
        p = facts.load(cfg)
        res.configs.append(p.build_info)
        rd, wr = readers_writers(p)
        o8 = res.rules["SER-8"]["obligations"]
        res.floor("SER-1", "ReaderFrom impls", len(rd), 30)
        for k in sorted(rd):
            im, fn = rd[k]
            if fn is None:
                res.bad("SER-1", k, "anchor-lost:read_from", "no body for read_from of %s" % k)
                continue
            res.fn_count += 1
            check_reader(p, res, im, fn)
        # inherent readers (Distribution::read_from): same taint rules
        for f in p.lib_fns():
            if f.name == "read_from" and f.impl_uid and f.trait_item is None and f.uid.startswith("poulpy_"):
                check_reader(p, res, {"crate": f.crate}, f)
                res.fn_count += 1
        res.floor("SER-8", "receiver seed-table bounds", res.rules["SER-8"]["obligations"] - o8, 2)
        ser4(p, res, rd, wr)
        n6 = ser6(p, res, rd, wr)
        res.floor("SER-6", "writer/reader pairs", n6, 28)
        n9 = ser9(p, res)
        res.floor("SER-9", "trusted length helpers", n9, 1)
        n10 = ser10(p, res)
        res.floor("SER-10", "staged container commits", n10, 2)
        ser5(p, res, rd, wr)
        n7 = ser7(p, res, rd, wr)
        res.floor("SER-7", "scalar wire items", n7, 60)


def ser10(p, res):
    """readers that stage a container in a temporary and commit it at the end (`self.seed.clear(); self.seed.extend_from_slice(&seed)`): the commit copies the whole temporary.  A
    commit from a sub-slice that starts at the receiver's old length keeps the receiver's old entries in front - the stream's seeds are lost while the body is replaced."""
    n = 0
    for f in sorted(p.lib_fns(), key=lambda x: x.uid):
        if f.name != "read_from" or f.kind == "Closure" or not f.blocks or f.is_test() or "ompressed" not in f.uid:
            continue
        flow = Flow(f)
        vflow = Flow(f, transparent=("deref_mut", "deref", "as_mut", "as_mut_slice", "borrow_mut", "as_slice", "as_ref", "borrow"))
        sym = None
        for bi, t in f.calls():
            nm = (f.callee_def(t) or {}).get("n")
            if nm not in ("extend_from_slice", "copy_from_slice", "clone_from_slice") or len(t["a"]) != 2:
                continue
            if not any(r[0] == "param" and r[1] == 1 and r[2] and r[2][-1] == "seed" for r in vflow.op_roots(t["a"][0])) and \
               not any(r[0] == "call" and (f.callee_def(f.blocks[r[1]]["t"]) or {}).get("n") in ("index_mut", "seed_mut") for r in vflow.op_roots(t["a"][0])):
                continue
            n += 1
            bad = None
            for r in vflow.op_roots(t["a"][1]):
                if r[0] == "call" and (f.callee_def(f.blocks[r[1]]["t"]) or {}).get("n") in ("index", "get", "get_unchecked", "split_at"):
                    t2 = f.blocks[r[1]]["t"]
                    sym = sym or Sym(f, flow)
                    for r2 in flow.op_roots(t2["a"][1]) if len(t2["a"]) > 1 else ():
                        if r2[0] == "agg":
                            rv = f.blocks[r2[1]]["s"][r2[2]][2]
                            if rv.get("fields") and "start" in rv["fields"]:
                                st = sym.operand(rv["o"][rv["fields"].index("start")])
                                if not (st.is_const() and st.const_value() == 0):
                                    bad = (t["l"], repr(st))
            if bad:
                res.bad("SER-10", f.pretty, "partial-commit-of-staged-container", "%s commits the staged seed table from index %s on: the entries before it keep what the receiver held, so the object read "
                        "back expands to other masks than the one that was written" % (f.pretty, bad[1]), site=f.where(bad[0]))
            else:
                res.ok("SER-10", {"fn": f.pretty})
    return n
