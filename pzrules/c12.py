"""C12 — declared scratch size suffices and scratch contents never matter (structural accounting).

SC-1 demand <= supply over uninterpreted size atoms (kinds; arguments where comparable), per matching path conditions
SC-2 entry guards name the operation's own companion with corresponding arguments
SC-3 objects taken from scratch are initialised before they are read
SC-4 takes of non-64-byte-multiple size followed by another consumer (alignment slack)
SC-5 only the scratch carver builds scratch views from raw bytes
"""
import os

from . import facts, sc
from .cfg import CFG, Flow
from .sym import Sym, Poly

LIB = ("poulpy_core", "poulpy_bin_fhe", "poulpy_ckks")
SCR_T = ("deref", "deref_mut", "borrow", "borrow_mut", "as_mut", "as_ref", "into", "from", "by_ref")


def is_scratch_ty(s):
    return "Scratch<" in s and "ScratchOwned" not in s


def companions(p):
    """map operation fn uid -> (companion fn, correspondence {companion param -> op param}) using entry guards, then names"""
    fns = [f for f in p.lib_fns() if f.uid.startswith(LIB) and f.kind != "Closure"]
    by_owner = {}
    for f in fns:
        by_owner.setdefault(f.in_trait or f.impl_uid or "", {})[f.name] = f
    pairs = {}
    for f in fns:
        if f.name.endswith("_tmp_bytes") or f.name.endswith("_tmp_bytes_default") or not any(is_scratch_ty(f.local_ty(l)["s"]) for l in range(1, f.argc + 1)):
            continue
        owner = by_owner.get(f.in_trait or f.impl_uid or "", {})
        comp = None
        corr = None
        how = None
        # (1) entry guard: assert!(scratch.available() >= self.X_tmp_bytes(args))
        flow = Flow(f, transparent=SCR_T + ("to_ref", "to_mut"))
        for bi, t in f.calls():
            d = f.callee_def(t) or {}
            n = d.get("n", "")
            if not (n.endswith("_tmp_bytes") or n.endswith("_tmp_bytes_default")):
                continue
            # result compared with available()
            used_in_guard = False
            dest = t["d"][0]
            for b2, blk in enumerate(f.blocks):
                for s in blk["s"]:
                    if s[0] == "A" and s[2]["k"] == "Bin" and s[2]["op"] in ("Ge", "Le", "Lt", "Gt"):
                        ops = s[2]["o"]
                        roots = [Flow.op_roots(flow, o) for o in ops]
                        has_q = any(("call", bi, ()) in r for r in roots)
                        has_av = any(any(x[0] == "call" and (f.callee_def(f.blocks[x[1]]["t"]) or {}).get("n") == "available" for x in r) for r in roots)
                        if has_q and has_av:
                            used_in_guard = True
            if not used_in_guard:
                continue
            tg = [p.fn(x) for x in p.targets(f, t) if p.fn(x) is not None]
            cands = [x for x in tg if x.uid.startswith(LIB)] or tg
            if not cands:
                continue
            comp = cands[0]
            how = "guard"
            corr = {}
            for i, a in enumerate(t["a"]):
                rr = [r for r in flow.op_roots(a) if r[0] == "param"]
                if len(rr) == 1:
                    corr[i + 1] = rr[0][1]
            break
        if comp is None:
            # (2) same owner, name stem
            stems = [f.name]
            for suf in ("_default", "_assign", "_into", "_multi_thread", "_unsafe"):
                stems += [s[: -len(suf)] for s in list(stems) if s.endswith(suf)]
            for st in stems:
                for cn in (st + "_tmp_bytes", st + "_tmp_bytes_default"):
                    if cn in owner:
                        comp = owner[cn]
                        how = "name"
                        break
                if comp:
                    break
            if comp is not None:
                # correspondence by names: x_infos <-> x, else position among non-scalar params
                cn = comp.param_names()
                on = {v: k for k, v in f.param_names().items()}
                corr = {}
                for l, nm in cn.items():
                    base = nm[: -len("_infos")] if nm.endswith("_infos") else nm
                    if base in on:
                        corr[l] = on[base]
                    elif nm == "infos" and "res" in on:
                        corr[l] = on["res"]
                if 1 not in corr:
                    corr[1] = 1
        if comp is not None:
            pairs[f.uid] = (f, comp, corr, how)
    return pairs


TAKE_KIND = {"take_slice": None}


def take_atom(fn, d, t, ev):
    """size atom for a take_* call (receiver scratch excluded)"""
    name = d.get("n", "")
    args = [a for a in t["a"][1:] if not sc.is_receiver(fn, a)]
    if not name.startswith("take_"):
        return None
    kind = name[len("take_"):]
    mult = None
    if kind.endswith("_slice") and args:
        kind = kind[: -len("_slice")]
        mult = ev(args[0])
        args = args[1:]
    if kind == "slice":
        # take_slice::<T>(len): len * size_of::<T>() -- opaque element size
        return Poly.atom(("sz", "slice", tuple(ev(a).key() for a in args)))
    a = Poly.atom(("sz", kind, tuple(ev(x).key() for x in args)))
    if mult is not None:
        a = a * mult
    return a


class Demand:
    def __init__(self):
        self.cands = []  # (poly, line, what)
        self.unknown = []  # calls receiving scratch without a companion
        self.events = []  # for SC-4


def demand_of_path(p, fn, g, path, sym, flow, pairs, init_acc, depth=0):
    """simulate the scratch chain along one path. init_acc: {local: Poly}"""
    dm = Demand()
    acc = dict(init_acc)
    took = {}  # local -> (kind atom poly, is_literal_degree)

    def scratch_of(op):
        if op[0] not in ("c", "m"):
            return None
        l = op[1][0]
        if l in acc and len([x for x in op[1][1:] if isinstance(x, list)]) == 0:
            return l
        # through reborrows
        for r in flow.op_roots(op):
            pass
        return None

    def acc_of(op):
        """accumulated bytes taken before this scratch value"""
        if op[0] not in ("c", "m"):
            return None
        pl = op[1]
        fields = tuple(x[2] for x in pl[1:] if isinstance(x, list) and x[0] == "f")
        key = (pl[0], fields)
        if key in acc:
            return acc[key]
        if (pl[0], ()) in acc and not fields:
            return acc[(pl[0], ())]
        return None

    for b in path:
        blk = fn.blocks[b]
        for s in blk["s"]:
            if s[0] != "A":
                continue
            pl, rv = s[1], s[2]
            if len(pl) != 1:
                continue
            ty = fn.local_ty(pl[0])["s"]
            if rv["k"] in ("Use", "Cast") and rv["o"][0][0] in ("c", "m"):
                a = acc_of(rv["o"][0])
                if a is not None:
                    acc[(pl[0], ())] = a
            elif rv["k"] == "Ref":
                a = acc_of(["c", rv["p"]])
                if a is None and "*" in rv["p"][1:]:
                    a = acc_of(["c", [rv["p"][0]]])
                if a is not None and is_scratch_ty(ty):
                    acc[(pl[0], ())] = a
            elif rv["k"] == "Agg" and rv.get("ak") == "Closure":
                cu = fn.duid(rv["clos"])
                cf = p.fn(cu)
                if cf is None or depth > 3:
                    continue
                caps = {}
                subst = {}
                for k, o in enumerate(rv["o"]):
                    a = acc_of(o) if o[0] in ("c", "m") else None
                    if a is None and o[0] in ("c", "m"):
                        # a reference to a scratch local
                        for r in flow.op_roots(o):
                            pass
                    if a is not None:
                        caps[str(k)] = a
                    subst[str(k)] = sym.operand(o)
                if not caps:
                    continue
                cg = CFG(cf)
                cpaths = sc.returning_paths(cf, cg, cap=64) or []
                for cp in cpaths:
                    cflow = sc.PathFlow(cf, cp, transparent=SCR_T)
                    csym = sc.SizeSym(cf, sc.PathFlow(cf, cp), p, cap_subst=subst)
                    init = {}
                    # captures appear as (*_1).k : model as locals keyed (1, (k,))
                    for k, a in caps.items():
                        init[(1, (k,))] = a
                    sub = demand_of_path(p, cf, cg, cp, csym, cflow, pairs, init, depth + 1)
                    dm.cands += sub.cands
                    dm.unknown += sub.unknown
                    dm.events += sub.events
        t = blk["t"]
        if not t or t["k"] != "Call":
            continue
        d = fn.callee_def(t) or {}
        n = d.get("n", "")
        sargs = [(i, a) for i, a in enumerate(t["a"]) if a[0] in ("c", "m") and is_scratch_ty(fn.local_ty(a[1][0])["s"])]
        if not sargs:
            continue
        i0, a0 = sargs[0]
        base = acc_of(a0)
        if base is None:
            # a scratch value we did not track (e.g. obtained from borrow()): start a fresh chain
            base = None
        if n in ("available",):
            continue
        if n.startswith("take_") or n in ("split_at_mut",):
            if base is None:
                continue
            ev = lambda op: sym.operand(op)  # noqa: E731
            if n == "split_at_mut":
                at = Poly.atom(("sz", "bytes", (sym.operand(t["a"][1]).key(),)))
            else:
                at = take_atom(fn, d, t, ev)
            if at is None:
                continue
            tot = base + at
            dm.cands.append((tot, t["l"], n))
            dm.events.append({"kind": "take", "name": n, "args": [sym.operand(x) for x in t["a"][1:]], "line": t["l"], "fn": fn, "bb": b})
            # result tuple: (obj, rest): rest is field .1
            acc[(t["d"][0], ("1",))] = tot
            acc[(t["d"][0], ())] = tot
            continue
        if n == "split_mut":
            if base is None:
                continue
            at = sym.operand(t["a"][1]) * sym.operand(t["a"][2])
            dm.cands.append((base + at, t["l"], n))
            acc[(t["d"][0], ("1",))] = base + at
            continue
        if n in ("borrow", "as_mut", "deref_mut", "deref", "from_bytes", "scratch_from_bytes"):
            if base is not None and len(t["d"]) == 1:
                acc[(t["d"][0], ())] = base
            continue
        if base is None:
            continue
        # a consumer: need = companion of the callee, applied at this site
        tg = [x for x in p.targets(fn, t) if p.fn(x) is not None]
        need = None
        cname = None
        for x in tg:
            if x in pairs:
                cf, comp, corr, how = pairs[x]
                cname = comp.name[: -len("_default")] if comp.name.endswith("_default") else comp.name
                # arguments of the companion in terms of this call's arguments
                args = []
                for cl in range(1, comp.argc + 1):
                    if cl in corr and corr[cl] - 1 < len(t["a"]):
                        a = t["a"][corr[cl] - 1]
                        if sc.is_receiver(fn, a):
                            continue
                        args.append(obj_desc(fn, flow, sym, a))
                    else:
                        if cl == 1:
                            continue
                        args.append((("?",),))
                need = Poly.atom(("q", cname, tuple(args)))
                break
        if need is None:
            # HAL operation taking scratch: companion = same name + _tmp_bytes in the HAL API
            if d.get("u", "").startswith("poulpy_hal::api::"):
                need = Poly.atom(("q", hal_query_name(n), ()))
                cname = hal_query_name(n)
            else:
                # no companion: inline the callee's own demand (kind level), following forwarders across crates
                ik = None
                for x in tg:
                    ik = inline_kinds(p, p.fn(x), pairs, depth)
                    if ik is not None:
                        break
                if ik is None:
                    dm.unknown.append((d.get("p", "?"), t["l"]))
                    continue
                dm.cands.append((base, t["l"], n, ik))
                dm.events.append({"kind": "use", "name": n, "line": t["l"], "fn": fn, "bb": b})
                continue
        dm.cands.append((base + need, t["l"], n))
        dm.events.append({"kind": "use", "name": n, "line": t["l"], "fn": fn, "bb": b})
    return dm


_INLINE = {}


def inline_kinds(p, cf, pairs, depth):
    """kind-level demand of a callee without companion: list of monomials (lists of term kinds); None if not analysable"""
    if cf is None or depth > 4:
        return None
    if cf.uid in _INLINE:
        return _INLINE[cf.uid]
    _INLINE[cf.uid] = None
    if cf.uid in pairs:
        f2, comp, corr, how = pairs[cf.uid]
        cname = comp.name[: -len("_default")] if comp.name.endswith("_default") else comp.name
        out = [[(("q", cname),)]]
        _INLINE[cf.uid] = out
        return out
    g = CFG(cf)
    paths = sc.returning_paths(cf, g, cap=int(os.environ.get("PZ_INLINE_PATHS", "160")))
    if not paths:
        return None
    out = []
    for path in paths:
        flow = sc.PathFlow(cf, path, transparent=SCR_T)
        sym = sc.SizeSym(cf, sc.PathFlow(cf, path), p)
        init = {}
        for l in range(1, cf.argc + 1):
            if is_scratch_ty(cf.local_ty(l)["s"]):
                init[(l, ())] = Poly.const(0)
        if not init:
            return None
        dm = demand_of_path(p, cf, g, path, sym, flow, pairs, init, depth + 1)
        if dm.unknown:
            return None
        for cand in dm.cands:
            pol, extras = cand[0], (cand[3] if len(cand) > 3 else None)
            try:
                for m in sc.dnf(pol):
                    mk = sc.mono_kinds(m)
                    if extras:
                        for e in extras:
                            if mk + list(e) not in out:
                                out.append(mk + list(e))
                    elif mk and mk not in out:
                        out.append(mk)
            except OverflowError:
                return None
    if not out:
        out = [[]]
    _INLINE[cf.uid] = out
    return out


HAL_QUERY = {
    "vec_znx_big_normalize": "vec_znx_big_normalize_tmp_bytes", "vec_znx_normalize": "vec_znx_normalize_tmp_bytes", "vec_znx_normalize_assign": "vec_znx_normalize_tmp_bytes",
    "vmp_apply_dft_to_dft": "vmp_apply_dft_to_dft_tmp_bytes", "vmp_apply_dft": "vmp_apply_dft_tmp_bytes", "vmp_prepare": "vmp_prepare_tmp_bytes",
    "vec_znx_idft_apply": "vec_znx_idft_apply_tmp_bytes", "vec_znx_rotate_assign": "vec_znx_rotate_assign_tmp_bytes", "vec_znx_automorphism_assign": "vec_znx_automorphism_assign_tmp_bytes",
    "vec_znx_big_automorphism_assign": "vec_znx_big_automorphism_assign_tmp_bytes", "vec_znx_mul_xp_minus_one_assign": "vec_znx_mul_xp_minus_one_assign_tmp_bytes",
    "vec_znx_lsh": "vec_znx_lsh_tmp_bytes", "vec_znx_rsh": "vec_znx_rsh_tmp_bytes", "vec_znx_lsh_assign": "vec_znx_lsh_tmp_bytes", "vec_znx_rsh_assign": "vec_znx_rsh_tmp_bytes",
    "vec_znx_lsh_add_into": "vec_znx_lsh_tmp_bytes", "vec_znx_rsh_add_into": "vec_znx_rsh_tmp_bytes", "vec_znx_lsh_sub": "vec_znx_lsh_tmp_bytes", "vec_znx_rsh_sub": "vec_znx_rsh_tmp_bytes",
    "vec_znx_split_ring": "vec_znx_split_ring_tmp_bytes", "vec_znx_merge_rings": "vec_znx_merge_rings_tmp_bytes", "svp_prepare": None,
    "vec_znx_big_normalize_add_assign": "vec_znx_big_normalize_tmp_bytes", "vec_znx_big_normalize_sub_assign": "vec_znx_big_normalize_tmp_bytes",
    "cnv_apply_dft": "cnv_apply_dft_tmp_bytes", "cnv_pairwise_apply_dft": "cnv_pairwise_apply_dft_tmp_bytes", "cnv_by_const_apply": "cnv_by_const_apply_tmp_bytes",
    "cnv_prepare_left": "cnv_prepare_left_tmp_bytes", "cnv_prepare_right": "cnv_prepare_right_tmp_bytes", "cnv_prepare_self": "cnv_prepare_self_tmp_bytes",
}


def hal_query_name(n):
    if n in HAL_QUERY and HAL_QUERY[n]:
        return HAL_QUERY[n]
    return n + "_tmp_bytes"


def obj_desc(fn, flow, sym, a):
    """descriptor (a Poly key) of the object passed as an `infos`-like argument"""
    return sym.operand(a).key()


def rename_poly_key(key, corr):
    """rename ("p", i, path) atoms of a companion-side key to operation parameters through corr"""
    def ren(o):
        if isinstance(o, tuple):
            if len(o) == 3 and o[0] == "p" and isinstance(o[1], int) and isinstance(o[2], tuple):
                if o[1] in corr:
                    return ("p", corr[o[1]], o[2])
                return ("p", 1000 + o[1], o[2])
            return tuple(ren(x) for x in o)
        return o
    return ren(key)


def supply_of(p, comp, corr):
    g = CFG(comp)
    paths = sc.returning_paths(comp, g, cap=128)
    if paths is None:
        return None
    out = []
    for path in paths:
        sy = sc.SizeSym(comp, sc.PathFlow(comp, path), p)
        conds = [sc.norm_cond(k, t) for k, t in sc.path_conditions(comp, g, path, sy)]
        pol = sy.local(0)
        try:
            monos = sc.dnf(Poly(dict(rename_poly_key(pol.key(), corr))))
        except OverflowError:
            return None
        conds = [rename_poly_key(c, corr) for c in conds]
        out.append((conds, monos, pol))
    return out


class Expander:
    """kind-level expansion of ("q", name) atoms through the companions' own max-plus expressions"""

    def __init__(self, p, pairs):
        self.p = p
        self.by_name = {}
        for uid, (f, comp, corr, how) in pairs.items():
            n = comp.name[: -len("_default")] if comp.name.endswith("_default") else comp.name
            self.by_name.setdefault(n, comp)
        # every *_tmp_bytes function of the library, also those that pair with nothing
        for f in p.lib_fns():
            if f.kind != "Closure" and f.uid.startswith(LIB) and (f.name.endswith("_tmp_bytes") or f.name.endswith("_tmp_bytes_default")):
                n = f.name[: -len("_default")] if f.name.endswith("_default") else f.name
                if n not in self.by_name or (self.by_name[n].in_trait and not f.in_trait and self.is_forwarder(self.by_name[n])):
                    self.by_name.setdefault(n, f)
        self.memo = {}

    def is_forwarder(self, f):
        return len([1 for _ in f.calls()]) <= 1

    def paths_of(self, name, depth=0):
        """list of paths; path = list of monomials; monomial = list of term kinds"""
        if name in self.memo:
            return self.memo[name]
        self.memo[name] = None
        f = self.by_name.get(name)
        if f is None:
            return None
        # follow plain forwarders (api -> delegate -> oep -> default)
        seen = set()
        while f is not None and f.uid not in seen:
            seen.add(f.uid)
            calls = [(b, t) for b, t in f.calls() if (f.callee_def(t) or {}).get("p", "").startswith(("poulpy", "<", "api", "layouts", "oep", "delegates", "leveled", "bdd", "blind", "circuit", "encryption", "operations", "keyswitching", "external", "automorphism", "conversion", "decryption", "glwe", "scratch"))]
            if len(f.blocks) <= 3 and len(calls) == 1:
                tg = [self.p.fn(x) for x in self.p.targets(f, calls[0][1]) if self.p.fn(x) is not None]
                tg = [x for x in tg if x.name.endswith(("_tmp_bytes", "_tmp_bytes_default"))]
                if tg:
                    f = tg[0]
                    continue
            break
        g = CFG(f)
        paths = sc.returning_paths(f, g, cap=64)
        if not paths:
            return None
        out = []
        for path in paths:
            sy = sc.SizeSym(f, sc.PathFlow(f, path), self.p)
            try:
                monos = sc.dnf(sy.local(0))
            except OverflowError:
                return None
            out.append([sc.mono_kinds(m) for m in monos])
        self.memo[name] = out
        return out


def covered(exp, d, m, depth=0):
    """demand monomial d (list of term kinds) is contained in supply monomial m, allowing expansion of q-terms on either side"""
    d = list(d)
    m = list(m)
    for k in list(d):
        if k in m:
            d.remove(k)
            m.remove(k)
    if not d:
        return True
    if depth >= 4:
        return False
    # expand a q-term of the supply (must work for every path of its companion)
    for k in m:
        if len(k) == 1 and k[0][0] == "q":
            paths = exp.paths_of(k[0][1])
            if not paths:
                continue
            m2 = list(m)
            m2.remove(k)
            if all(any(covered(exp, d, m2 + list(mu), depth + 1) for mu in pi) for pi in paths):
                return True
    # expand a q-term of the demand (every monomial of every path must be covered)
    for k in d:
        if len(k) == 1 and k[0][0] == "q":
            paths = exp.paths_of(k[0][1])
            if not paths:
                continue
            d2 = list(d)
            d2.remove(k)
            if all(all(covered(exp, d2 + list(mu), m, depth + 1) for mu in pi) for pi in paths):
                return True
    return False


def _disc_names(p, fn, conds):
    """[(name, value)] for `match opt { Some / None }` decisions: name = the parameter, or the accessor whose result is matched"""
    out = []
    for c in conds:
        if not (isinstance(c, tuple) and len(c) == 2 and isinstance(c[0], tuple) and c[0] and c[0][0] == "disc"):
            continue
        key, val = c[0][1], c[1]
        try:
            atoms = [a for mono, k in key for a in mono]
        except (TypeError, ValueError):
            continue
        if len(atoms) != 1:
            continue
        a = atoms[0]
        nm = None
        if a[0] == "p":
            nm = str(a[2][-1]) if a[2] else fn.param_names().get(a[1])
        elif a[0] == "call" and p.fns.get(a[1]) is not None:
            g2 = p.fns[a[1]]
            nm = (g2.callee_def(g2.blocks[a[2]]["t"]) or {}).get("n")
        elif a[0] == "f":
            nm = a[1]
        if nm:
            out.append((nm, val))
    return out


def option_misaligned(p, f, comp, oconds, cconds):
    """the operation decides on an optional operand (`if let Some(ks) = ks_glwe`), the companion on the accessor of the same name of its infos (`infos.ks_glwe_infos()`): a
    companion path for the absent operand does not have to pay for an operation path on which it is present (size queries are evaluated on infos describing the operands)"""
    for on, ov in _disc_names(p, f, oconds):
        for cn, cv in _disc_names(p, comp, cconds):
            if isinstance(ov, int) and isinstance(cv, int) and ov != cv and (cn.startswith(on) or on.startswith(cn)):
                return True
    return False


_SUPPLY_KINDS = {}


def pair_verdict(p, f, comp, corr, how, pairs, exp):
    """returns (verdict, detail): verdict in covered | uncovered | undecided"""
    g = CFG(f)
    paths = sc.returning_paths(f, g, cap=int(os.environ.get("PZ_SC1_PATHS", "96")))
    if paths is None:
        return "undecided", "too many paths"
    sup = supply_of(p, comp, corr)
    if sup is None:
        return "undecided", "companion not evaluable"
    _SUPPLY_KINDS[f.uid] = {kinds_str([tk]) for _, smonos, _ in sup for sm in smonos for tk in sc.mono_kinds(sm)}
    unknown = 0
    n_ok = 0
    misses = []
    for path in paths:
        flow = sc.PathFlow(f, path, transparent=SCR_T)
        sym = sc.SizeSym(f, sc.PathFlow(f, path), p)
        init = {}
        for l in range(1, f.argc + 1):
            if is_scratch_ty(f.local_ty(l)["s"]):
                init[(l, ())] = Poly.const(0)
        dm = demand_of_path(p, f, g, path, sym, flow, pairs, init)
        oconds = [sc.norm_cond(k, t) for k, t in sc.path_conditions(f, g, path, sym)]
        unknown += len(dm.unknown)
        for cconds, smonos, spol in sup:
            if any(sc.contradict(a, b) for a in oconds for b in cconds):
                continue
            if option_misaligned(p, f, comp, oconds, cconds):
                continue
            sk = [sc.mono_kinds(sm) for sm in smonos]
            for cand in dm.cands:
                pol, line, what = cand[0], cand[1], cand[2]
                extras = cand[3] if len(cand) > 3 else None
                try:
                    dmonos = sc.dnf(pol)
                except OverflowError:
                    unknown += 1
                    continue
                for dmn in dmonos:
                    dk0 = sc.mono_kinds(dmn)
                    for dk in ([dk0 + list(e) for e in extras] if extras else [dk0]):
                        if not dk:
                            continue
                        if any(covered(exp, dk, m) for m in sk):
                            n_ok += 1
                        else:
                            misses.append((dk, line, what))
    if misses:
        return "uncovered", misses
    if unknown:
        return "undecided", "%d call(s) receive scratch without a known companion" % unknown
    return "covered", n_ok


def kinds_str(dk):
    return "+".join(".".join(x[1] for x in tk if len(x) > 1 and isinstance(x[1], str)) or "sum" for tk in dk)


def freeze_table(p):
    pairs = companions(p)
    exp = Expander(p, pairs)
    out = {}
    for uid in sorted(pairs):
        f, comp, corr, how = pairs[uid]
        v, det = pair_verdict(p, f, comp, corr, how, pairs, exp)
        out[uid] = {"companion": comp.uid, "verdict": v, "detail": det if isinstance(det, (str, int)) else sorted({kinds_str(dk) for dk, _, _ in det})}
    return out


def sc1(p, res):
    import json
    import os
    table_path = os.path.join(os.path.dirname(os.path.dirname(os.path.abspath(__file__))), "rules", "sc1_pairs.json")
    frozen = json.load(open(table_path))
    pairs = companions(p)
    exp = Expander(p, pairs)
    res.extra["pairs_found"] = len(pairs)
    n_mirror = 0
    for uid, ent in sorted(frozen.items()):
        if ent["verdict"] != "covered":
            continue
        n_mirror += 1
        if uid not in pairs and p.cfg.startswith("ref") and p.fn(uid) is None and ("{impl#2}" in uid or "{impl#3}" in uid):
            continue  # impl for an AVX backend: exists only with feature enable-avx (checked in the avx configurations)
        if uid not in pairs:
            res.bad("SC-1", uid, "anchor-lost:pair", "operation %s (mirror-form pair on the reference tree) no longer pairs with a companion size query" % uid)
            continue
        f, comp, corr, how = pairs[uid]
        v, det = pair_verdict(p, f, comp, corr, how, pairs, exp)
        if v == "covered":
            res.ok("SC-1", {"op": f.pretty, "companion": comp.name, "pairing": how, "demand_monomials_covered": det} if n_mirror % 15 == 1 else None)
        elif v == "uncovered":
            seen = set()
            for dk, line, what in det:
                ks = kinds_str(dk)
                if ks in seen:
                    continue
                seen.add(ks)
                res.bad("SC-1", f.pretty, "under-declared:%s" % ks,
                        "%s may hold %s of scratch at once (at `%s`), but no sum of its companion %s contains these terms - the companion no longer mirrors the nesting of takes of its operation"
                        % (f.pretty, ks, what, comp.name), site=f.where(line))
        else:
            res.undec("SC-1", "%s: %s" % (f.pretty, det))
    # pairs outside mirror form whose uncovered demand has been confirmed insufficient (failing input on record): the monomial is reported while it stays uncovered
    cpath = os.path.join(os.path.dirname(table_path), "sc1_confirmed.json")
    confirmed = json.load(open(cpath)) if os.path.exists(cpath) else {}
    for uid, ent in sorted(confirmed.items()):
        if uid not in pairs or (uid in frozen and frozen[uid]["verdict"] == "covered"):
            continue
        f, comp, corr, how = pairs[uid]
        v, det = pair_verdict(p, f, comp, corr, how, pairs, exp)
        if v != "uncovered":
            res.ok("SC-1", {"op": f.pretty, "companion": comp.name, "formerly_under_declared": ent["monomials"]})
            continue
        seen = set()
        for dk, line, what in det:
            ks = kinds_str(dk)
            if ks in seen or ks not in ent["monomials"]:
                continue
            seen.add(ks)
            res.bad("SC-1", f.pretty, "under-declared:%s" % ks,
                    "%s may hold %s of scratch at once (at `%s`), and no sum of its companion %s contains these terms; confirmed insufficient: %s"
                    % (f.pretty, ks, what, comp.name, ent["evidence"]), site=f.where(line))
        if not seen:
            res.ok("SC-1", {"op": f.pretty, "companion": comp.name, "formerly_under_declared": ent["monomials"]})
    others = [u for u in pairs if u not in frozen or frozen[u]["verdict"] != "covered"]
    res.extra["pairs_not_in_mirror_form"] = len(others)
    shown = 0
    for u in others:
        f, comp, corr, how = pairs[u]
        # a pair outside mirror form can still lose ground: a set of temporaries alive together that was paid for on the reference tree, whose every kind the companion still
        # pays for somewhere, but no longer in one sum (`a.max(b)` where the operation holds a and b at once) is an under-declaration, not arithmetic
        ent = frozen.get(u)
        if ent is not None and ent["verdict"] == "uncovered" and isinstance(ent.get("detail"), list):
            v, det = pair_verdict(p, f, comp, corr, how, pairs, exp)
            if v == "uncovered":
                known_unc = set(ent["detail"])
                sk = _SUPPLY_KINDS.get(f.uid, set())
                seen = set()
                for dk, line, what in det:
                    ks = kinds_str(dk)
                    if ks in known_unc or ks in seen:
                        continue
                    seen.add(ks)
                    if all(kinds_str([tk]) in sk for tk in dk):
                        n_mirror += 1
                        res.bad("SC-1", f.pretty, "sum-turned-max:%s" % ks,
                                "%s may hold %s of scratch at once (at `%s`); its companion %s pays for each of these kinds, and on the reference tree paid for them together, but no sum of "
                                "it contains them any more (a `max` where the operation needs a sum)" % (f.pretty, ks, what, comp.name), site=f.where(line))
        if shown < 60:
            shown += 1
            res.undec("SC-1", "%s / %s: companion pays through other queries than the operation's own takes (not in mirror form; sufficiency is an arithmetic fact)" % (f.pretty, comp.name))
    res.floor("SC-1", "mirror-form pairs", n_mirror, 60)


def run(res, tier):
    res.level = "other"
    res.explanation = ("Structural scratch accounting on MIR. SC-1: for every (operation, companion) pair found through the entry guards or by name whose companion mirrors the operation's "
                       "nesting of takes on the reference tree, the scratch chain of the operation is simulated on every path (takes accumulate, consumers need their own declared companion, "
                       "closures followed) and every demand monomial must be contained, as a multiset of size-atom kinds and after expanding nested queries, in a monomial of the companion's "
                       "max-plus expression on every compatible path. Pairs whose companion pays through other queries are listed as undecided (sufficiency there is arithmetic).")
    res.rule("SC-1", "mirror-form pairs: every demand monomial (takes before a use + declared need of the use) is covered by a supply monomial of the companion (size-atom kinds, nested queries expanded)")
    res.rule("SC-2", "an entry guard `scratch.available() >= X_tmp_bytes(..)` names the operation's own companion (or its family's shared query)")
    res.rule("SC-3", "on every path the first effective use of an object taken from scratch initialises it (zero/fill/store/encode/sampling, or output operand of an overwrite-type operation); never a read or accumulate operand")
    res.rule("SC-4", "a take whose size cannot be a 64-byte multiple (literal ring degree) is not followed by another consumer of the same scratch")
    res.rule("SC-9", "the number of take_<kind>_slice vectors alive together on a path is at most the integer coefficient of the companion's `scalar * bytes_of(kind)` terms")
    res.rule("SC-8", "mirror-form pairs: every operand whose limb count / precision / length the size of a taken temporary depends on also occurs in the companion's term(s) of the same kind (dependence, not arithmetic)")
    res.rule("SC-10", "a guarded operation called on what is left after a take of its caller does not demand the caller's own companion query again")
    res.rule("SC-11", "column-count arguments (declared names containing `col` / `rank`) of size queries, bytes_of and takes are not integer literals >= 2")
    res.rule("SC-12", "an operation dispatching between scratch-consuming routines on quantities its query also receives is mirrored by a query deciding on the same quantities at the top level")
    res.rule("SC-14", "a size query with a `threads` parameter multiplies its per-thread query by that parameter itself")
    res.rule("SC-15", "a scratch view `take_T(infos)` has the dimensions (ring degree, rows, columns) that `T::alloc` gives the owned object of the same layout")
    res.rule("SC-13", "a per-thread length handed to split_mut contains no bare LWE-sized term (not a multiple of the scratch alignment)")
    res.rule("SC-7", "at a size-query call site, a usize argument that the caller knows under the name of one of the query's declared parameters (trait declaration names; the caller's own parameters take the names of its trait declaration) sits in that parameter's position")
    res.rule("SC-6", "a temporary created from a layout literal and handed to a nested operation is declared, in the companion, by the nested query evaluated on a literal with equal fields under the parameter correspondence")
    res.rule("SC-5", "only the scratch carver builds scratch views / typed slices from raw bytes")
    res.assumptions = ["each callee is verified against its own declaration separately (modular)", "size queries are monotone in their arguments", "argument-level arithmetic is not decided"]
    cfgs = ["avx-dev"] if tier == "quick" else ["avx-dev", "ref-dev"]
    for cfg in cfgs:
        p = facts.load(cfg)
        res.configs.append(p.build_info)
        sc1(p, res)
        pairs = companions(p)
        n2 = sc2(p, res, pairs)
        res.floor("SC-2", "guarded operations", n2, 80)
        n3 = sc3(p, res)
        res.floor("SC-3", "take sites", n3, 150)
        n4 = sc4(p, res, pairs)
        res.floor("SC-4", "literal-degree takes", n4, 1)
        n5 = sc5(p, res)
        res.floor("SC-5", "raw carving sites", n5, 5)
        n8 = sc8(p, res, pairs)
        res.floor("SC-8", "direct takes of mirror-form pairs with a same-kind companion term", n8, 40)
        n9 = sc9(p, res, pairs)
        res.floor("SC-9", "operations taking vectors of temporaries", n9, 2)
        n10 = sc10(p, res, pairs)
        res.floor("SC-10", "guarded operations called on the remainder of a guarded operation's scratch", n10, 10)
        n11 = sc11(p, res)
        res.floor("SC-11", "column-count arguments of size queries / takes", n11, 150)
        n12 = sc12(p, res, pairs)
        res.floor("SC-12", "dispatching operations", n12, 1)
        n14 = sc14(p, res)
        res.floor("SC-14", "size queries with a threads parameter", n14, 1)
        n15 = sc15(p, res)
        res.floor("SC-15", "scratch views with an allocating sibling", n15, 7)
        n13 = sc13(p, res)
        res.floor("SC-13", "split_mut sites", n13, 2)
        n7 = sc7(p, res)
        res.floor("SC-7", "size-query call sites with role-named scalar arguments", n7, 20)
        n6 = sc6(p, res, pairs)
        res.floor("SC-6", "conversion temporaries handed to nested operations", n6, 1)
        res.fn_count += res.extra.get("pairs_found", 0)
    if tier == "thorough":
        from . import witness
        witness.check(res, ["W2ScratchCarving", "W4NoDanglingTemporaries"])


# ------------------------------------------------------------------ SC-10
def sc10(p, res, pairs):
    """self-referential declaration: an operation whose entry guard demands Q(..) bytes, which then takes a temporary and hands the *remaining* scratch to another
    operation whose entry guard demands the same query Q evaluated on that temporary, can never run on Q(..) bytes: the callee's demand plus the temporary exceeds Q
    whenever Q is monotone in the operand sizes (the temporary is at least as large as the operands it replaces)"""
    guard_of = {}
    for uid, (f, comp, corr, how) in pairs.items():
        if how == "guard":
            guard_of[f.uid] = comp
    n = 0
    for uid in sorted(pairs):
        f, comp, corr, how = pairs[uid]
        if how != "guard":
            continue
        flow = None
        for bi, t in f.calls():
            tg = [u for u in p.targets(f, t) if u in guard_of and u != f.uid]
            if not tg:
                continue
            if flow is None:
                flow = Flow(f, transparent=SCR_T)
            # the scratch handed over is what is left after a take of this operation
            rem = None
            for a in t["a"]:
                if a[0] in ("c", "m") and "Scratch<" in f.local_ty(a[1][0])["s"]:
                    for r in flow.op_roots(a):
                        if r[0] == "call":
                            nm = (f.callee_def(f.blocks[r[1]]["t"]) or {}).get("n", "")
                            if nm.startswith("take_"):
                                rem = nm
            if rem is None:
                continue
            n += 1
            same = [u for u in tg if guard_of[u].uid == comp.uid or guard_of[u].name.replace("_default", "") == comp.name.replace("_default", "")]
            if same:
                g = p.fns[same[0]]
                res.bad("SC-10", f.pretty, "nested-guard-same-query:%s" % g.name,
                        "%s guards its entry with %s, takes a temporary (%s) and passes the remainder to %s, whose entry guard demands %s again (on the temporary): the declared size "
                        "can never satisfy the nested guard" % (f.pretty, comp.name, rem, g.name, guard_of[same[0]].name), site=f.where(t["l"]))
            else:
                res.ok("SC-10", {"op": f.pretty, "callee": p.fns[tg[0]].name, "callee_guard": guard_of[tg[0]].name} if n % 10 == 1 else None)
    return n


# ------------------------------------------------------------------ SC-13
UNALIGNED_KINDS = ("lwe", "lwe_plaintext")


def sc13(p, res):
    """per-thread windows: `scratch.split_mut(threads, len)` carves `threads` windows of `len` bytes and re-aligns after each one, so a `len` that is not a multiple of the scratch
    alignment loses up to 63 bytes per thread. Sizes of ring objects are multiples of 64 for n >= 8; LWE objects (n_lwe + 1 coefficients) are not - a per-thread size must not contain
    a bare LWE term (it has to be rounded with next_multiple_of / align_up)"""
    n = 0
    for f in sorted(p.lib_fns(), key=lambda x: x.uid):
        if not f.uid.startswith(("poulpy_core", "poulpy_bin_fhe", "poulpy_ckks")):
            continue
        sites = [(bi, t) for bi, t in f.calls() if (f.callee_def(t) or {}).get("n") == "split_mut" and len(t["a"]) == 3]
        if not sites:
            continue
        flow = Flow(f, transparent=SCR_T)
        for bi, t in sites:
            n += 1
            # the query the per-thread length comes from
            q = None
            for r in flow.op_roots(t["a"][2]):
                if r[0] == "call":
                    tq = f.blocks[r[1]]["t"]
                    if (f.callee_def(tq) or {}).get("n", "").endswith("_tmp_bytes"):
                        tg = [u for u in p.targets(f, tq) if p.fn(u) is not None and p.fn(u).blocks]
                        # follow forwarders (delegate -> default)
                        seen = set()
                        while tg and tg[0] not in seen:
                            seen.add(tg[0])
                            g2 = p.fn(tg[0])
                            cs = [(b2, t2) for b2, t2 in g2.calls()]
                            if len(cs) == 1 and (g2.callee_def(cs[0][1]) or {}).get("n", "").endswith(("_tmp_bytes", "_tmp_bytes_default")):
                                nx = [u for u in p.targets(g2, cs[0][1]) if p.fn(u) is not None and p.fn(u).blocks]
                                if nx:
                                    tg = nx
                                    continue
                            break
                        q = p.fn(tg[0]) if tg else None
            if q is None:
                res.undec("SC-13", "%s: per-thread length of split_mut does not come from a size query" % f.pretty)
                continue
            sup = supply_of(p, q, {})
            if sup is None:
                res.undec("SC-13", "%s: %s not evaluable" % (f.pretty, q.name))
                continue
            bare = set()
            for conds, monos, pol in sup:
                for m in monos:
                    for term in m:
                        for a in term:
                            if isinstance(a, tuple) and a and a[0] == "sz" and a[1] in UNALIGNED_KINDS:
                                bare.add(a[1])
            if bare:
                res.bad("SC-13", f.pretty, "unaligned-per-thread-size:%s:%s" % (q.name, ",".join(sorted(bare))),
                        "%s hands split_mut a per-thread length from %s, which adds the raw size of %s (not a multiple of 64): each window is re-aligned, so `threads * len` bytes "
                        "are not enough for two or more threads" % (f.pretty, q.name, "/".join(sorted(bare))), site=f.where(t["l"]))
            else:
                res.ok("SC-13", {"op": f.pretty, "per_thread_query": q.name})
    return n


# ------------------------------------------------------------------ SC-14
def sc15(p, res):
    """take / alloc agreement: `ScratchTakeCore::take_T(infos)` carves a view whose dimensions other than the limb count (coefficients per polynomial, rows, columns) are the
    expressions `T::alloc(n, base2k, k, ..)` hands to the allocator of the same storage type, read through the accessors of `infos` (`infos.n()` for the parameter `n`, ...).
    A view with other dimensions than the owned object of the same layout cannot hold the same ciphertext (an LWE view of n instead of n + 1 coefficients, a matrix with fewer rows)."""
    import re
    n = 0
    allocs = {}
    for f in p.lib_fns():
        if f.kind != "Closure" and f.blocks and f.name == "alloc" and f.uid.startswith("poulpy_core::layouts::") and "compressed" not in f.uid and "prepared" not in f.uid:
            m = re.search(r"::(\w+)::<", f.pretty) or re.search(r"::(\w+)::alloc$", f.pretty)
            sym = Sym(f, Flow(f))
            pn = f.param_names()
            for bi, t in f.calls():
                d = f.callee_def(t) or {}
                if d.get("n") == "alloc" and "poulpy_hal" in d.get("p", ""):
                    dims = []
                    for a in t["a"][:-1]:
                        txt = repr(sym.operand(a))
                        txt = re.sub(r"arg(\d+)(\.0)?", lambda mm: pn.get(int(mm.group(1)), "?"), txt)
                        dims.append(txt)
                    if m:
                        allocs[m.group(1)] = (f, dims, (d.get("p", "").split("::")[-3] if "::" in d.get("p", "") else ""))
    def snake(x):
        return re.sub(r"(?<=[a-z0-9])(?=[A-Z])", "_", re.sub(r"([A-Z]+)([A-Z][a-z])", r"\1_\2", x)).lower()
    by_take = {"take_" + snake(k): v for k, v in allocs.items()}
    for f in sorted(p.lib_fns(), key=lambda x: x.uid):
        if not (f.uid.startswith("poulpy_core::scratch::") and f.name in by_take and f.kind != "Closure" and f.blocks):
            continue
        sym = Sym(f, Flow(f))
        inner = [(bi, t) for bi, t in f.calls() if (f.callee_def(t) or {}).get("n") in ("take_vec_znx", "take_mat_znx", "take_scalar_znx")]
        if len(inner) != 1:
            continue
        n += 1
        af, adims, _ = by_take[f.name]
        tdims = []
        for a in inner[0][1]["a"][1:-1] if (f.callee_def(inner[0][1]) or {}).get("n") != "take_scalar_znx" else inner[0][1]["a"][1:]:
            txt = repr(sym.operand(a))
            txt = re.sub(r"(\w+)\(arg\d+\)", r"\1", txt)
            pn = f.param_names()
            txt = re.sub(r"arg(\d+)", lambda mm: pn.get(int(mm.group(1)), "?"), txt)
            tdims.append(txt)
        if (f.callee_def(inner[0][1]) or {}).get("n") == "take_scalar_znx":
            adims_c = adims + []  # ScalarZnx::alloc(n, cols) has no limb argument: all of its arguments are dimensions
            af_call = [t for bi, t in af.calls() if (af.callee_def(t) or {}).get("n") == "alloc" and "poulpy_hal" in (af.callee_def(t) or {}).get("p", "")][0]
            asym = Sym(af, Flow(af))
            apn = af.param_names()
            adims_c = [re.sub(r"arg(\d+)(\.0)?", lambda mm: apn.get(int(mm.group(1)), "?"), repr(asym.operand(a))) for a in af_call["a"]]
        else:
            adims_c = adims
        norm = lambda xs: [re.sub(r"call@bb\d+", "call", x) for x in xs]
        if norm(tdims) == norm(adims_c):
            res.ok("SC-15", {"take": f.pretty, "dims": tdims})
        else:
            res.bad("SC-15", f.pretty, "take-alloc-dimensions",
                    "%s carves a view with dimensions (%s) where %s allocates (%s) for the same layout: the scratch view is not the object its layout describes"
                    % (f.pretty, ", ".join(tdims), af.pretty, ", ".join(adims_c)), site=f.where())
    return n


def sc14(p, res):
    """multi-threaded size queries: the operation carves `threads` windows (split_mut(threads, len), preceded by an assertion on `threads * len`) whatever the number of work
    items, so a size query with a `threads` parameter has to multiply its per-thread query by that very parameter - not by a count derived from it"""
    n = 0

    def products(poly, out, depth=0):
        for mono, c in poly.t.items():
            qs = [a for a in mono if a[0] == "f" and isinstance(a[1], str) and a[1].endswith("_tmp_bytes")]
            if qs:
                out.append((qs, [a for a in mono if a not in qs]))
            for a in mono:
                if a[0] == "f" and a[1] in ("max", "min") and depth < 4:
                    for k in a[2]:
                        products(Poly(dict(k)), out, depth + 1)
    for f in sorted(p.lib_fns(), key=lambda x: x.uid):
        if not f.name.endswith("_tmp_bytes") or not f.blocks or not f.uid.startswith(("poulpy_core", "poulpy_bin_fhe", "poulpy_ckks")):
            continue
        pn = {v: k for k, v in f.param_names().items()}
        if "threads" not in pn:
            continue
        sym = Sym(f, Flow(f))
        ret = sym.local(0)
        prods = []
        products(ret, prods)
        at = list(ret.atoms())
        if len(ret.t) == 1 and len(at) == 1 and at[0][0] == "f" and at[0][1].endswith("_tmp_bytes") and not [x for x in prods if x[1]]:
            continue  # a forwarder to another query that receives `threads`
        n += 1
        th = ("p", pn["threads"], ())
        counted = [x for x in prods if x[1]]
        good = [x for x in counted if x[1] == [th]]
        other = [x for x in counted if x[1] != [th] and not all(a[0] == "const" for a in x[1])]
        if other:
            res.bad("SC-14", f.pretty, "threads-multiplier:%s" % other[0][0][0][1],
                    "%s multiplies the per-thread query %s by `%s` instead of its `threads` parameter: the operation carves (and asserts) `threads` windows whatever the number of work "
                    "items" % (f.pretty, other[0][0][0][1], " * ".join(fmt_poly_atom(a) for a in other[0][1])), site=f.where())
        elif not good:
            res.bad("SC-14", f.pretty, "threads-multiplier:absent", "%s receives `threads` but multiplies no size query by it" % f.pretty, site=f.where())
        else:
            res.ok("SC-14", {"query": f.pretty, "per_thread": good[0][0][0][1]})
    return n


def fmt_poly_atom(a):
    from .sym import fmt_atom
    return fmt_atom(a)


# ------------------------------------------------------------------ SC-12
def _decision_chain(f):
    """top-level dispatch decisions of a function: comparisons `name <op> const` (name = parameter or accessor) that are reached from the entry along paths on which every earlier
    such comparison was false (an if / else-if chain, or the operands of `||`)"""
    g = CFG(f)
    sym = Sym(f, Flow(f))
    dec = {}
    for bi in g.reach:
        blk = f.blocks[bi]
        t = blk["t"]
        if not t or t["k"] != "Switch":
            continue
        for st in blk["s"]:
            if st[0] == "A" and st[2]["k"] == "Bin" and st[2]["op"] in ("Gt", "Ge", "Lt", "Le", "Eq", "Ne") and t["o"][0] in ("c", "m") and t["o"][1] == st[1]:
                x, y = [sym.operand(o) for o in st[2]["o"]]
                for u, v in ((x, y), (y, x)):
                    if v.is_const():
                        at = list(u.atoms())
                        if len(at) == 1 and len(u.t) == 1:
                            a = at[0]
                            nm = a[1] if a[0] == "f" else (f.param_names().get(a[1]) if a[0] == "p" and not a[2] else None)
                            if a[0] == "call" and len(a) == 3 and a[1] == f.uid:
                                nm = (f.callee_def(f.blocks[a[2]]["t"]) or {}).get("n")
                            if nm:
                                dec[bi] = nm
    out = []
    seen = set()
    st = [0]
    while st:
        b = st.pop()
        if b in seen or b not in g.reach:
            continue
        seen.add(b)
        if b in dec:
            out.append(dec[b])
            t = f.blocks[b]["t"]
            st.extend(tb for v, tb in t["ts"] if v == 0)
            if not any(v == 0 for v, tb in t["ts"]):
                st.append(t["else"])
        else:
            st.extend(g.succ[b])
    return out


def sc12(p, res, pairs):
    """dispatching operations: an operation that chooses between several scratch-consuming routines by comparing quantities the size query also receives must be mirrored by a query
    that decides on the same quantities at the top level (a query that only looks at one of them sizes the other routines' callers for the wrong routine)"""
    n = 0
    for uid in sorted(pairs):
        f, comp, corr, how = pairs[uid]
        helpers = set()
        for bi, t in f.calls():
            d = f.callee_def(t) or {}
            if "tr" in d or not d.get("u", "").startswith("poulpy_") or d.get("n", "").startswith("take_"):
                continue
            h = p.fn(d["u"])
            if h is None or not h.blocks or h.impl_uid or h.trait_item:
                continue
            if any(a[0] in ("c", "m") and "Scratch<" in f.local_ty(a[1][0])["s"] for a in t["a"]):
                helpers.add(h.name)
        if len(helpers) < 2:
            continue
        n += 1
        qparams = set(comp.param_names().values())
        op_dec = [x for x in _decision_chain(f) if x in qparams]
        q_dec = _decision_chain(comp)
        missing = [x for x in op_dec if x not in q_dec]
        if missing:
            res.bad("SC-12", f.pretty, "dispatch-not-mirrored:%s" % ",".join(missing),
                    "%s chooses among %s by testing %s at the top level; its companion %s receives %s but decides on %s only: with %s deciding for a routine the query sized another one"
                    % (f.pretty, sorted(helpers), op_dec, comp.name, missing, q_dec, missing[0]), site=f.where())
        else:
            res.ok("SC-12", {"op": f.pretty, "decisions": op_dec, "query_decisions": q_dec})
    return n


# ------------------------------------------------------------------ SC-11
def sc11(p, res):
    """column counts handed to size queries, bytes_of and takes are never integer literals >= 2: such a literal is rank + 1 for one fixed rank"""
    n = 0
    for f in sorted(p.lib_fns(), key=lambda x: x.uid):
        if not f.uid.startswith(("poulpy_core", "poulpy_bin_fhe", "poulpy_ckks")):
            continue
        sym = None
        for bi, t in f.calls():
            d = f.callee_def(t) or {}
            nm = d.get("n", "")
            if not (nm.endswith("_tmp_bytes") or nm.startswith("bytes_of") or nm.startswith("take_")):
                continue
            names = p.decl_args.get(d.get("u"))
            if not names:
                continue
            if sym is None:
                sym = Sym(f, Flow(f))
            for i, a in enumerate(t["a"]):
                if i >= len(names) or not ("col" in names[i] or "rank" in names[i]):
                    continue
                n += 1
                cv = sym.operand(a).const_value() if sym.operand(a).is_const() else None
                if cv is not None and cv >= 2:
                    res.bad("SC-11", f.pretty, "literal-columns:%s:%s=%d" % (nm, names[i], cv),
                            "%s passes the literal %d as `%s` of %s: the size is right for rank %d only" % (f.pretty, cv, names[i], nm, cv - 1), site=f.where(t["l"]))
                else:
                    res.ok("SC-11")
    return n


# ------------------------------------------------------------------ SC-6
def c17_key_le(a, b):
    from .c17 import key_le
    return key_le(a, b)


def sc6(p, res, pairs):
    """conversion temporaries: where an operation hands a nested operation a temporary it took with a layout literal, the companion evaluates the nested
    operation's query on a literal with the same fields (under the parameter correspondence)"""
    from .sym import Sym
    n = 0
    T = SCR_T + ("to_ref", "to_mut")

    def literal(fn, flow, sym, op, depth=0):
        """('lit', {field: key}) | ('param', i) | None for an infos-like operand"""
        out = None
        rr = flow.op_roots(op)
        if len(rr) != 1:
            return None
        r = next(iter(rr))
        if r[0] == "param" and not r[2]:
            return ("param", r[1])
        if r[0] == "agg" and not r[3]:
            st = fn.blocks[r[1]]["s"][r[2]][2]
            if st.get("ak") != "Adt" or not st.get("fields"):
                return None
            return ("lit", {nm: sym.operand(o).key() for nm, o in zip(st["fields"], st["o"])})
        if r[0] == "call" and r[2][:1] == ("0",) and depth < 2:
            t = fn.blocks[r[1]]["t"]
            nm = (fn.callee_def(t) or {}).get("n", "")
            if nm.startswith("take_") and len(t["a"]) == 2:
                return literal(fn, flow, sym, t["a"][1], depth + 1)
        return None

    for uid in sorted(pairs):
        f, comp, corr, how = pairs[uid]
        flow = Flow(f, transparent=T)
        sym = Sym(f, flow)
        cflow = csym = None
        for bi, t in f.calls():
            tg = [x for x in p.targets(f, t) if x in pairs]
            if not tg:
                continue
            g, gq, gcorr, ghow = pairs[tg[0]]
            gqn = gq.name[: -len("_default")] if gq.name.endswith("_default") else gq.name
            for cl in range(2, gq.argc + 1):
                if cl not in gcorr or gcorr[cl] - 1 >= len(t["a"]):
                    continue
                d = literal(f, flow, sym, t["a"][gcorr[cl] - 1])
                if d is None or d[0] != "lit":
                    continue
                n += 1
                if cflow is None:
                    cflow = Flow(comp, transparent=T)
                    csym = Sym(comp, cflow)
                sites = []
                for cb, ct in comp.calls():
                    cn = (comp.callee_def(ct) or {}).get("n", "")
                    cn = cn[: -len("_default")] if cn.endswith("_default") else cn
                    if cn == gqn and cl - 1 < len(ct["a"]):
                        sites.append(literal(comp, cflow, csym, ct["a"][cl - 1]))
                if not sites:
                    res.undec("SC-6", "%s: companion %s does not call %s (pays otherwise)" % (f.pretty, comp.name, gqn))
                    continue
                if any(x is None for x in sites):
                    res.undec("SC-6", "%s: an argument of %s in %s is not a parameter or literal" % (f.pretty, gqn, comp.name))
                    continue
                want = d[1]
                ok = False
                why = []
                for x in sites:
                    if x[0] == "param":
                        # a parameter stands for the literal of its own accessors
                        pk = Poly.atom(("p", x[1], ())).key()
                        x = ("lit", {"n": None, "base2k": Poly.atom(("f", "base2k", (pk,))).key(), "k": Poly.atom(("f", "max_k", (pk,))).key(),
                                     "rank": Poly.atom(("f", "rank", (pk,))).key()})
                    if set(x[1]) != set(want):
                        continue
                    if any("'p', 10" in repr(rename_poly_key(x[1][k], corr)) for k in want if k != "n" and x[1][k] is not None):
                        why.append("?")
                        continue
                    bad_fields = []
                    for k in want:
                        if k == "n":
                            continue  # ring degree: asserted equal across operands at entry
                        have = rename_poly_key(x[1][k], corr)
                        if k == "k":
                            good = c17_key_le(want[k], have)
                        else:
                            good = want[k] == have
                        if not good:
                            bad_fields.append(k)
                    if not bad_fields:
                        ok = True
                    else:
                        why.append("/".join(bad_fields))
                pn = gq.param_names().get(cl, "#%d" % cl)
                if not ok and "?" in why:
                    res.undec("SC-6", "%s: companion %s takes fewer infos than the operation has operands (correspondence incomplete)" % (f.pretty, comp.name))
                    continue
                if ok:
                    res.ok("SC-6", {"op": f.pretty, "nested": g.name, "argument": pn, "fields": sorted(want)} if n % 5 == 1 else None)
                else:
                    res.bad("SC-6", f.pretty, "temp-layout-not-mirrored:%s:%s" % (gqn, pn),
                            "%s passes %s a temporary it creates with a layout literal as `%s`, but its companion %s never evaluates %s on a literal with the same fields "
                            "(fields not dominated: %s): the declared size is computed for a different shape than the one the nested operation receives"
                            % (f.pretty, g.name, pn, comp.name, gqn, "; ".join(sorted(set(why))) or "different field set"), site=f.where(t["l"]))
    return n


# ------------------------------------------------------------------ SC-7
def sc7(p, res):
    """size-query call sites: a scalar argument that the caller knows under the name of one of the query's declared parameters is passed in that parameter's position"""
    n = 0

    def strip(x):
        return x.lstrip("_") if isinstance(x, str) else x

    def decl_names(uid):
        """declared parameter names of a callable (trait declaration preferred), self included"""
        if uid in p.decl_args:
            return [strip(x) for x in p.decl_args[uid]]
        f = p.fn(uid)
        if f is None:
            return None
        if f.trait_item and f.trait_item in p.decl_args:
            return [strip(x) for x in p.decl_args[f.trait_item]]
        pn = f.param_names()
        return [strip(pn.get(i)) for i in range(1, f.argc + 1)]

    for f in sorted(p.lib_fns(), key=lambda x: x.uid):
        if f.kind == "Closure":
            continue
        own = decl_names(f.uid) or []
        flow = None
        for bi, t in f.calls():
            d = f.callee_def(t) or {}
            cn = d.get("n", "")
            if not (cn.endswith("_tmp_bytes") or cn.endswith("_tmp_bytes_default")):
                continue
            roles = decl_names(d.get("u")) or (decl_names(f.callee_res(t)) if f.callee_res(t) else None)
            if not roles or len(roles) != len(t["a"]):
                continue
            if flow is None:
                flow = Flow(f)
            beliefs = []
            for a in t["a"]:
                b = None
                if a[0] in ("c", "m") and len(a[1]) == 1 and f.local_ty(a[1][0])["s"] == "usize":
                    rr = flow.op_roots(a)
                    if len(rr) == 1:
                        r = next(iter(rr))
                        if r[0] == "param" and not r[2] and r[1] - 1 < len(own):
                            b = own[r[1] - 1]
                    if b is None:
                        # a named local (let binding) of the caller
                        l = a[1][0]
                        seen = set()
                        while l is not None and l not in seen:
                            seen.add(l)
                            nm = f.local_name(l)
                            if nm:
                                b = strip(nm)
                                break
                            ds = flow.defs.get(l, [])
                            if len(ds) == 1 and ds[0][0] == "stmt" and ds[0][4]["k"] == "Use" and ds[0][4]["o"][0][0] in ("c", "m") and len(ds[0][4]["o"][0][1]) == 1:
                                l = ds[0][4]["o"][0][1][0]
                            else:
                                l = None
                beliefs.append(b)
            if not any(b in roles for b in beliefs if b):
                continue
            n += 1
            bad = []
            for i, b in enumerate(beliefs):
                if b and b != roles[i] and b in roles:
                    j = roles.index(b)
                    if beliefs[j] != b:
                        bad.append((i, b, roles[i]))
            if bad:
                res.bad("SC-7", f.pretty, "argument-roles-crossed:%s" % cn,
                        "%s calls %s with `%s` in the position of parameter `%s` (declared order: %s): the query is evaluated for another shape than the one the caller means"
                        % (f.pretty, cn, bad[0][1], bad[0][2], ", ".join(str(r) for r in roles[1:])), site=f.where(t["l"]))
            else:
                res.ok("SC-7", {"fn": f.pretty, "query": cn, "args": beliefs[1:]} if n % 40 == 1 else None)
    return n


# ------------------------------------------------------------------ SC-8
MAGNITUDE = ("size", "max_k", "k", "len", "limbs", "max_size", "effective_k")


def magnitude_params(key, out, depth=0):
    """parameters whose limb count / precision / length a canonical polynomial key depends on"""
    if depth > 8:
        return
    for mono, c in key:
        for a in mono:
            magnitude_atom(a, out, depth)


def magnitude_atom(a, out, depth):
    if not isinstance(a, tuple) or len(a) < 3:
        return
    if a[0] == "f":
        args = a[2]
        if a[1] in MAGNITUDE and len(args) == 1:
            inner = args[0]
            for mono, c in inner:
                for b in mono:
                    if isinstance(b, tuple) and b[0] == "p":
                        out.add(b[1])
                    else:
                        magnitude_atom(b, out, depth + 1)
            return
        if a[1] == "min" and len(args) == 2:
            # min(x, y) is bounded by either argument: when the operands of one are among those of the other, the smaller set is the demand
            s1, s2 = set(), set()
            magnitude_params(args[0], s1, depth + 1)
            magnitude_params(args[1], s2, depth + 1)
            if s1 <= s2 or s2 <= s1:
                out |= s1 if s1 <= s2 else s2
            else:
                out.add(("alt", frozenset(s1), frozenset(s2)))  # resolved where the demand is compared with the supply
            return
        for k in args:
            if isinstance(k, tuple) and k and isinstance(k[0], tuple) and len(k[0]) == 2 and isinstance(k[0][0], tuple):
                magnitude_params(k, out, depth + 1)
    elif a[0] == "sz" or a[0] == "q":
        for k in a[2]:
            magnitude_params(k, out, depth + 1)


def _flat(ps):
    out = set()
    for x in ps:
        if isinstance(x, tuple) and x and x[0] == "alt":
            out |= _flat(x[1]) | _flat(x[2])
        else:
            out.add(x)
    return out


def _resolve_alts(ps, is_missing):
    """a demand `min(x, y)` is met when the operands of x or those of y are covered: keep the branch with fewer uncovered operands"""
    out = set()
    for x in ps:
        if isinstance(x, tuple) and x and x[0] == "alt":
            a, b = _resolve_alts(x[1], is_missing), _resolve_alts(x[2], is_missing)
            out |= a if sum(1 for y in a if is_missing(y)) <= sum(1 for y in b if is_missing(y)) else b
        else:
            out.add(x)
    return out


def params_in_key(key, out, depth=0):
    if depth > 10 or not isinstance(key, tuple):
        return
    for item in key:
        if isinstance(item, tuple):
            if len(item) == 3 and item[0] == "p" and isinstance(item[1], int):
                out.add(item[1])
            else:
                params_in_key(item, out, depth + 1)


def subst_key(key, mapping):
    """substitute ("p", i, ()) atoms by polynomials (mapping: i -> Poly), recursing into function arguments; returns a Poly"""
    out = Poly()
    for mono, c in key:
        term = Poly.const(c)
        for a in mono:
            term = term * subst_atom(a, mapping)
        out = out + term
    return out


def subst_atom(a, mapping):
    if isinstance(a, tuple) and len(a) == 3 and a[0] == "p" and a[2] == () and a[1] in mapping:
        return mapping[a[1]]
    if isinstance(a, tuple) and len(a) >= 3 and a[0] in ("f", "sz", "q") and isinstance(a[2], tuple):
        args = []
        for k in a[2]:
            if isinstance(k, tuple) and (not k or (isinstance(k[0], tuple) and len(k[0]) == 2 and isinstance(k[0][0], tuple))):
                args.append(subst_key(k, mapping).key())
            else:
                args.append(k)
        return Poly.atom((a[0], a[1], tuple(args)) + tuple(a[3:]))
    return Poly.atom(a)


def sc8(p, res, pairs):
    """mirror-form pairs: every operand whose limb count / precision the size of a temporary taken by the operation depends on also occurs in the
    companion's term(s) of the same kind"""
    import json
    import os
    from .sym import Sym
    table_path = os.path.join(os.path.dirname(os.path.dirname(os.path.abspath(__file__))), "rules", "sc1_pairs.json")
    frozen = json.load(open(table_path))
    T = SCR_T + ("to_ref", "to_mut")
    n = 0
    for uid in sorted(pairs):
        # every operation/companion pair, mirror form or not: a temporary whose size grows with an operand the companion's term of the same kind never looks at
        # is an under-declaration whatever the remaining terms are (ggsw_expand_row: dft sized by tsk.size(), declared from res.max_k)
        f, comp, corr, how = pairs[uid]
        flow = Flow(f, transparent=T)
        sym = Sym(f, flow)
        # companion parameter -> polynomial in the operation's frame
        mapping = {}
        if how == "guard":
            for bi, t in f.calls():
                if any(x == comp.uid for x in p.targets(f, t)) or (f.callee_def(t) or {}).get("n") in (comp.name, comp.name.replace("_default", "")):
                    for i, a in enumerate(t["a"]):
                        mapping[i + 1] = sym.operand(a)
                    break
        if not mapping:
            for cl, ol in corr.items():
                mapping[cl] = Poly.atom(("p", ol, ()))
        # demand: direct takes, and takes of free helper functions the operation hands its scratch to (one level, parameters substituted)
        dem = {}
        bodies = [(f, sym, flow)]
        for bi, t in f.calls():
            d = f.callee_def(t) or {}
            if d.get("n", "").startswith("take_") or not d.get("u", "").startswith("poulpy_"):
                continue
            # free helper functions, and internal routines (single resolved target) that have no size query of their own
            tg = [u for u in p.targets(f, t) if p.fn(u) is not None and p.fn(u).blocks]
            if len(tg) != 1 or tg[0] in pairs or tg[0] == f.uid:
                continue
            h = p.fn(tg[0])
            if h.kind == "Closure" or not h.uid.startswith(("poulpy_core", "poulpy_bin_fhe", "poulpy_ckks")):
                continue
            if not any("Scratch<" in f.local_ty(a[1][0])["s"] for a in t["a"] if a[0] in ("c", "m")):
                continue
            subst = {(i + 1, ()): sym.operand(a) for i, a in enumerate(t["a"])}
            hflow = Flow(h, transparent=T)
            bodies.append((h, Sym(h, hflow, param_subst=subst), hflow))
        for body, bsym, bflow in bodies:
          for bi, t in body.calls():
            d = body.callee_def(t) or {}
            nm = d.get("n", "")
            if not nm.startswith("take_") or nm == "take_slice":
                continue
            at = take_atom(body, d, t, lambda op, bsym=bsym: bsym.operand(op))
            if at is None:
                continue
            if body is not f:
                for a in at.atoms():
                    if a[0] == "sz":
                        ps = set()
                        magnitude_atom(a, ps, 0)
                        dem.setdefault(a[1], []).append((ps, f.blocks[0]["t"]["l"] if False else t["l"], nm + "@" + body.name))
                continue
            for a in at.atoms():
                if a[0] == "sz":
                    ps = set()
                    magnitude_atom(a, ps, 0)
                    # layout literal / infos argument: follow the aggregate
                    if len(t["a"]) == 2 and not ps:
                        for r in flow.op_roots(t["a"][1]):
                            if r[0] == "param":
                                ps.add(r[1])
                            elif r[0] == "agg":
                                st = f.blocks[r[1]]["s"][r[2]][2]
                                for o in st.get("o", []):
                                    magnitude_params(sym.operand(o).key(), ps)
                    dem.setdefault(a[1], []).append((ps, t["l"], nm))
        if not dem:
            continue
        # supply: same-kind terms of the companion
        cflow = Flow(comp, transparent=T)
        csym = Sym(comp, cflow)
        sup = {}
        wild = {}
        for bi, t in comp.calls():
            d = comp.callee_def(t) or {}
            at = sc.size_atom(comp, d, t, lambda op: csym.operand(op))
            if at is None or at[0] != "sz":
                continue
            ps = set()
            args = [a for a in t["a"] if not sc.is_receiver(comp, a)]
            for a in args:
                k = csym.operand(a).key()
                magnitude_params(subst_key(k, mapping).key(), ps)
                for r in cflow.op_roots(a):
                    if r[0] == "param" and r[1] in mapping:
                        # an infos object handed over whole
                        magnitude_params(Poly.atom(("f", "size", (mapping[r[1]].key(),))).key(), ps)
                    elif r[0] == "agg":
                        st = comp.blocks[r[1]]["s"][r[2]][2]
                        for o in st.get("o", []):
                            magnitude_params(subst_key(csym.operand(o).key(), mapping).key(), ps)
            sup.setdefault(at[1], set()).update(_flat(ps))
            # companion parameters without a counterpart in the operation: each may stand for any one operand
            for a in args:
                for r in cflow.op_roots(a):
                    if r[0] == "param" and r[1] not in mapping and r[1] > 1:
                        wild.setdefault(at[1], set()).add(r[1])
                    elif r[0] == "agg":
                        st = comp.blocks[r[1]]["s"][r[2]][2]
                        for o in st.get("o", []):
                            ks = set()
                            params_in_key(csym.operand(o).key(), ks)
                            for i in ks:
                                if i not in mapping and i > 1:
                                    wild.setdefault(at[1], set()).add(i)
                ks = set()
                params_in_key(csym.operand(a).key(), ks)
                for i in ks:
                    if i not in mapping and i > 1:
                        wild.setdefault(at[1], set()).add(i)
        pn = f.param_names()
        for kind, lst in sorted(dem.items()):
            if kind not in sup:
                continue  # paid through another kind of term: SC-1's business
            for ps, line, nm in lst:
                n += 1
                ps = _resolve_alts(ps, lambda x: x not in sup[kind] and 1 <= x <= f.argc)
                missing = sorted(x for x in ps if x not in sup[kind] and 1 <= x <= f.argc)
                if missing and len(missing) <= len(wild.get(kind, ())):
                    res.undec("SC-8", "%s: %s grows with %s; the companion's %s term depends on %d parameter(s) without a known counterpart" % (f.pretty, kind, [pn.get(x) for x in missing], kind, len(wild[kind])))
                    continue
                if missing:
                    res.bad("SC-8", f.pretty, "operand-not-in-declared-size:%s:%s" % (kind, ",".join(pn.get(x, "#%d" % x) for x in missing)),
                            "%s takes a %s whose size grows with operand(s) %s, but no %s term of its companion %s depends on their size: a long enough operand overruns the declared scratch"
                            % (f.pretty, kind, ", ".join("`%s`" % pn.get(x, "#%d" % x) for x in missing), kind, comp.name), site=f.where(line))
                else:
                    res.ok("SC-8", {"op": f.pretty, "take": nm, "kind": kind, "operands": sorted(pn.get(x, "#%d" % x) for x in ps)} if n % 20 == 1 else None)
    return n


# ------------------------------------------------------------------ SC-9
def sc9(p, res, pairs):
    """vector temporaries: the number of `take_<kind>_slice` vectors of one kind that are alive together on a path of the operation is at most the
    number of vectors of that kind the companion pays for (integer coefficient of its `scalar * bytes_of(kind)` terms)"""
    n = 0
    for uid in sorted(pairs):
        f, comp, corr, how = pairs[uid]
        slices = {}
        for bi, t in f.calls():
            nm = (f.callee_def(t) or {}).get("n", "")
            if nm.startswith("take_") and nm.endswith("_slice") and nm != "take_slice":
                slices[bi] = nm[len("take_"):-len("_slice")]
        if not slices:
            continue
        n += 1
        g = CFG(f)
        paths = sc.returning_paths(f, g, cap=4000)
        if not paths:
            res.undec("SC-9", "%s: too many paths" % f.pretty)
            continue
        dem = {}
        for path in paths:
            cnt = {}
            for b in path:
                if b in slices:
                    cnt[slices[b]] = cnt.get(slices[b], 0) + 1
            for k, c in cnt.items():
                dem[k] = max(dem.get(k, 0), c)
        sup = supply_of(p, comp, corr)
        if sup is None:
            res.undec("SC-9", "%s: companion %s not evaluable" % (f.pretty, comp.name))
            continue
        have = {}
        for conds, monos, pol in sup:
            for m in monos:
                cnt = {}
                for term, c in m.items():
                    kinds = [a for a in term if isinstance(a, tuple) and a[0] == "sz"]
                    scal = [a for a in term if not (isinstance(a, tuple) and a[0] in ("sz", "q"))]
                    if len(kinds) == 1 and scal and isinstance(c, int) and c > 0:
                        cnt[kinds[0][1]] = cnt.get(kinds[0][1], 0) + c
                for k, c in cnt.items():
                    have[k] = max(have.get(k, 0), c)
        for k, c in sorted(dem.items()):
            if k not in have:
                res.undec("SC-9", "%s: %d vector(s) of %s; the companion has no `scalar * bytes_of(%s)` term" % (f.pretty, c, k, k))
            elif c > have[k]:
                res.bad("SC-9", f.pretty, "vectors-under-declared:%s:%d>%d" % (k, c, have[k]),
                        "%s can hold %d `take_%s_slice` vectors at once on one path, but its companion %s pays for %d: with every vector in use an exactly sized scratch is too small"
                        % (f.pretty, c, k, comp.name, have[k]), site=f.where())
            else:
                res.ok("SC-9", {"op": f.pretty, "kind": k, "vectors_alive": c, "vectors_declared": have[k]})
    return n


# ------------------------------------------------------------------ SC-2
def sc2(p, res, pairs):
    n = 0
    for uid in sorted(pairs):
        f, comp, corr, how = pairs[uid]
        if how != "guard":
            continue
        n += 1
        cn = comp.name[: -len("_default")] if comp.name.endswith("_default") else comp.name
        stems = [f.name]
        for suf in ("_default", "_assign", "_into", "_multi_thread", "_unsafe", "_internal"):
            stems += [s[: -len(suf)] for s in list(stems) if s.endswith(suf)]
        names = {s + "_tmp_bytes" for s in stems}
        if cn in names:
            res.ok("SC-2", {"op": f.pretty, "guard_query": cn} if n % 20 == 1 else None)
        else:
            # shared queries: the operation belongs to a family that documents one common query (X_add / X_sub / X_negate share X_tmp_bytes)
            fam = [s for s in stems if cn[: -len("_tmp_bytes")] and s.startswith(cn[: -len("_tmp_bytes")])]
            def owner_trait(x):
                if x.in_trait:
                    return x.in_trait
                if x.trait_item:
                    return x.trait_item.rsplit("::", 1)[0]
                return x.impl_uid
            ta, tb = owner_trait(comp), owner_trait(f)
            same_owner = ta == tb or (ta and tb and ta.rsplit("::", 1)[-1].replace("Default", "") == tb.rsplit("::", 1)[-1].replace("Default", ""))
            if fam or same_owner:
                res.ok("SC-2", {"op": f.pretty, "guard_query": cn, "family": True} if n % 20 == 1 else None)
            else:
                res.bad("SC-2", f.pretty, "guard-names-other-query:%s" % cn,
                        "%s checks scratch.available() against %s, which is not its own companion (%s): an undersized scratch passes the entry guard and panics deeper"
                        % (f.pretty, cn, "/".join(sorted(names))), site=f.where())
    return n


# ------------------------------------------------------------------ SC-3
VIEW = ("to_mut", "to_ref", "data_mut", "data", "as_vec_znx_mut", "as_vec_znx", "deref", "deref_mut", "as_mut", "as_ref", "borrow", "borrow_mut", "into", "from",
        "as_scalar_znx_mut", "as_scalar_znx_ref", "key_mut", "index_mut", "index", "iter_mut", "iter", "get_mut", "as_mut_slice", "into_iter", "next", "unwrap", "at_mut", "at",
        "raw_mut", "raw", "split_at_mut", "clone")
NEUTRAL = {"set_size", "n", "size", "cols", "rank", "base2k", "max_k", "k", "dnum", "dsize", "rows", "cols_in", "cols_out", "rank_in", "rank_out", "max_size", "len",
           "glwe_layout", "ggsw_layout", "gglwe_layout", "lwe_layout", "set_base2k", "set_k", "dist", "log_n", "is_empty", "poly_count", "available", "meta", "log_budget",
           "log_delta", "effective_k", "set_meta", "set_log_delta", "set_log_budget", "from_inner", "as_ptr", "as_mut_ptr", "fmt", "to_string", "drop", "offset_unary",
           "offset_binary", "assert_failed", "bytes_of_from_infos", "input_degree", "output_degree", "limbs", "max_effective_k"}
INIT_NAMES = {"zero", "fill", "copy_from_slice", "clone_from_slice", "fill_with", "encode_coeff_i64", "encode_vec_i64", "encode_vec_i128", "encode_reim", "fill_ternary_hw",
              "fill_ternary_prob", "fill_binary_hw", "fill_binary_prob", "fill_binary_block", "fill_uniform", "zero_at", "copy_from", "write_bytes"}
ACCUMULATE_FRAG = ("_assign", "lsh_add_into", "rsh_add_into", "lsh_sub", "rsh_sub", "add_normal", "_add_scaled", "cmux_assign", "add_assign")


def classify_use(fn, t, argi, p=None, summaries=None, depth=0):
    """how a call uses the taken object passed as argument argi: init | read | neutral | accumulate | moved"""
    d = fn.callee_def(t) or {}
    n = d.get("n", "")
    a = t["a"][argi]
    ty = fn.local_ty(a[1][0]) if a[0] in ("c", "m") else {}
    mutable = ty.get("r", "").startswith("&mut") or ty.get("r", "").startswith("*mut")
    by_value = not ty.get("r")
    if n in NEUTRAL or n.endswith("_tmp_bytes") or n.startswith("bytes_of") or n.startswith("take_") or n in VIEW:
        return "neutral"
    if n in INIT_NAMES:
        return "init" if (mutable or argi == 0) else "read"
    # library callee with a body above the HAL: use its own summary for this parameter
    if p is not None and summaries is not None and (mutable or by_value) and d.get("u", "").startswith(("poulpy_core", "poulpy_bin_fhe", "poulpy_ckks")):
        verdicts = set()
        for x in p.targets(fn, t):
            cf = p.fn(x)
            if cf is None or not cf.uid.startswith(("poulpy_core", "poulpy_bin_fhe", "poulpy_ckks")):
                continue
            if argi + 1 > cf.argc:
                continue
            verdicts.add(param_summary(p, cf, argi + 1, summaries, depth + 1))
        verdicts.discard(None)
        if verdicts:
            if "needs-init" in verdicts:
                return "needs-init"
            if verdicts == {"inits"}:
                return "init"
            if verdicts <= {"inits", "unused"}:
                return "init" if "inits" in verdicts else "neutral"
    if by_value:
        return "moved"
    if not mutable:
        if p is not None and summaries is not None and d.get("u", "").startswith(("poulpy_core", "poulpy_bin_fhe", "poulpy_ckks")):
            vs = set()
            for x in p.targets(fn, t):
                cf = p.fn(x)
                if cf is not None and cf.uid.startswith(("poulpy_core", "poulpy_bin_fhe", "poulpy_ckks")) and argi + 1 <= cf.argc:
                    vs.add(param_summary(p, cf, argi + 1, summaries, depth + 1))
            if vs and vs <= {"unused"}:
                return "neutral"
        return "read"
    first_mut = None
    for i, x in enumerate(t["a"]):
        if x[0] in ("c", "m"):
            tx = fn.local_ty(x[1][0])
            if tx.get("r", "").startswith("&mut") and "Scratch" not in tx["s"] and "Source" not in tx["s"] and "Module" not in tx["s"]:
                first_mut = i
                break
    if first_mut != argi:
        run = []
        for i, x in enumerate(t["a"]):
            if i < (first_mut or 0):
                continue
            tx = fn.local_ty(x[1][0]) if x[0] in ("c", "m") else {}
            if tx.get("r", "").startswith("&mut") and "Scratch" not in tx.get("s", ""):
                run.append(i)
            else:
                break
        if argi not in run:
            return "read"
    if any(fr in n for fr in ACCUMULATE_FRAG):
        return "accumulate"
    return "init"


def iteration_feasible(f, g, path):
    """False when, inside a `for v in lo..hi` loop, the first traversal of the body takes the `v != lo` arm of a comparison of the loop variable with
    the range start, or a later traversal takes the `v == lo` arm."""
    loops = g.loops()
    if not loops:
        return True
    from . import wr
    sym = None
    flow = None
    for L in loops:
        h = L["header"]
        occ = [i for i, b in enumerate(path) if b == h]
        if not occ:
            continue
        # loop variable and range start
        nx = None
        for b in sorted(L["body"]):
            t = f.blocks[b]["t"]
            if t and t["k"] == "Call" and (f.callee_def(t) or {}).get("n") == "next" and g.innermost_loop(b) is L:
                nx = (b, t)
                break
        if nx is None:
            continue
        if sym is None:
            flow = Flow(f)
            from .sym import Sym
            sym = Sym(f, flow)
        rg = wr.range_of_next(f, flow, sym, nx[1])
        if rg is None:
            continue
        var = Poly.atom(("call", f.uid, nx[0], ("0",)))
        lo = rg[0]
        segs = occ + [len(path)]
        for k in range(len(occ)):
            seg = path[segs[k]:segs[k + 1]]
            nxt = {seg[i]: seg[i + 1] for i in range(len(seg) - 1)}
            for b in seg:
                if b not in L["body"] or b not in nxt:
                    continue
                t = f.blocks[b]["t"]
                if not t or t["k"] != "Switch" or len(t["ts"]) != 1:
                    continue
                for r in flow.op_roots(t["o"]):
                    if r[0] != "bin":
                        continue
                    st = f.blocks[r[1]]["s"][r[2]][2]
                    if st["op"] not in ("Eq", "Ne"):
                        continue
                    a, c = sym.operand(st["o"][0]), sym.operand(st["o"][1])
                    if {a.key(), c.key()} != {var.key(), lo.key()}:
                        continue
                    truth = nxt[b] != t["ts"][0][1]  # switch on bool: value 0 -> false arm
                    equal = truth if st["op"] == "Eq" else (not truth)
                    if k == 0 and not equal:
                        return False
                    if k > 0 and equal:
                        return False
    return True


_ALIAS = {}
_FLOWS = {}


def returns_view(p, cf):
    """the callee only wraps its (single) reference argument into the value it returns: no call other than view accessors, no store through a pointer"""
    if cf.uid in _ALIAS:
        return _ALIAS[cf.uid]
    ok = cf.argc >= 1
    g = CFG(cf)
    for b in sorted(g.reach):
        for s in cf.blocks[b]["s"]:
            if s[0] == "A" and "*" in s[1][1:]:
                ok = False
        t = cf.blocks[b]["t"]
        if t and t["k"] == "Call" and (cf.callee_def(t) or {}).get("n") not in VIEW:
            ok = False
    if ok:
        ok = "&" in cf.local_ty(0)["s"]
    if ok:
        fl = Flow(cf, transparent=VIEW)
        seen, work, ok = set(), list(fl.roots(0)), False
        while work:
            r = work.pop()
            if r in seen:
                continue
            seen.add(r)
            if r[0] == "param":
                ok = True
            elif r[0] == "agg":
                for o in cf.blocks[r[1]]["s"][r[2]][2]["o"]:
                    if o[0] in ("c", "m"):
                        work.extend(fl.op_roots(o))
    _ALIAS[cf.uid] = ok
    return ok


def view_flow(p, f):
    """origin slices of f in which view accessors and the repository's own view constructors are transparent"""
    if f.uid in _FLOWS:
        return _FLOWS[f.uid]
    extra = set()
    for bi, t in f.calls():
        d = f.callee_def(t) or {}
        n = d.get("n")
        if not n or n in VIEW or not d.get("u", "").startswith(("poulpy_core", "poulpy_bin_fhe", "poulpy_ckks")):
            continue
        tg = [p.fn(x) for x in p.targets(f, t)]
        if tg and all(c is not None and returns_view(p, c) for c in tg):
            extra.add(n)
    fl = Flow(f, transparent=tuple(VIEW) + tuple(sorted(extra)))
    _FLOWS[f.uid] = (fl, extra)
    return _FLOWS[f.uid]


def _raw_store_kind(p, f, b, s, cf, cs, is_obj):
    """a raw store `obj.at_mut(c, i)[j] = v` inside a closure built at statement s of block b of f:
    'rmw' when v is computed from the limb it overwrites; 'range-partial' when the closure is the body of `(lo..hi).for_each` with i the closure's argument and the range provably
    not the object's whole limb range [0, size); None otherwise (treated as an initialising store, as before)"""
    base = cs[1][0]
    for blk in cf.blocks:
        for st in blk["s"]:
            if st[0] == "A" and st[2]["k"] == "Bin":
                for o in st[2]["o"]:
                    if o[0] in ("c", "m") and len(o[1]) > 1 and o[1][0] == base and "*" in o[1][1:]:
                        return "rmw"
    # the for_each this closure is handed to
    clos_local = s[1][0]
    plain = Flow(f)
    sym = Sym(f, plain)
    rng = None
    for bi, t in f.calls():
        if (f.callee_def(t) or {}).get("n") != "for_each" or len(t["a"]) != 2:
            continue
        if not (t["a"][1][0] in ("c", "m") and t["a"][1][1][0] == clos_local):
            continue
        for r in plain.op_roots(t["a"][0]):
            if r[0] == "agg":
                rv = f.blocks[r[1]]["s"][r[2]][2]
                if rv.get("ak") == "Adt" and rv.get("fields") and "start" in rv["fields"] and "end" in rv["fields"]:
                    rng = (sym.operand(rv["o"][rv["fields"].index("start")]), sym.operand(rv["o"][rv["fields"].index("end")]))
    if rng is None:
        return None
    size = None
    for bi, t in f.calls():
        if (f.callee_def(t) or {}).get("n", "").startswith("take_") and is_obj({("call", bi, ("0",))}) and t["a"]:
            size = sym.operand(t["a"][-1])
    if size is None:
        return None
    if rng[0].is_const() and (rng[0].const_value() or 0) == 0 and rng[1].key() == size.key():
        return None
    # provably a sub-range: the end is a minimum with the size, or the start is not zero
    at = [a for a in rng[1].atoms()]
    if (len(at) == 1 and at[0][0] == "f" and at[0][1] == "min" and any(Poly(dict(k)).key() == size.key() for k in at[0][2])) or not (rng[0].is_const() and (rng[0].const_value() or 0) == 0):
        return "range-partial"
    return None


def _closure_may_not_run(f, s):
    """the closure built by statement s is the body of `(lo..hi).for_each` with a constant lo >= 1 and a non-constant hi: for the smallest hi the body never runs"""
    clos_local = s[1][0]
    plain = Flow(f)
    sym = Sym(f, plain)
    for bi, t in f.calls():
        if (f.callee_def(t) or {}).get("n") != "for_each" or len(t["a"]) != 2:
            continue
        if not (t["a"][1][0] in ("c", "m") and t["a"][1][1][0] == clos_local):
            continue
        for r in plain.op_roots(t["a"][0]):
            if r[0] == "agg":
                rv = f.blocks[r[1]]["s"][r[2]][2]
                if rv.get("ak") == "Adt" and rv.get("fields") and "start" in rv["fields"] and "end" in rv["fields"]:
                    lo = sym.operand(rv["o"][rv["fields"].index("start")])
                    hi = sym.operand(rv["o"][rv["fields"].index("end")])
                    if lo.is_const() and (lo.const_value() or 0) >= 1 and not hi.is_const():
                        # an object one of whose dimensions is the trip count itself is empty when the body does not run
                        if any((hi - lo) == d for d in _CUR_TAKE_DIMS):
                            return False
                        return True
    return False


_CUR_TAKE_DIMS = []


def walk_object(p, f, path, start_pos, is_obj, is_obj_place_root, summaries, depth=0):
    """typestate of one object along one path, starting uninitialised.  Returns (verdict, where, what):
    verdict: init | read | accumulate | needs-init | partial | moved | unused"""
    flow_all, view_ctors = view_flow(p, f)
    shrunk = False
    state = "uninit"
    for b in path[start_pos:]:
        blk = f.blocks[b]
        for s in blk["s"]:
            if s[0] == "A" and s[2]["k"] == "Agg" and s[2].get("ak") == "Closure" and state in ("uninit", "tail-uninit", "raw-partial"):
                for k, o in enumerate(s[2]["o"]):
                    if o[0] in ("c", "m") and is_obj(flow_all.op_roots(o)):
                        cf = p.fn(f.duid(s[2]["clos"]))
                        if cf is None:
                            continue
                        cflow = Flow(cf, transparent=VIEW)
                        cg = CFG(cf)
                        v = None
                        for cb in sorted(cg.reach):
                            for cs in cf.blocks[cb]["s"]:
                                if cs[0] == "A" and "*" in cs[1][1:] and any(r[0] == "param" and r[1] == 1 and r[2][:1] == (str(k),) for r in cflow.roots(cs[1][0])):
                                    kind = _raw_store_kind(p, f, b, s, cf, cs, is_obj)
                                    if kind == "rmw":
                                        # `x[i] op= y`: reads the limb it writes
                                        v = v or ("accumulate", cf.where(cs[3]), "read-modify-write store")
                                    elif kind == "range-partial" and state in ("uninit", "raw-partial"):
                                        v = v or ("raw-partial", cf.where(cs[3]), "store over a sub-range")
                                    elif state != "raw-partial":
                                        v = v or ("init", cf.where(cs[3]), "store")
                            if v:
                                break
                            ct = cf.blocks[cb]["t"]
                            if ct and ct["k"] == "Call":
                                for ai, ca in enumerate(ct["a"]):
                                    if ca[0] in ("c", "m") and any(r[0] == "param" and r[1] == 1 and r[2][:1] == (str(k),) for r in cflow.op_roots(ca)):
                                        c = classify_use(cf, ct, ai, p, summaries, depth)
                                        if c != "neutral":
                                            v = (c, cf.where(ct["l"]), (cf.callee_def(ct) or {}).get("n"))
                                            break
                            if v:
                                break
                        if v:
                            if v[0] == "raw-partial":
                                state = "raw-partial"
                            elif v[0] == "init" and _closure_may_not_run(f, s):
                                pass  # `(1..cols).for_each`: at rank 0 the body does not run - whatever comes next still meets the object as it was taken
                            elif v[0] == "init":
                                state = "init" if not shrunk else "init-partial"
                                if state == "init":
                                    return ("init", v[1], v[2])
                            elif v[0] in ("read", "accumulate", "needs-init"):
                                return (v[0] if state == "uninit" else "partial", v[1], v[2])
            elif s[0] == "A" and "*" in s[1][1:]:
                if is_obj(flow_all.roots(s[1][0])):
                    fields = [x for x in s[1][1:] if isinstance(x, list) and x[0] == "f"]
                    if not fields or any(isinstance(x, list) and x[0] == "i" for x in s[1][1:]):
                        if state == "uninit" and not shrunk:
                            return ("init", f.where(s[3]), "store")
                        state = "init-partial" if shrunk else state
        t = blk["t"]
        if not t or t["k"] != "Call":
            continue
        for ai, a in enumerate(t["a"]):
            if a[0] not in ("c", "m") or not is_obj(flow_all.op_roots(a)):
                continue
            nme = (f.callee_def(t) or {}).get("n")
            if nme in view_ctors:
                continue
            if nme == "set_size":
                if state == "uninit":
                    shrunk = True
                elif state == "init-partial":
                    state = "tail-uninit"
                break
            c = classify_use(f, t, ai, p, summaries, depth)
            if c == "neutral":
                continue
            where = f.where(t["l"])
            if state == "uninit":
                if c == "init":
                    if shrunk:
                        state = "init-partial"
                        break
                    return ("init", where, nme)
                return (c, where, nme)
            if state == "init-partial":
                # further uses before any growth are fine
                break
            if state == "raw-partial":
                # only some limbs were written through raw indexing: a whole-object read / accumulation meets the others
                if c in ("read", "accumulate", "needs-init"):
                    return ("partial", where, nme)
                if c == "init":
                    return ("init", where, nme)
            if state == "tail-uninit":
                if c in ("read", "accumulate", "needs-init"):
                    return ("partial", where, nme)
                if c == "init":
                    return ("init", where, nme)
            break
    if state in ("init-partial", "tail-uninit", "raw-partial"):
        return ("init", None, "partial-size initialisation, never grown before use")
    return ("unused", None, None)


def param_summary(p, cf, pi, summaries, depth=0):
    """inits | needs-init | unused | None for parameter pi of cf treated as an uninitialised object"""
    key = (cf.uid, pi)
    if key in summaries:
        return summaries[key]
    summaries[key] = None  # cycle guard: unknown
    if depth > 40:
        return None
    ty = cf.local_ty(pi)
    g = CFG(cf)
    paths = sc.returning_paths(cf, g, cap=1024, unroll=2) or sc.returning_paths(cf, g, cap=256)
    if not paths:
        return None
    verdicts = set()
    for path in paths:
        if not iteration_feasible(cf, g, path):
            continue
        v = walk_object(p, cf, path, 0, lambda rr, pi=pi: any(r[0] == "param" and r[1] == pi for r in rr), None, summaries, depth)
        verdicts.add(v[0])
    if verdicts & {"read", "accumulate", "needs-init", "partial"}:
        out = "needs-init"
    elif verdicts <= {"unused"}:
        out = "unused"
    elif verdicts <= {"init", "unused", "moved"}:
        out = "inits" if "unused" not in verdicts and "moved" not in verdicts else None
    else:
        out = None
    summaries[key] = out
    return out


_ZERO_TRIPS = {}


def _zero_trip_paths(f, g):
    """returning paths on which exactly the loops `for v in lo..hi` with a constant lo >= 1 are skipped (all other loops traversed as usual)"""
    from . import wr
    from .sym import Sym
    loops = g.loops()
    if not loops:
        return []
    flow = Flow(f)
    sym = Sym(f, flow)
    skippable = {}
    trips = {}
    for L in loops:
        for b in sorted(L["body"]):
            t = f.blocks[b]["t"]
            if t and t["k"] == "Call" and (f.callee_def(t) or {}).get("n") == "next" and g.innermost_loop(b) is L:
                rg = wr.range_of_next(f, flow, sym, t)
                if rg is not None and rg[0].is_const() and (rg[0].const_value() or 0) >= 1 and not rg[1].is_const():
                    sw = t.get("t")
                    tsw = f.blocks[sw]["t"] if sw is not None else None
                    if tsw and tsw["k"] == "Switch":
                        entry = [tb for val, tb in tsw["ts"] if val == 1]
                        if entry:
                            skippable[L["header"]] = (L, entry[0])
                            trips[L["header"]] = rg[1] - rg[0]
                break
    if not skippable:
        return []
    allp = sc.returning_paths(f, g, cap=512, dowhile=False) or []
    out = []
    for pth in allp:
        s = set(pth)
        skipped = [h for h, (L, e) in skippable.items() if h in s and e not in s]
        if not skipped:
            continue
        _ZERO_TRIPS[tuple(pth)] = [trips[h] for h in skipped]
        # every other loop on the path is entered
        ok = True
        for L in loops:
            h = L["header"]
            if h in s and h not in skipped and len(s & L["body"]) <= 2 and len(L["body"]) > 3:
                ok = False
                break
        if ok:
            out.append(pth)
    return out[:256]


class _Unknown(Exception):
    pass


def _path_consts_feasible(p, f, path):
    """False when some two-way decision on the path tests a value that is a constant under the path's own definitions (a flag set before a loop and never toggled on this
    path) and the path takes the other arm"""
    from . import pwl
    pf = sc.PathFlow(f, path)
    sym = Sym(f, pf)

    def fresh(k):
        raise _Unknown()
    for i, b in enumerate(path[:-1]):
        t = f.blocks[b]["t"]
        if not t or t["k"] != "Switch":
            continue
        sym.at = (i, 1 << 21)
        sym.memo = {}
        try:
            pl = sym.operand(t["o"])
            v = pwl.Eval(p, {"__fresh__": fresh}).poly(pl)
        except (_Unknown, pwl.ErrPath, ZeroDivisionError, KeyError):
            continue
        finally:
            sym.at = None
        listed = dict((val, tb) for val, tb in t["ts"])
        want = listed.get(v, t.get("else"))
        if want is not None and path[i + 1] != want:
            return False
    return True


def sc3(p, res):
    n_takes = 0
    summaries = {}
    fns = [f for f in p.lib_fns() if f.uid.startswith(LIB)]
    for f in sorted(fns, key=lambda x: x.uid):
        takes = [(bi, t) for bi, t in f.calls() if (f.callee_def(t) or {}).get("n", "").startswith("take_") and (f.callee_def(t) or {}).get("n") not in ("take_slice",)]
        if not takes:
            continue
        g = CFG(f)
        paths = sc.returning_paths(f, g, cap=1024, unroll=2) or sc.returning_paths(f, g, cap=256)
        if paths is None:
            res.undec("SC-3", "%s: too many paths" % f.pretty)
            continue
        paths = [pth for pth in paths if iteration_feasible(f, g, pth)]
        # loops over `lo..hi` with a constant lo >= 1 (`for i in 1..cols`) do not run for the smallest admissible hi (rank 0): their zero-trip paths are paths too
        paths = paths + _zero_trip_paths(f, g)
        for tb, tt in takes:
            tname = (f.callee_def(tt) or {}).get("n")
            if tname.endswith("_slice"):
                continue  # Vec of objects: element-wise tracking is out of reach; listed as a limit
            n_takes += 1
            verdicts = set()
            witness = None
            dsym = Sym(f, Flow(f))
            del _CUR_TAKE_DIMS[:]
            _CUR_TAKE_DIMS.extend(dsym.operand(a) for a in tt["a"][1:] if a[0] in ("c", "m", "k"))
            for path in paths:
                if tb not in path:
                    continue
                zt = _ZERO_TRIPS.get(tuple(path))
                if zt and any(tr == d for tr in zt for d in _CUR_TAKE_DIMS):
                    continue  # the object has as many columns / limbs as the skipped loop has iterations: it is empty on this path
                pos = path.index(tb)
                v = walk_object(p, f, path, pos + 1, lambda rr, tb=tb: any(r[0] == "call" and r[1] == tb and r[2][:1] == ("0",) for r in rr), None, summaries)
                if v[0] in ("read", "accumulate", "needs-init", "partial") and not _path_consts_feasible(p, f, path):
                    continue  # the path contradicts a flag it set itself
                verdicts.add(v[0])
                if v[0] in ("read", "accumulate", "needs-init", "partial"):
                    witness = v
            if witness:
                how = {"read": "a read operand", "accumulate": "an accumulate/in-place operand", "needs-init": "an operand the callee reads or accumulates into before overwriting it (callee summary)",
                       "partial": "an accumulate/read operand after only part of its limbs was initialised (at a reduced size before growing, or through raw indexing over a sub-range)"}[witness[0]]
                res.bad("SC-3", f.pretty, "uninit-read:%s@%s" % (tname, witness[2]),
                        "%s: the object obtained with %s is first used by `%s` as %s on some path, before anything initialised it: the result depends on the previous contents of the scratch buffer"
                        % (f.pretty, tname, witness[2], how), site=witness[1])
            elif verdicts <= {"init", "unused", "moved"}:
                res.ok("SC-3", {"fn": f.pretty, "take": tname, "first_use": sorted(verdicts)} if n_takes % 25 == 1 else None)
            else:
                res.undec("SC-3", "%s: %s first uses %s" % (f.pretty, tname, sorted(verdicts)))
    res.extra["sc3_param_summaries"] = len(summaries)
    return n_takes


# ------------------------------------------------------------------ SC-4
def sc4(p, res, pairs=None):
    """takes whose byte size cannot be a multiple of 64 for every admissible shape (literal ring degree 1), followed by another consumer of the same chain"""
    n = 0
    pairs = pairs or {}
    for f in sorted([x for x in p.lib_fns() if x.uid.startswith(LIB)], key=lambda x: x.uid):
        for bi, t in f.calls():
            d = f.callee_def(t) or {}
            nm = d.get("n", "")
            lit = False
            if nm == "take_vec_znx" and len(t["a"]) >= 4 and t["a"][1][0] == "k" and t["a"][1][1].get("v") in (1, 2, 3, 4, 5, 6, 7):
                lit = True
            if nm in ("take_lwe_plaintext",):
                lit = True
            if not lit:
                continue
            n += 1
            # later consumer on the remaining scratch: a call receiving the `.1` of this take
            flow = Flow(f, transparent=SCR_T)
            later = None
            for b2, t2 in f.calls():
                for a in t2["a"]:
                    if a[0] in ("c", "m") and is_scratch_ty(f.local_ty(a[1][0])["s"]):
                        if any(r[0] == "call" and r[1] == bi and r[2][:1] == ("1",) for r in flow.op_roots(a)):
                            later = later or (t2["l"], (f.callee_def(t2) or {}).get("n"))
            padded = False
            if f.uid in pairs:
                comp = pairs[f.uid][1]
                padded = any((comp.callee_def(t3) or {}).get("n") in ("next_multiple_of", "checked_next_multiple_of", "align_up") for _, t3 in comp.calls())
            if later and padded:
                res.ok("SC-4", {"fn": f.pretty, "take": nm, "companion_pads_to_alignment": True})
            elif later:
                res.bad("SC-4", f.pretty, "unaligned-take:%s" % nm,
                        "%s: %s takes a buffer whose size (8 bytes per limb, ring degree given as a literal) is not a multiple of the 64-byte scratch alignment, and the rest of the scratch is then handed to `%s`: the re-alignment of the next take is not paid for by the companion query"
                        % (f.pretty, nm, later[1]), site=f.where(t["l"]))
            else:
                res.ok("SC-4")
    return n


# ------------------------------------------------------------------ SC-5
def sc5(p, res):
    allowed_carve = ("poulpy_cpu_ref::hal_defaults::scratch::",)
    allowed_raw = ("poulpy_cpu_ref::hal_defaults::scratch::", "poulpy_hal::cast_mut", "poulpy_hal::cast", "poulpy_hal::layouts::znx_base::", "poulpy_cpu_ref::reference::ntt120::",
                   "poulpy_cpu_avx::ntt120::", "poulpy_hal::alloc", "poulpy_hal::{impl", "poulpy_hal::")
    n = 0
    for f in p.lib_fns():
        for bi, t in f.calls():
            d = f.callee_def(t) or {}
            nm = d.get("n")
            if nm == "slice_from_raw_parts_mut":
                n += 1
                if f.uid.startswith(allowed_carve):
                    res.ok("SC-5")
                else:
                    res.bad("SC-5", f.pretty, "carving:%s" % nm, "%s builds a mutable slice from a raw pointer outside the scratch carver" % f.pretty, site=f.where(t["l"]))
            elif nm == "from_raw_parts_mut":
                n += 1
                if f.uid.startswith(allowed_raw):
                    res.ok("SC-5")
                else:
                    res.bad("SC-5", f.pretty, "carving:%s" % nm, "%s builds a mutable slice from raw parts outside the four audited modules" % f.pretty, site=f.where(t["l"]))
        for blk in f.blocks:
            for s in blk["s"]:
                if s[0] == "A" and s[2]["k"] == "Cast" and "Scratch<" in f.tys(s[2]["ty"]) and f.ty(s[2]["ty"]).get("r", "").startswith("*"):
                    n += 1
                    if f.uid.startswith(allowed_carve):
                        res.ok("SC-5")
                    else:
                        res.bad("SC-5", f.pretty, "scratch-cast", "%s reinterprets a pointer as Scratch outside the scratch carver" % f.pretty, site=f.where(s[3]))
    return n
