"""C04 — external products and CMux (thin claim: digit selection and the CMux form; noise and the gadget arithmetic are not decided). See c03.py for KS-1 / CMUX-1."""
from . import facts
from .c03 import ks1, cmux1


def acc1(p, res, prefixes):
    """a big accumulator taken from scratch stages the un-normalised sum for one or several destinations (`vec_znx_big_normalize(dst, .., &tmp, ..)`).  When its limb count is
    clamped by the limb count of an object (`min(.., X.size() + c)`), every destination it is normalised into has to be that object: the clamp keeps the limbs X can hold (plus
    guard limbs) and cuts what a wider destination needs - the un-normalised limbs cut off carry into the ones kept (cswap with operands of unequal widths)."""
    from .cfg import Flow
    from .sym import Sym, Poly
    from .rad import _deep_atoms
    VT = ("deref", "deref_mut", "borrow", "borrow_mut", "as_mut", "as_ref", "into", "from", "clone", "to_ref", "to_mut", "data", "data_mut")
    n = 0
    for f in sorted(p.lib_fns(), key=lambda x: x.uid):
        if f.is_test() or not f.blocks or "test_suite" in f.uid or not f.uid.startswith(prefixes):
            continue
        takes = [(bi, t) for bi, t in f.calls() if (f.callee_def(t) or {}).get("n") == "take_vec_znx_big" and len(t["a"]) >= 4]
        norms = [(bi, t) for bi, t in f.calls() if (f.callee_def(t) or {}).get("n", "").startswith("vec_znx_big_normalize") and len(t["a"]) >= 7]
        if not takes or not norms:
            continue
        flow = Flow(f)
        vflow = Flow(f, transparent=VT)
        sym = Sym(f, flow)
        vsym = Sym(f, vflow)
        for tb, tt in takes:
            sz = sym.operand(tt["a"][-1])
            clamp = set()
            for a in _deep_atoms(sz):
                if a[0] == "f" and a[1] == "min" and len(a[2]) == 2:
                    for k in a[2]:
                        for b in _deep_atoms(Poly(dict(k))):
                            if b[0] == "f" and b[1] == "size" and len(b[2]) == 1:
                                for o in _deep_atoms(Poly(dict(b[2][0]))):
                                    if o[0] == "p":
                                        clamp.add(("param", o[1]))
                                    elif o[0] == "call" and o[1] == f.uid:
                                        # the object a view call was applied to (`tmp.size()` of a taken object: the take itself)
                                        for r in vflow.roots(f.blocks[o[2]]["t"]["d"][0]) if f.blocks[o[2]]["t"].get("d") else ():
                                            clamp.add((r[0], r[1]))
                                        clamp.add(("call", o[2]))
            for nb, nt in norms:
                if not any(r[0] == "call" and r[1] == tb for r in vflow.op_roots(nt["a"][5])):
                    continue
                n += 1
                droots = {(r[0], r[1]) for r in vflow.op_roots(nt["a"][1])}
                dst = repr(vsym.operand(nt["a"][1]))
                # the accumulator's own producer (`res_big.size()`) is not a destination
                objs = {o for o in clamp if not (o[0] == "call" and "big" in (f.callee_def(f.blocks[o[1]]["t"]) or {}).get("n", "") + f.local_ty(f.blocks[o[1]]["t"]["d"][0])["s"].lower())} if clamp else set()
                if objs and not (droots & objs) and all(o[0] == "call" for o in objs) and all(r[0] == "param" for r in droots):
                    # clamped by a local image of an operand (its copy in another radix), normalised into a parameter: which operand the image stands for is not tracked
                    res.undec("ACC-1", "%s: accumulator clamped by a local object, normalised into a parameter" % f.pretty)
                elif objs and not (droots & objs):
                    res.bad("ACC-1", f.pretty, "accumulator-clamped-by-another-object:%s" % dst,
                            "%s takes a big accumulator of %r limbs - clamped by the limb count of %s - and normalises it into `%s`: a destination wider than the object the clamp was "
                            "taken from loses its low limbs, and the un-normalised limbs cut off no longer carry into the ones kept" % (f.pretty, sz, ", ".join(sorted("%s %s" % o for o in objs)), dst), site=f.where(nt["l"]))
                else:
                    res.ok("ACC-1", {"fn": f.pretty, "limbs": repr(sz), "dst": dst} if n % 4 == 1 else None)
    return n


def run(res, tier):
    res.level = "other"
    res.explanation = ("Only structural clauses of C04 are decided: the digit loop of the external product selects the operand limbs with step == dsize and offset + limb offset == dsize - 1 on "
                       "every path; each CMux form computes (x - y) * s + y with the operand added back being the subtrahend of the difference (so that a selector bit of 0 / 1 returns exactly "
                       "one of the two inputs, given the external product); vmp kernels with a limb offset zero-fill what they do not write. m1 * m2 within noise, row expansion and radix "
                       "mismatches are not decided.")
    res.rule("KS-1", "digit loops: step == dsize and offset + limb_offset == dsize - 1 on every path")
    res.rule("KS-2", "digit loops: the limb count given to a digit group is at least the number of limbs its strided copy selects, up to the rows of the key")
    res.rule("CMUX-1", "cmux / cmux_assign / cmux_assign_neg: the operand added after the product is the subtrahend of the difference that was multiplied")
    res.rule("WR-4", "raw-slice vmp kernels taking limb_offset: the zero fill starts one stride after the last written limb")
    res.rule("ROW-1", "row accessors X.at(row, ..) / X.at_mut(row, ..) in a row loop: the loop bound stays within X.dnum() under the comparisons that dominate the access")
    res.rule("ACC-1", "a big accumulator whose limb count is clamped by an object's limb count is normalised only into that object")
    res.rule("RAD-4", "the two arms of a radix-equality decision fill every common object from the same columns of the operands that exist before the decision")
    res.rule("UNIT-1", "comparisons, min and max between limb counts, key row counts and bit precisions (limbs = rows * dsize, bits = limbs * base2k) relate quantities of the same unit")
    res.rule("RAD-1", "a cross-radix conversion skipped / taken on a radix comparison is guarded by the comparison of exactly its input and output radices")
    res.rule("RAD-2", "no call of an operation asserting equal radices of two arguments sits on a branch whose guards imply that they differ (cswap / cmux cross-radix branches)")
    res.assumptions = ["the external product multiplies by the GGSW plaintext (not decided)", "zeroed accumulators of multi-digit products: SC-3 under C12"]
    cfgs = ["avx-dev"] if tier == "quick" else ["avx-dev", "ref-dev"]
    for cfg in cfgs:
        p = facts.load(cfg)
        res.configs.append(p.build_info)
        n = ks1(p, res, ("poulpy_core::external_product",))
        res.floor("KS-1", "digit loops of the external product", n, 1)
        from .c03 import ks2_report
        n2 = ks2_report(res)
        res.floor("KS-2", "digit groups sized inside a digit loop", n2, 1)
        nc = cmux1(p, res)
        res.floor("CMUX-1", "CMux forms", nc, 3)
        from .c11 import wr4
        n4 = wr4(p, res)
        res.floor("WR-4", "limb_offset kernels", n4, 2)
        from . import rad
        pre = ("poulpy_core::external_product", "poulpy_bin_fhe::bdd_arithmetic::eval")
        nr1 = rad.rad1(p, res, pre)
        res.floor("RAD-1", "guarded radix conversions of the external products / cswap", nr1, 4)
        nr2 = rad.rad2(p, res, pre)
        res.floor("RAD-2", "calls of radix-asserting operations", nr2, 12)
        nrow = rad.row1(p, res, ("poulpy_core::external_product", "poulpy_core::api::external_product", "poulpy_bin_fhe::bdd_arithmetic"))
        res.floor("ROW-1", "row accessors in row loops", nrow, 17)
        nu = rad.unit1(p, res, ("poulpy_core::external_product", "poulpy_core::api::external_product", "poulpy_bin_fhe::bdd_arithmetic"))
        res.floor("UNIT-1", "comparisons / min / max between quantities of known units", nu, 9)
        na = acc1(p, res, ("poulpy_core", "poulpy_bin_fhe", "poulpy_ckks"))
        res.floor("ACC-1", "(scratch big accumulator, normalisation destination) pairs", na, 8)
        nr4 = rad.rad4(p, res, ("poulpy_core::external_product", "poulpy_core::conversion", "poulpy_bin_fhe::bdd_arithmetic"))
        res.floor("RAD-4", "objects filled in both arms of a radix decision", nr4, 1)
        res.fn_count += n + nc
