"""C04 — external products and CMux (thin claim: digit selection and the CMux form; noise and the gadget arithmetic are not decided). See c03.py for KS-1 / CMUX-1."""
from . import facts
from .c03 import ks1, cmux1


def run(res, tier):
    res.level = "other"
    res.explanation = ("Only structural clauses of C04 are decided: the digit loop of the external product selects the operand limbs with step == dsize and offset + limb offset == dsize - 1 on "
                       "every path; each CMux form computes (x - y) * s + y with the operand added back being the subtrahend of the difference (so that a selector bit of 0 / 1 returns exactly "
                       "one of the two inputs, given the external product); vmp kernels with a limb offset zero-fill what they do not write. m1 * m2 within noise, row expansion and radix "
                       "mismatches are not decided.")
    res.rule("KS-1", "digit loops: step == dsize and offset + limb_offset == dsize - 1 on every path")
    res.rule("KS-2", "digit loops: the limb count given to a digit group is at least the number of limbs its strided copy selects, up to the rows of the key")
    res.rule("CMUX-1", "cmux / cmux_assign / cmux_assign_neg: the operand added after the product is the subtrahend of the difference that was multiplied")
    res.rule("WR-4", "raw-slice vmp kernels taking limb_offset: the zero fill starts one stride after the last written limb")
    res.rule("ROW-1", "row accessors X.at(row, ..) / X.at_mut(row, ..) in a row loop: the loop bound stays within X.dnum() under the comparisons that dominate the access")
    res.rule("UNIT-1", "comparisons, min and max between limb counts, key row counts and bit precisions (limbs = rows * dsize, bits = limbs * base2k) relate quantities of the same unit")
    res.rule("RAD-1", "a cross-radix conversion skipped / taken on a radix comparison is guarded by the comparison of exactly its input and output radices")
    res.rule("RAD-2", "no call of an operation asserting equal radices of two arguments sits on a branch whose guards imply that they differ (cswap / cmux cross-radix branches)")
    res.assumptions = ["the external product multiplies by the GGSW plaintext (not decided)", "zeroed accumulators of multi-digit products: SC-3 under C12"]
    cfgs = ["avx-dev"] if tier == "quick" else ["avx-dev", "ref-dev"]
    for cfg in cfgs:
        p = facts.load(cfg)
        res.configs.append(p.build_info)
        n = ks1(p, res, ("poulpy_core::external_product",))
        res.floor("KS-1", "digit loops of the external product", n, 1)
        from .c03 import ks2_report
        n2 = ks2_report(res)
        res.floor("KS-2", "digit groups sized inside a digit loop", n2, 1)
        nc = cmux1(p, res)
        res.floor("CMUX-1", "CMux forms", nc, 3)
        from .c11 import wr4
        n4 = wr4(p, res)
        res.floor("WR-4", "limb_offset kernels", n4, 2)
        from . import rad
        pre = ("poulpy_core::external_product", "poulpy_bin_fhe::bdd_arithmetic::eval")
        nr1 = rad.rad1(p, res, pre)
        res.floor("RAD-1", "guarded radix conversions of the external products / cswap", nr1, 4)
        nr2 = rad.rad2(p, res, pre)
        res.floor("RAD-2", "calls of radix-asserting operations", nr2, 12)
        nrow = rad.row1(p, res, ("poulpy_core::external_product", "poulpy_core::api::external_product", "poulpy_bin_fhe::bdd_arithmetic"))
        res.floor("ROW-1", "row accessors in row loops", nrow, 17)
        nu = rad.unit1(p, res, ("poulpy_core::external_product", "poulpy_core::api::external_product", "poulpy_bin_fhe::bdd_arithmetic"))
        res.floor("UNIT-1", "comparisons / min / max between quantities of known units", nu, 9)
        res.fn_count += n + nc
