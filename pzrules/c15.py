"""C15 — encrypted integers: bit placement and the table / thread bindings (thin claim; noise, bootstrapping and the homomorphic pipeline are not decided).

BIT-1 `UnsignedInteger::bit_index` - the map from logical bit i to the coefficient of the packed GLWE - is, for every implementing word type, a permutation of [0, BITS)
      that places the bits of byte b at b + t * 2^LOG_BYTES (the stride the byte-isolating trace relies on).  Decided by interpreting the MIR of the (straight-line,
      integer-only) function on all BITS inputs with the associated constants of each impl: an exhaustive evaluation of a constant table, like C13.
BIT-2 every associated constant of an impl is consistent with BITS: LOG_BITS = ceil(log2 BITS), LOG_BYTES = LOG_BITS - 3, LOG_BYTES_MASK = 2^LOG_BYTES - 1
BDD-* (shared with C13) every shipped circuit computes its word function for all inputs and each word operation is bound to its table
THR-4/6/7 (shared with C20) the multi-threaded evaluators and the partial-preparation windows address every bit exactly once
"""
from . import facts


def interp(fn, args, consts):
    """interprets a straight-line integer MIR-lite body (Use / Cast / Bin on integers, Assert, Goto, Return); returns the value of _0 or None"""
    env = {i + 1: a for i, a in enumerate(args)}
    MASK = (1 << 64) - 1

    def val(o):
        if o[0] in ("c", "m"):
            if len(o[1]) != 1:
                raise KeyError("projection")
            return env[o[1][0]]
        if o[0] == "k":
            c = o[1]
            if "v" in c and isinstance(c["v"], int):
                return c["v"]
            if "uneval" in c:
                name = c.get("s", "").rsplit("::", 1)[-1]
                return consts[name]
        raise KeyError("operand")
    b = 0
    steps = 0
    while steps < 200:
        steps += 1
        blk = fn.blocks[b]
        for st in blk["s"]:
            if st[0] != "A" or len(st[1]) != 1:
                continue
            rv = st[2]
            if rv["k"] in ("Use", "Cast"):
                env[st[1][0]] = val(rv["o"][0])
            elif rv["k"] == "Bin":
                x, y = val(rv["o"][0]), val(rv["o"][1])
                op = rv["op"].replace("WithOverflow", "").replace("Unchecked", "")
                r = {"BitAnd": lambda: x & y, "BitOr": lambda: x | y, "BitXor": lambda: x ^ y, "Shl": lambda: (x << y) & MASK, "Shr": lambda: x >> y,
                     "Add": lambda: x + y, "Sub": lambda: x - y, "Mul": lambda: x * y, "Lt": lambda: int(x < y), "Le": lambda: int(x <= y), "Gt": lambda: int(x > y),
                     "Ge": lambda: int(x >= y), "Eq": lambda: int(x == y), "Ne": lambda: int(x != y)}.get(op)
                if r is None:
                    raise KeyError(op)
                env[st[1][0]] = r()
            else:
                raise KeyError(rv["k"])
        t = blk["t"]
        if t["k"] == "Return":
            return env.get(0)
        if t["k"] == "Assert":
            if bool(val(t["o"])) != bool(t["exp"]):
                return None
            b = t["t"]
        elif t["k"] == "Goto":
            b = t["t"]
        else:
            raise KeyError(t["k"])
    raise KeyError("loop")


def bit1(p, res):
    fs = [f for f in p.lib_fns() if f.name == "bit_index" and f.uid.startswith("poulpy_bin_fhe::bdd_arithmetic") and f.blocks]
    n = 0
    if len(fs) != 1:
        res.bad("BIT-1", "bit_index", "anchor-lost", "UnsignedInteger::bit_index not found (or overridden: %d bodies)" % len(fs))
        return 0
    f = fs[0]
    impls = [im for im in p.impls if im["trait"] and im["trait"].endswith("bdd_arithmetic::UnsignedInteger") and not im["test"]]
    for im in sorted(impls, key=lambda x: x["self"]):
        c = im["consts"]
        if "bit_index" in im["names"]:
            res.undec("BIT-1", "%s overrides bit_index" % im["self"])
            continue
        n += 1
        bits = c.get("BITS")
        # BIT-2: constants consistent
        lb = (bits - 1).bit_length() if bits else None
        if not bits or c.get("LOG_BITS") != lb or c.get("LOG_BYTES") != lb - 3 or c.get("LOG_BYTES_MASK") != (1 << (lb - 3)) - 1:
            res.bad("BIT-2", "<%s as UnsignedInteger>" % im["self"], "constants", "associated constants of %s are inconsistent with BITS = %s: %s" % (im["self"], bits, c))
            continue
        res.ok("BIT-2", {"type": im["self"], "consts": c})
        try:
            img = [interp(f, [i], c) for i in range(bits)]
        except KeyError as e:
            res.undec("BIT-1", "%s: bit_index is no longer a straight-line integer function (%s)" % (im["self"], e))
            continue
        key = "<%s as UnsignedInteger>::bit_index" % im["self"]
        if None in img or sorted(img) != list(range(bits)):
            dup = sorted({x for x in img if img.count(x) > 1 or x is None or not (0 <= x < bits)}, key=str)[:4]
            res.bad("BIT-1", key, "not-a-permutation", "bit_index for %s is not a permutation of [0, %d): e.g. coefficient(s) %s are hit twice or out of range - two bits of a word share a coefficient" % (im["self"], bits, dup), site=f.where())
            continue
        stride = 1 << c["LOG_BYTES"]
        bad = [i for i in range(bits) if img[i] != (i >> 3) + (i & 7) * stride]
        if bad:
            res.bad("BIT-1", key, "byte-stride", "bit_index for %s does not place bit t of byte b at b + t * %d (first mismatch: bit %d -> %d): the byte-isolating trace and the byte rotations address other bits" % (im["self"], stride, bad[0], img[bad[0]]), site=f.where())
        else:
            res.ok("BIT-1", {"type": im["self"], "bits": bits, "permutation": True, "byte_stride": stride})
    return n


def run(res, tier):
    from . import c13, c20
    res_level = "other"
    c13.run(res, tier)
    res.level = res_level
    res.explanation = ("Only the bit placement and the table / thread bindings of C15 are decided: UnsignedInteger::bit_index is, for every word type, a permutation of [0, BITS) with the byte "
                       "stride the trace relies on (exhaustive interpretation of the function's MIR with each impl's associated constants); the associated constants are consistent; every "
                       "shipped u32 circuit computes its word function for all 2^64 inputs and each word operation is bound to its table (the C13 proof, shared); the multi-threaded "
                       "evaluators and the preparation windows address every bit exactly once (THR-4 / THR-6 / THR-7, shared with C20). Bootstrapping, noise, key-switching and the "
                       "homomorphic pipeline are not decided.")
    res.rule("BIT-1", "bit_index is a permutation of [0, BITS) placing bit t of byte b at b + t * 2^LOG_BYTES, for every implementing type")
    res.rule("BIT-2", "LOG_BITS / LOG_BYTES / LOG_BYTES_MASK of every impl are consistent with BITS")
    res.rule("THR-4", "exact partition of the work items of the multi-threaded evaluators")
    res.rule("THR-6", "window parameters keep their role across forwarding calls")
    res.rule("THR-7", "an empty set of work items is handled")
    res.assumptions += ["cmux / circuit bootstrapping / trace compute what C04 / C14 / C03 state (not decided)"]
    cfgs = ["avx-dev"] if tier == "quick" else ["avx-dev", "ref-dev"]
    for cfg in cfgs:
        p = facts.load(cfg)
        n = bit1(p, res)
        res.floor("BIT-1", "UnsignedInteger impls", n, 5)
        c20.thr4(p, res)
        n6 = c20.thr6(p, res)
        res.floor("THR-6", "window arguments forwarded by name", n6, 4)
        n7 = c20.thr7(p, res)
        res.floor("THR-7", "chunked work partitions", n7, 2)
