"""C15 — encrypted integers: bit placement and the table / thread bindings (thin claim; noise, bootstrapping and the homomorphic pipeline are not decided).

BIT-1 `UnsignedInteger::bit_index` - the map from logical bit i to the coefficient of the packed GLWE - is, for every implementing word type, a permutation of [0, BITS)
      that places the bits of byte b at b + t * 2^LOG_BYTES (the stride the byte-isolating trace relies on).  Decided by interpreting the MIR of the (straight-line,
      integer-only) function on all BITS inputs with the associated constants of each impl: an exhaustive evaluation of a constant table, like C13.
BIT-2 every associated constant of an impl is consistent with BITS: LOG_BITS = ceil(log2 BITS), LOG_BYTES = LOG_BITS - 3, LOG_BYTES_MASK = 2^LOG_BYTES - 1
DSZ-1 a function that places the row gadgets of a GGSW / GGLWE itself (reads dnum(), multiplies base2k()) also reads dsize()
BIT-3 blind retrieval (forward and reverse butterfly): the swap stage of distance 2^e is controlled by stored bit bit_rsh + e
BDD-* (shared with C13) every shipped circuit computes its word function for all inputs and each word operation is bound to its table
THR-4/6/7 (shared with C20) the multi-threaded evaluators and the partial-preparation windows address every bit exactly once
"""
from . import facts


def interp(fn, args, consts):
    """interprets a straight-line integer MIR-lite body (Use / Cast / Bin on integers, Assert, Goto, Return); returns the value of _0 or None"""
    env = {i + 1: a for i, a in enumerate(args)}
    MASK = (1 << 64) - 1

    def val(o):
        if o[0] in ("c", "m"):
            if len(o[1]) != 1:
                raise KeyError("projection")
            return env[o[1][0]]
        if o[0] == "k":
            c = o[1]
            if "v" in c and isinstance(c["v"], int):
                return c["v"]
            if "uneval" in c:
                name = c.get("s", "").rsplit("::", 1)[-1]
                return consts[name]
        raise KeyError("operand")
    b = 0
    steps = 0
    while steps < 200:
        steps += 1
        blk = fn.blocks[b]
        for st in blk["s"]:
            if st[0] != "A" or len(st[1]) != 1:
                continue
            rv = st[2]
            if rv["k"] in ("Use", "Cast"):
                env[st[1][0]] = val(rv["o"][0])
            elif rv["k"] == "Bin":
                x, y = val(rv["o"][0]), val(rv["o"][1])
                op = rv["op"].replace("WithOverflow", "").replace("Unchecked", "")
                r = {"BitAnd": lambda: x & y, "BitOr": lambda: x | y, "BitXor": lambda: x ^ y, "Shl": lambda: (x << y) & MASK, "Shr": lambda: x >> y,
                     "Add": lambda: x + y, "Sub": lambda: x - y, "Mul": lambda: x * y, "Lt": lambda: int(x < y), "Le": lambda: int(x <= y), "Gt": lambda: int(x > y),
                     "Ge": lambda: int(x >= y), "Eq": lambda: int(x == y), "Ne": lambda: int(x != y)}.get(op)
                if r is None:
                    raise KeyError(op)
                env[st[1][0]] = r()
            else:
                raise KeyError(rv["k"])
        t = blk["t"]
        if t["k"] == "Return":
            return env.get(0)
        if t["k"] == "Assert":
            if bool(val(t["o"])) != bool(t["exp"]):
                return None
            b = t["t"]
        elif t["k"] == "Goto":
            b = t["t"]
        else:
            raise KeyError(t["k"])
    raise KeyError("loop")


def bit1(p, res):
    fs = [f for f in p.lib_fns() if f.name == "bit_index" and f.uid.startswith("poulpy_bin_fhe::bdd_arithmetic") and f.blocks]
    n = 0
    if len(fs) != 1:
        res.bad("BIT-1", "bit_index", "anchor-lost", "UnsignedInteger::bit_index not found (or overridden: %d bodies)" % len(fs))
        return 0
    f = fs[0]
    impls = [im for im in p.impls if im["trait"] and im["trait"].endswith("bdd_arithmetic::UnsignedInteger") and not im["test"]]
    for im in sorted(impls, key=lambda x: x["self"]):
        c = im["consts"]
        if "bit_index" in im["names"]:
            res.undec("BIT-1", "%s overrides bit_index" % im["self"])
            continue
        n += 1
        bits = c.get("BITS")
        # BIT-2: constants consistent
        lb = (bits - 1).bit_length() if bits else None
        if not bits or c.get("LOG_BITS") != lb or c.get("LOG_BYTES") != lb - 3 or c.get("LOG_BYTES_MASK") != (1 << (lb - 3)) - 1:
            res.bad("BIT-2", "<%s as UnsignedInteger>" % im["self"], "constants", "associated constants of %s are inconsistent with BITS = %s: %s" % (im["self"], bits, c))
            continue
        res.ok("BIT-2", {"type": im["self"], "consts": c})
        try:
            img = [interp(f, [i], c) for i in range(bits)]
        except KeyError as e:
            res.undec("BIT-1", "%s: bit_index is no longer a straight-line integer function (%s)" % (im["self"], e))
            continue
        key = "<%s as UnsignedInteger>::bit_index" % im["self"]
        if None in img or sorted(img) != list(range(bits)):
            dup = sorted({x for x in img if img.count(x) > 1 or x is None or not (0 <= x < bits)}, key=str)[:4]
            res.bad("BIT-1", key, "not-a-permutation", "bit_index for %s is not a permutation of [0, %d): e.g. coefficient(s) %s are hit twice or out of range - two bits of a word share a coefficient" % (im["self"], bits, dup), site=f.where())
            continue
        stride = 1 << c["LOG_BYTES"]
        bad = [i for i in range(bits) if img[i] != (i >> 3) + (i & 7) * stride]
        if bad:
            res.bad("BIT-1", key, "byte-stride", "bit_index for %s does not place bit t of byte b at b + t * %d (first mismatch: bit %d -> %d): the byte-isolating trace and the byte rotations address other bits" % (im["self"], stride, bad[0], img[bad[0]]), site=f.where())
        else:
            res.ok("BIT-1", {"type": im["self"], "bits": bits, "permutation": True, "byte_stride": stride})
    return n


def dsz1(p, res):
    """row gadgets of a matrix ciphertext: the gadget of row i sits at (i + 1) * dsize * base2k bits.  A function that places row values itself - it reads the object's `dnum()`
    and multiplies its `base2k()` - has to read its `dsize()` too (or it silently assumes dsize == 1)"""
    from .cfg import Flow
    T = ("to_ref", "to_mut", "deref", "deref_mut", "borrow", "borrow_mut", "as_ref", "as_mut", "clone", "into", "from", "as_usize", "as_u32")
    n = 0
    for f in sorted(p.lib_fns(), key=lambda x: x.uid):
        if f.kind == "Closure" or not f.blocks or not f.uid.startswith(("poulpy_core::", "poulpy_bin_fhe::", "poulpy_ckks::")) or "::test_suite::" in f.uid \
                or f.name.endswith(("tmp_bytes", "tmp_bytes_default")) or "::layouts::" in f.uid:
            continue
        flow = Flow(f, transparent=T)
        acc = {}
        for bi, t in f.calls():
            nm = (f.callee_def(t) or {}).get("n")
            if nm in ("dnum", "dsize", "base2k") and t["a"]:
                for r in flow.op_roots(t["a"][0]):
                    if r[0] == "param":
                        acc.setdefault(r[1], {}).setdefault(nm, []).append(bi)
        for pi, d in sorted(acc.items()):
            if "dnum" not in d or "base2k" not in d:
                continue
            mul = None
            for blk in f.blocks:
                for st in blk["s"]:
                    if st[0] == "A" and st[2]["k"] == "Bin" and st[2].get("op", "").startswith("Mul"):
                        for o in st[2]["o"]:
                            if any(r[0] == "call" and r[1] in d["base2k"] for r in flow.op_roots(o)):
                                mul = st[3] if len(st) > 3 else None
            if mul is None and not any(True for _ in ()):
                continue
            n += 1
            pn = f.param_names()
            if "dsize" in d:
                res.ok("DSZ-1", {"fn": f.pretty, "object": pn.get(pi)})
            else:
                res.bad("DSZ-1", f.pretty, "row-gadget-without-dsize(%s)" % pn.get(pi),
                        "%s computes positions for the rows of `%s` from its base2k() and dnum() and never reads its dsize(): for dsize > 1 the values land at (i + 1) * base2k "
                        "instead of (i + 1) * dsize * base2k" % (f.pretty, pn.get(pi)), site=f.where(mul))
    return n


def bit3(p, res):
    """butterfly networks over the bits of an encrypted index (blind retrieval, forward and reverse): the conditional swap at distance 2^e is controlled by bit e of the selected
    sub-field, i.e. by stored bit  bit_rsh + e:  for every `get_bit(k)` and every stride `1 << e` of the same function,  k - e == bit_rsh  (identity in the loop variables)"""
    from . import pwl
    from .cfg import Flow
    from .sym import Sym, Poly
    n = 0
    for f in sorted(p.lib_fns(), key=lambda x: x.uid):
        if f.kind == "Closure" or not f.blocks or not f.uid.startswith("poulpy_bin_fhe::bdd_arithmetic"):
            continue
        pn = {v: k for k, v in f.param_names().items()}
        if "bit_rsh" not in pn:
            continue
        gets = [(bi, t) for bi, t in f.calls() if (f.callee_def(t) or {}).get("n") == "get_bit" and len(t["a"]) == 2]
        swaps = [(bi, t) for bi, t in f.calls() if (f.callee_def(t) or {}).get("n") in ("cswap", "cmux", "cmux_assign", "cmux_assign_neg")]
        shls = []
        for blk in f.blocks:
            for st in blk["s"]:
                if st[0] == "A" and st[2]["k"] == "Bin" and st[2].get("op", "").replace("WithOverflow", "").replace("Unchecked", "") == "Shl" and st[2]["o"][0][0] == "k" and st[2]["o"][0][1].get("v") == 1:
                    shls.append(st)
        if not gets or not swaps or not shls:
            continue
        n += 1
        sym = Sym(f, Flow(f))
        R = Poly.atom(("p", pn["bit_rsh"], ()))
        if "bit_lsh" in pn:
            # the selected sub-field is re-scaled by 2^bit_lsh: stage e = i + bit_lsh is controlled by stored bit i + bit_rsh
            R = R - Poly.atom(("p", pn["bit_lsh"], ()))
        bad = None
        pts = 0
        for _, tg in gets:
            k = sym.operand(tg["a"][1])
            for st in shls:
                e = sym.operand(st[2]["o"][1])
                for val in pwl.valuations(count=800, hi=9):
                    ev = pwl.Eval(p, val)
                    ev.syms[f.uid] = sym
                    try:
                        kv, evv, rv = ev.poly(k), ev.poly(e), ev.poly(R)
                    except pwl.ErrPath:
                        continue
                    if evv < 0 or kv < 0:
                        continue        # loop variables outside their range
                    pts += 1
                    if kv - evv != rv and bad is None:
                        bad = {"bit": kv, "log2_stride": evv, "bit_rsh": rv, "bit_expr": repr(k), "stride_expr": "1 << (%r)" % e}
        if bad:
            res.bad("BIT-3", f.pretty, "stride-bit-pairing",
                    "%s swaps at distance 2^%d under stored bit %d with bit_rsh = %d: the butterfly stage of distance 2^e must be controlled by bit bit_rsh + e (bit = `%s`, stride = `%s`)"
                    % (f.pretty, bad["log2_stride"], bad["bit"], bad["bit_rsh"], bad["bit_expr"], bad["stride_expr"]), site=f.where(), detail=bad)
        elif pts >= 200:
            res.ok("BIT-3", {"fn": f.pretty, "law": "get_bit index - log2(stride) == bit_rsh"})
        else:
            res.undec("BIT-3", "%s: too few admissible points" % f.pretty)
    return n


def rot3(p, res):
    """an in-place rotation inside a loop, applied to an object that lives across the iterations (taken / bound outside the loop, not selected by the loop variable),
    accumulates: after i iterations the object is rotated by the sum of the exponents.  Walking a buffer through equally spaced positions therefore takes a loop-invariant
    exponent; an exponent that depends on the loop variable (`-(i * gap)`) lands on the triangular numbers (gap, 3 gap, 6 gap, ...)."""
    from .cfg import CFG, Flow
    from .sym import Sym
    from .rad import _deep_atoms
    n = 0
    for f in sorted(p.lib_fns(), key=lambda x: x.uid):
        if f.is_test() or not f.blocks or "test_suite" in f.uid or not f.uid.startswith(("poulpy_core", "poulpy_bin_fhe", "poulpy_ckks")):
            continue
        g = None
        for bi, t in f.calls():
            nm = (f.callee_def(t) or {}).get("n", "")
            if not ("rotate" in nm and nm.endswith(("_assign", "_inplace"))) or len(t["a"]) < 3:
                continue
            g = g or CFG(f)
            L = g.innermost_loop(bi)
            if L is None:
                continue
            flow = Flow(f)
            # the rotated object: the first `&mut` argument after the exponent
            obj = t["a"][2]
            roots = flow.op_roots(obj)
            carried = bool(roots) and all(r[0] == "param" or (r[0] in ("call", "agg", "other", "bin") and r[1] >= 0 and r[1] not in L["body"]) for r in roots)
            if not carried:
                continue
            n += 1
            # loop variables: results of `next` inside this loop (and the loops around it that do not contain the object's definition)
            vars_ = set()
            for l in g.loops():
                if bi in l["body"] and all(r[0] == "param" or r[1] not in l["body"] for r in roots):
                    for b2 in l["body"]:
                        t2 = f.blocks[b2]["t"]
                        if t2 and t2["k"] == "Call" and (f.callee_def(t2) or {}).get("n") == "next":
                            vars_.add(b2)
            k = Sym(f, Flow(f)).operand(t["a"][1])
            dep = [a for a in _deep_atoms(k) if a[0] == "call" and a[1] == f.uid and a[2] in vars_]
            if dep:
                res.bad("ROT-3", f.pretty, "accumulating-rotation-by-loop-variable:%s" % nm,
                        "%s rotates an object that lives across the iterations in place by %r, which depends on the loop variable: in-place rotations accumulate, so iteration i leaves "
                        "the object at the sum of the exponents so far (gap, 3 gap, 6 gap, ...) instead of i * gap" % (f.pretty, k), site=f.where(t["l"]))
            else:
                res.ok("ROT-3", {"fn": f.pretty, "rotation": nm, "exponent": repr(k)})
    return n


def ret1(p, res):
    """typestate of the blind retriever: `flush` hands out the result and leaves the object empty - on every returning path it passes through a full reset (a loop over the whole
    `accumulators` vector storing 0 into every `num`, and `counter = 0`).  An accumulator that keeps `num != 0` makes the next batch select against the previous batch's data."""
    from .cfg import CFG, Flow
    from . import sc
    fns = [f for f in p.lib_fns() if f.blocks and not f.is_test() and "blind_retrieval" in f.uid and "GLWEBlindRetriever" in f.pretty]

    def zero_store(st, field):
        return st[0] == "A" and any(isinstance(e, list) and e[0] == "f" and e[-1] == field for e in st[1][1:]) and st[2]["k"] == "Use" and st[2]["o"][0][0] == "k" and st[2]["o"][0][1].get("v") == 0

    def full_reset(f):
        g = CFG(f)
        flow = Flow(f, transparent=("deref_mut", "deref", "iter_mut", "into_iter", "as_mut_slice", "as_mut"))
        loop_ok = False
        hdrs = set()
        for l in g.loops():
            nx = [b for b in l["body"] if f.blocks[b]["t"] and f.blocks[b]["t"]["k"] == "Call" and (f.callee_def(f.blocks[b]["t"]) or {}).get("n") == "next"]
            if not nx:
                continue
            whole = any(r[0] == "param" and r[1] == 1 and r[2] and r[2][-1] == "accumulators" for r in flow.op_roots(f.blocks[nx[0]]["t"]["a"][0]))
            narrowed = False  # an adaptor or a sub-slice between the vector and the loop would be the root instead of the field
            if whole and not narrowed and any(zero_store(st, "num") for b in l["body"] for st in f.blocks[b]["s"]):
                loop_ok = True
                hdrs.add(l["header"])
        counter_ok = any(zero_store(st, "counter") for blk in f.blocks for st in blk["s"])
        inline[f.uid] = (hdrs, {bi for bi, blk in enumerate(f.blocks) if any(zero_store(st, "counter") for st in blk["s"])})
        return loop_ok and counter_ok
    inline = {}
    resets = {f.uid for f in fns if full_reset(f)}
    n = 0
    for f in sorted(fns, key=lambda x: x.uid):
        if f.name != "flush":
            continue
        n += 1
        if not resets:
            res.bad("RET-1", f.pretty, "no-full-reset", "no method of the retriever stores 0 into every accumulator's `num` and into `counter`: nothing can leave the object empty", site=f.where())
            continue
        g = CFG(f)
        hits = {bi for bi, t in f.calls() if any(u in resets for u in p.targets(f, t))}
        paths = sc.returning_paths(f, g, cap=400) or []
        if not paths:
            res.undec("RET-1", "%s: paths not enumerable" % f.pretty)
            continue
        ih, ic = inline.get(f.uid, (set(), set()))
        miss = [pa for pa in paths if not any(b in hits for b in pa) and not (any(b in ih for b in pa) and any(b in ic for b in pa))]
        if miss:
            res.bad("RET-1", f.pretty, "flush-without-reset", "%s returns on a path that does not pass through a full reset of the accumulators (`num = 0` for every accumulator, `counter = 0`): "
                    "a level that received a single carry keeps `num == 1` and the next batch is selected against this batch's data" % f.pretty, site=f.where())
        else:
            res.ok("RET-1", {"fn": f.pretty, "paths": len(paths), "reset": sorted(resets)})
    return n


def run(res, tier):
    from . import c13, c20
    res_level = "other"
    c13.run(res, tier)
    res.level = res_level
    res.explanation = ("Only the bit placement and the table / thread bindings of C15 are decided: UnsignedInteger::bit_index is, for every word type, a permutation of [0, BITS) with the byte "
                       "stride the trace relies on (exhaustive interpretation of the function's MIR with each impl's associated constants); the associated constants are consistent; every "
                       "shipped u32 circuit computes its word function for all 2^64 inputs and each word operation is bound to its table (the C13 proof, shared); the multi-threaded "
                       "evaluators and the preparation windows address every bit exactly once (THR-4 / THR-6 / THR-7, shared with C20). Bootstrapping, noise, key-switching and the "
                       "homomorphic pipeline are not decided.")
    res.rule("BIT-1", "bit_index is a permutation of [0, BITS) placing bit t of byte b at b + t * 2^LOG_BYTES, for every implementing type")
    res.rule("BIT-2", "LOG_BITS / LOG_BYTES / LOG_BYTES_MASK of every impl are consistent with BITS")
    res.rule("DSZ-1", "a function that places row gadgets of a matrix ciphertext from its base2k() and dnum() reads its dsize()")
    res.rule("BIT-3", "blind retrieval butterflies: the stage of distance 2^e is controlled by stored bit bit_rsh + e (forward and reverse networks)")
    res.rule("SIGN-2", "a loop rotating by a step that depends on its variable is not left on a comparison of the step with N (X^N = -1; only 2N is the identity)")
    res.rule("ROT-3", "an in-place rotation of an object that lives across the iterations of a loop takes a loop-invariant exponent (in-place rotations accumulate)")
    res.rule("RET-1", "the blind retriever's flush passes through a full reset (every accumulator's num, the counter) on every returning path")
    res.rule("THR-4", "exact partition of the work items of the multi-threaded evaluators")
    res.rule("THR-6", "window parameters keep their role across forwarding calls")
    res.rule("THR-7", "an empty set of work items is handled")
    res.assumptions += ["cmux / circuit bootstrapping / trace compute what C04 / C14 / C03 state (not decided)"]
    cfgs = ["avx-dev"] if tier == "quick" else ["avx-dev", "ref-dev"]
    for cfg in cfgs:
        p = facts.load(cfg)
        n = bit1(p, res)
        res.floor("BIT-1", "UnsignedInteger impls", n, 5)
        nd = dsz1(p, res)
        res.floor("DSZ-1", "functions placing row gadgets", nd, 3)
        n3 = bit3(p, res)
        res.floor("BIT-3", "blind retrieval butterfly networks", n3, 2)
        nr3 = rot3(p, res)
        res.floor("ROT-3", "in-place rotations of loop-carried objects", nr3, 2)
        from . import sign
        nse = sign.check_rotation_loop_exits(p, res, "SIGN-2", ("poulpy_bin_fhe", "poulpy_core"))
        res.floor("SIGN-2", "loops rotating by a step that depends on the loop variable", nse, 1)
        nr1 = ret1(p, res)
        res.floor("RET-1", "flush methods of the blind retriever", nr1, 1)
        c20.thr4(p, res)
        n6 = c20.thr6(p, res)
        res.floor("THR-6", "window arguments forwarded by name", n6, 4)
        n7 = c20.thr7(p, res)
        res.floor("THR-7", "chunked work partitions", n7, 2)
