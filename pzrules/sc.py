"""Symbolic scratch accounting (rule SC-1): demand of an operation vs supply declared by its companion size query.

Both sides are max-plus expressions over *size atoms* ("sz", kind, args) / ("q", query-name, args); HAL queries are
uninterpreted, so demand <= supply is decided as inclusion of every demand monomial in some supply monomial (kinds first,
arguments where both sides are comparable)."""
import re

from .cfg import CFG, Flow
from .sym import Sym, Poly


def snake(n):
    s = re.sub(r"([a-z0-9])([A-Z])", r"\1_\2", n)
    s = re.sub(r"([A-Z]+)([A-Z][a-z])", r"\1_\2", s)
    return s.lower()


class PathFlow(Flow):
    """Flow restricted to the definitions that lie on one path (last definition on the path wins)."""

    def __init__(self, fn, path, transparent=()):
        super().__init__(fn, transparent)
        pos = {b: i for i, b in enumerate(path)}
        self.pos = pos
        self.all_defs = {}   # locals defined more than once on the path: every definition, in path order (Sym reads the one that precedes the reader)
        for l in list(self.defs):
            ds = [d for d in self.defs[l] if d[1] in pos]
            if len(ds) > 1:
                ds.sort(key=self.order)
                self.all_defs[l] = ds
                ds = [ds[-1]]
            self.defs[l] = ds

    def order(self, d):
        return (self.pos[d[1]], d[2] if d[0] == "stmt" else 1 << 20)


class SizeSym(Sym):
    """Sym with struct literals as record atoms and size queries / takes canonicalised."""

    def __init__(self, fn, flow, prog, **kw):
        super().__init__(fn, flow, **kw)
        self.prog = prog

    def rvalue(self, rv, path, depth, bi, si):
        if rv["k"] == "Agg" and rv.get("ak") == "Adt" and not path:
            names = rv.get("fields") or []
            if names and len(names) <= 8 and rv.get("variant") not in ("Some", "Ok", "Err"):
                fields = tuple((n, self.operand(o, (), depth + 1).key()) for n, o in zip(names, rv["o"]))
                return Poly.atom(("rec", self.fn.d(rv["adt"])["p"].rsplit("::", 1)[-1], fields))
        return super().rvalue(rv, path, depth, bi, si)

    def call(self, bb, t, path, depth):
        fn = self.fn
        d = fn.callee_def(t) or {}
        name = d.get("n", "")
        a = size_atom(fn, d, t, lambda op: self.operand(op, (), depth + 1))
        if a is not None and not path:
            return Poly.atom(a)
        return super().call(bb, t, path, depth)


def strip_generics(p):
    out = []
    depth = 0
    for ch in p:
        if ch == "<":
            depth += 1
        elif ch == ">":
            depth -= 1
        elif depth == 0:
            out.append(ch)
    return "".join(out).replace("::::", "::")


def self_adt_name(fn, t):
    d = fn.callee_def(t) or {}
    p = strip_generics(d.get("p", ""))
    parts = [x for x in p.split("::") if x]
    if len(parts) >= 2:
        return parts[-2]
    return None


def is_receiver(fn, a):
    if a[0] in ("c", "m"):
        s = fn.local_ty(a[1][0])["s"]
        return "Module<" in s or s in ("&Self", "&M", "&mut Self") or s.endswith("Scratch<BE>") or "Scratch<" in s
    return False


def size_atom(fn, d, t, ev):
    """canonical atom for a size query call, or None"""
    name = d.get("n", "")
    args = [a for a in t["a"] if not is_receiver(fn, a)]
    if name.startswith("bytes_of_") and name not in ("bytes_of_from_infos",):
        return ("sz", name[len("bytes_of_"):], tuple(ev(a).key() for a in args))
    if name in ("bytes_of", "bytes_of_from_infos"):
        adt = self_adt_name(fn, t)
        if adt:
            return ("sz", snake(adt), tuple(ev(a).key() for a in args))
    if name.endswith("_tmp_bytes") or name.endswith("_tmp_bytes_default"):
        n = name[: -len("_default")] if name.endswith("_default") else name
        return ("q", n, tuple(ev(a).key() for a in args))
    return None


def returning_paths(fn, g, cap=256, unroll=1, dowhile=True):
    """paths entry -> Return; each loop body is traversed `unroll` times (a back edge beyond that continues at the loop's exits).
    Returns list of block tuples (blocks may repeat when unroll > 1)."""
    dom = g.dom()
    out = []
    budget = [cap]
    cr = g.can_return()
    loops = {l["header"]: l for l in g.loops()}

    def walk(b, acc, onpath, visits):
        if budget[0] <= 0:
            return
        acc = acc + (b,)
        if b in g.returns:
            budget[0] -= 1
            out.append(acc)
            return
        succs = [s for s in g.succ[b] if s in cr]
        lp = g.innermost_loop(b)
        if lp is not None and len(succs) > 1 and g._straight_from(lp["header"], b, lp):
            inside = [s for s in succs if s in lp["body"]]
            # do-while abstraction on the first traversal; on later traversals both continuing and leaving are possible
            if dowhile and inside and visits.get(lp["header"], 1) <= 1:
                succs = inside
        for s2 in succs:
            if s2 in dom.get(b, ()):  # back edge to loop header s2
                l = loops.get(s2)
                if l is None:
                    continue
                v = visits.get(s2, 1)
                if v < unroll:
                    v2 = dict(visits)
                    v2[s2] = v + 1
                    walk(s2, acc, (onpath - set(l["body"])) | {s2}, v2)
                for (x, y) in l["exits"]:
                    if y not in onpath and y in cr:
                        walk(y, acc, onpath | {y}, visits)
                continue
            if s2 in onpath:
                continue
            walk(s2, acc, onpath | {s2}, visits)

    walk(0, (), {0}, {})
    if budget[0] <= 0:
        return None
    return out


def path_conditions(fn, g, path, sym):
    """list of (key, taken) for two-way switches on the path whose both arms can return"""
    cr = g.can_return()
    conds = []
    nxt = {path[i]: path[i + 1] for i in range(len(path) - 1)}
    flow = sym.flow
    for b in path:
        t = fn.blocks[b]["t"]
        if not t or t["k"] != "Switch" or b not in nxt:
            continue
        arms = [x for _, x in t["ts"]] + [t["else"]]
        if sum(1 for x in set(arms) if x in cr) < 2:
            continue
        key = None
        for r in flow.op_roots(t["o"]):
            if r[0] == "bin":
                st = fn.blocks[r[1]]["s"][r[2]][2]
                if st["op"] in ("Eq", "Ne", "Lt", "Le", "Gt", "Ge"):
                    key = ("cmp", st["op"], sym.operand(st["o"][0]).key(), sym.operand(st["o"][1]).key())
            elif r[0] == "call":
                t2 = fn.blocks[r[1]]["t"]
                n = (fn.callee_def(t2) or {}).get("n")
                if n in ("eq", "ne") and len(t2["a"]) == 2:
                    key = ("cmp", "Eq" if n == "eq" else "Ne", sym.operand(t2["a"][0]).key(), sym.operand(t2["a"][1]).key())
                elif n in ("is_some", "is_none", "is_empty"):
                    key = ("pred", n, sym.operand(t2["a"][0]).key())
            elif r[0] == "other" and r[1] >= 0:
                st = fn.blocks[r[1]]["s"][r[2]][2]
                if st["k"] == "Disc":
                    key = ("disc", sym.place(st["p"]).key())
        if key is None:
            key = ("sw", fn.uid, b)
        # which arm
        taken = None
        for v, x in t["ts"]:
            if x == nxt[b]:
                taken = v
        if taken is None:
            taken = "else"
        conds.append((key, taken))
    return conds


def norm_cond(key, taken):
    """canonical (relation, a, b) with truth value folded in, order-normalised"""
    if key[0] != "cmp":
        return (key, taken)
    op, a, b = key[1], key[2], key[3]
    truth = taken != 0  # switch on bool: 0 -> false arm
    if not truth:
        op = {"Eq": "Ne", "Ne": "Eq", "Lt": "Ge", "Ge": "Lt", "Le": "Gt", "Gt": "Le"}[op]
    if repr(a) > repr(b):
        a, b = b, a
        op = {"Eq": "Eq", "Ne": "Ne", "Lt": "Gt", "Gt": "Lt", "Le": "Ge", "Ge": "Le"}[op]
    return ("cmp", op, a, b)


def contradict(c1, c2):
    """two normalised conditions over the same operands that cannot both hold"""
    if c1[0] != "cmp" or c2[0] != "cmp" or c1[2:] != c2[2:]:
        return False
    a, b = c1[1], c2[1]
    bad = {("Eq", "Ne"), ("Eq", "Lt"), ("Eq", "Gt"), ("Lt", "Gt"), ("Lt", "Ge"), ("Gt", "Le"), ("Lt", "Eq"), ("Gt", "Eq")}
    return (a, b) in bad or (b, a) in bad


# ------------------------------------------------------------------ normal form
def dnf(poly, depth=0):
    """Poly (with max atoms) -> list of monomials; monomial = dict term -> coef, term = tuple(sorted atoms)"""
    out = [dict()]
    for mono, c in poly.t.items():
        # expand product of atoms; max atoms distribute
        alts = [((), c)]
        for a in mono:
            if a[0] == "f" and a[1] == "max" and len(a[2]) == 2 and len(a) == 3:
                subs = dnf(Poly(dict(a[2][0])), depth + 1) + dnf(Poly(dict(a[2][1])), depth + 1)
                new = []
                for pre, cc in alts:
                    for sm in subs:
                        new.append((pre + (("sum", tuple(sorted(sm.items(), key=repr))),), cc))
                alts = new
            else:
                alts = [(pre + (a,), cc) for pre, cc in alts]
        # each alternative contributes one term to the sum: cartesian with current out
        new_out = []
        for m in out:
            for pre, cc in alts:
                m2 = dict(m)
                # a single ("sum", ...) factor with coefficient 1 and no other atoms: merge the inner sum
                if len(pre) == 1 and pre[0][0] == "sum" and cc == 1:
                    for term, c2 in pre[0][1]:
                        m2[term] = m2.get(term, 0) + c2
                else:
                    k = tuple(sorted(pre, key=repr))
                    m2[k] = m2.get(k, 0) + cc
                new_out.append(m2)
        out = new_out
        if len(out) > 4096:
            raise OverflowError("dnf too large")
    return out


def atom_kind(a):
    if a[0] in ("sz", "q"):
        return (a[0], a[1])
    if a[0] == "sum":
        return ("sum",)
    if a[0] == "f":
        return ("f", a[1])
    if a[0] == "p":
        return ("p",)
    if a[0] == "const":
        return ("const", a[1])
    return (a[0],)


def term_kind(term):
    """multiset of size-atom kinds in a product term; scalar factors (params, accessors) are ignored at kind level"""
    ks = []
    for a in term:
        k = atom_kind(a)
        if k[0] in ("sz", "q"):
            ks.append(k)
        elif k[0] == "sum":
            ks.append(("sum", tuple(sorted(set(kk for t2, _ in a[1] for kk in term_kind(t2))))))
    return tuple(sorted(ks, key=repr))


def mono_kinds(m):
    """multiset (as sorted tuple) of term kinds with positive coefficient; terms without size atoms (pure numbers) dropped"""
    out = []
    for term, c in m.items():
        tk = term_kind(term)
        if tk and c > 0:
            # an integer coefficient stands for that many simultaneous temporaries of the kind (2 * n * bytes_of(ct))
            out.extend([tk] * (int(c) if isinstance(c, int) and 1 <= c <= 8 else 1))
    return sorted(out, key=repr)


def covers_kind(sup, dem):
    """every term kind of `dem` (with multiplicity) is present in `sup`"""
    s = list(mono_kinds(sup))
    for k in mono_kinds(dem):
        if k in s:
            s.remove(k)
        else:
            return False, k
    return True, None


def rename_atoms(obj, mapping):
    """substitute ("p", i, path) atoms inside nested keys/atoms using mapping[i] -> replacement atom builder"""
    if isinstance(obj, tuple):
        if len(obj) == 3 and obj[0] == "p" and isinstance(obj[1], int):
            if obj[1] in mapping:
                base = mapping[obj[1]]
                if base is None:
                    return ("p", -obj[1], obj[2])
                return base + (obj[2],) if False else (base[0], base[1], tuple(base[2]) + tuple(obj[2]))
            return ("p", -1000 - obj[1], obj[2])
        return tuple(rename_atoms(x, mapping) for x in obj)
    return obj
