"""SIGN-1: operand-sign discipline of subtraction / addition families.

In `res = a - b` every write of the result that takes data from the subtrahend `b` alone must go through a negation kernel, a write from the
minuend `a` alone must not negate, and a write from both must be a subtraction with `a` before `b`.  Applies to HAL shape functions and core
operations whose operands are named (res, a, b)."""
from .cfg import Flow

VIEW = ("to_ref", "to_mut", "data", "data_mut", "deref", "deref_mut", "as_ref", "as_mut", "borrow", "borrow_mut", "at", "at_mut", "raw", "raw_mut", "as_vec_znx",
        "as_vec_znx_mut", "into", "from", "clone", "index", "index_mut")


def family(name):
    n = name
    for suf in ("_default", "_ref", "_avx"):
        if n.endswith(suf):
            n = n[: -len(suf)]
    for pre in ("ntt120_", "fft64_"):
        if n.startswith(pre):
            n = n[len(pre):]
    if n.endswith("_assign") or "negate" in n or "scalar" in n or "normal" in n or "tmp_bytes" in n or "lsh" in n or "rsh" in n or "mul" in n:
        return None
    if n in ("vec_znx_sub", "vec_znx_big_sub", "vec_znx_big_sub_small_a", "vec_znx_big_sub_small_b", "vec_znx_dft_sub", "glwe_sub"):
        return "sub"
    if n in ("vec_znx_add_into", "vec_znx_big_add_into", "vec_znx_big_add_small_into", "vec_znx_dft_add_into", "glwe_add_into"):
        return "add"
    return None


def check(p, res, rule, prefixes):
    n = 0
    for f in sorted(p.lib_fns(), key=lambda x: x.uid):
        if f.kind == "Closure" or not f.uid.startswith(prefixes) or f.is_test():
            continue
        fam = family(f.name)
        if fam is None:
            continue
        pn = {v: k for k, v in f.param_names().items()}
        if not all(k in pn for k in ("res", "a", "b")):
            continue
        pa, pb, pr = pn["a"], pn["b"], pn["res"]
        flow = Flow(f, transparent=VIEW)
        bodies = [(f, flow, None)]
        n += 1
        ok_here = True
        for bi, t in f.calls():
            d = f.callee_def(t) or {}
            cn = d.get("n", "")
            if cn in VIEW or not d.get("u", "").startswith("poulpy_") or cn in ("n", "size", "cols", "rank", "base2k", "max_k", "k"):
                continue
            writes_res = False
            srcs = []  # per argument: set of {"a","b"}
            for ai, a in enumerate(t["a"]):
                if a[0] not in ("c", "m"):
                    continue
                rr = flow.op_roots(a)
                ps = {r[1] for r in rr if r[0] == "param"}
                ty = f.local_ty(a[1][0])
                if pr in ps and ty.get("r", "").startswith("&mut"):
                    writes_res = True
                    continue
                s = set()
                if pa in ps:
                    s.add("a")
                if pb in ps:
                    s.add("b")
                if s and "usize" != ty.get("s"):
                    srcs.append((ai, s))
            if not writes_res or not srcs:
                continue
            low = cn.lower()
            # enumerate the possible (single-operand) interpretations of ambiguous arguments
            msgs = []
            if len(srcs) == 1:
                for which in sorted(srcs[0][1]):
                    if fam == "sub" and which == "b" and "neg" not in low and "sub" not in low:
                        msgs.append("writes the result from the subtrahend `b` alone through `%s`, which does not negate" % cn)
                    if which == "a" and "neg" in low:
                        msgs.append("writes the result from `a` alone through the negating `%s`" % cn)
                    if fam == "add" and which == "b" and "neg" in low:
                        msgs.append("writes the result from `b` alone through the negating `%s`" % cn)
            else:
                allsrc = set().union(*[s for _, s in srcs])
                if allsrc == {"a", "b"}:
                    if fam == "sub" and "sub" not in low:
                        msgs.append("combines `a` and `b` through `%s` (not a subtraction)" % cn)
                    if fam == "add" and "add" not in low:
                        msgs.append("combines `a` and `b` through `%s` (not an addition)" % cn)
                    if fam == "sub":
                        # order: first data operand must be `a`
                        first = srcs[0][1]
                        if first == {"b"} and "small_b" not in f.name and "sub_negate" not in low:
                            # x - y kernels take (res, a, b): `b` before `a` flips the sign
                            msgs.append("passes `b` before `a` to `%s`" % cn)
            for m in msgs:
                ok_here = False
                res.bad(rule, f.pretty, "operand-sign:%s" % cn, "%s (computes %s): %s" % (f.pretty, "a - b" if fam == "sub" else "a + b", m), site=f.where(t["l"]))
        if ok_here:
            res.ok(rule, {"fn": f.pretty, "family": fam} if n % 5 == 1 else None)
    return n


# ------------------------------------------------------------------ SIGN-2
def check_negacyclic(p, res, rule, prefixes):
    """negacyclic split kernels (multiplication by X^p): a path that writes the result with sign-preserving primitives only must be decided by the
    residue of p modulo 2N, not by the residue modulo N alone (X^N = -1)."""
    from . import sc
    from .cfg import CFG
    from .sym import Sym
    n = 0

    def residues(poly, acc):
        for a in poly.atoms():
            walk(a, acc)

    def is_mask2n(key):
        # 2*len - 1: some monomial with coefficient 2 (or -2 when written as 1 - 2n)
        return any(abs(c) == 2 for mono, c in key if mono)

    def walk(a, acc, under_mask=False):
        if not isinstance(a, tuple):
            return
        if len(a) >= 3 and a[0] == "f" and a[1] == "BitAnd":
            x, m = a[2]
            if is_mask2n(m) or is_mask2n(x):
                acc.add(("2n", under_mask))
                return
            # a further mask (n - 1) hides the 2N residue below it
            for k in a[2]:
                for mono, c in k:
                    for b in mono:
                        walk(b, acc, True)
            return
        if len(a) >= 3 and a[0] == "f":
            for k in a[2]:
                if isinstance(k, tuple):
                    for item in k:
                        if isinstance(item, tuple) and len(item) == 2 and isinstance(item[0], tuple):
                            for b in item[0]:
                                walk(b, acc, under_mask)

    for f in sorted(p.lib_fns(), key=lambda x: x.uid):
        if f.kind == "Closure" or not f.uid.startswith(prefixes):
            continue
        pol = {}
        for bi, t in f.calls():
            cn = (f.callee_def(t) or {}).get("n", "")
            if cn in ("znx_copy", "znx_negate"):
                pol[bi] = cn
        if set(pol.values()) != {"znx_copy", "znx_negate"}:
            continue
        flow = Flow(f)
        sym = Sym(f, flow)
        # does the function compute a 2N residue at all?
        has2n = False
        for b in f.blocks:
            for s in b["s"]:
                if s[0] == "A" and s[2]["k"] == "Bin" and s[2]["op"] == "BitAnd":
                    acc = set()
                    residues(sym.operand(s[2]["o"][0]), acc)
                    residues(sym.operand(s[2]["o"][1]), acc)
                    k1 = sym.operand(s[2]["o"][1]).key()
                    k0 = sym.operand(s[2]["o"][0]).key()
                    if is_mask2n(k0) or is_mask2n(k1):
                        has2n = True
        if not has2n:
            continue
        n += 1
        g = CFG(f)
        paths = sc.returning_paths(f, g, cap=256)
        if not paths:
            res.undec(rule, "%s: paths not enumerable" % f.pretty)
            continue
        bad = None
        for path in paths:
            kinds = {pol[b] for b in path if b in pol}
            if kinds != {"znx_copy"} and kinds != {"znx_negate"}:
                continue
            decided = False
            nxt = {path[i]: path[i + 1] for i in range(len(path) - 1)}
            for b in path:
                t = f.blocks[b]["t"]
                if not t or t["k"] != "Switch" or b not in nxt:
                    continue
                for r in flow.op_roots(t["o"]):
                    if r[0] != "bin":
                        continue
                    st = f.blocks[r[1]]["s"][r[2]][2]
                    for o in st["o"]:
                        acc = set()
                        residues(sym.operand(o), acc)
                        if ("2n", False) in acc:
                            decided = True
            if not decided:
                bad = (sorted(kinds)[0], path)
                break
        if bad:
            res.bad(rule, f.pretty, "one-polarity-path:%s" % bad[0],
                    "%s has a path that writes the result with %s only and is not decided by a test on the residue of the exponent modulo 2N (only modulo N): X^N = -1, "
                    "so exponents congruent to N need the opposite sign" % (f.pretty, bad[0]), site=f.where())
        else:
            res.ok(rule, {"fn": f.pretty, "paths": len(paths)})
    return n


def check_rotation_skips(p, res, rule, prefixes):
    """functions that take a rotation exponent and hand it to a rotation kernel: a returning path that skips the kernel because of a test on the
    exponent must test its residue modulo 2N (mask 2n-1), not modulo N"""
    from . import sc
    from .cfg import CFG
    from .sym import Sym
    n = 0

    def mask2n(key):
        return any(abs(c) == 2 for mono, c in key if mono)

    def mentions(a, pidx, depth=0):
        if depth > 12 or not isinstance(a, tuple):
            return False
        if len(a) == 3 and a[0] == "p" and a[1] == pidx:
            return True
        return any(mentions(x, pidx, depth + 1) for x in a if isinstance(x, tuple))

    def residue_kind(poly, pidx):
        """'2n' | 'n' | 'raw' | None: how the exponent enters a compared value"""
        kinds = set()
        for a in poly.atoms():
            if not mentions(a, pidx):
                continue
            if a[0] == "f" and a[1] == "BitAnd" and len(a[2]) == 2:
                x, m = a[2]
                if mask2n(m) or mask2n(x):
                    kinds.add("2n")
                else:
                    kinds.add("n")
            elif a[0] == "f" and a[1] in ("Rem", "rem_euclid", "wrapping_rem_euclid") and len(a[2]) == 2:
                kinds.add("2n" if twice(a[2][1]) else "n")
            elif a[0] == "p":
                kinds.add("raw")
            else:
                kinds.add("other")
        return kinds

    def twice(key):
        return mask2n(key) or any(isinstance(x, tuple) and len(x) > 1 and x[0] == "f" and x[1] == "Shl" for mono, c in key for x in (mono or ()))

    def call_residue(f, sym, poly, pidx):
        """the exponent reduced by a call: `k.rem_euclid(m)` - modulo 2N when m is twice something, modulo N otherwise"""
        kinds = set()
        for a in poly.atoms():
            if a[0] != "call" or a[1] != f.uid:
                continue
            t = f.blocks[a[2]]["t"]
            if (f.callee_def(t) or {}).get("n") not in ("rem_euclid", "wrapping_rem_euclid", "rem", "checked_rem_euclid") or len(t["a"]) != 2:
                continue
            x, m = sym.operand(t["a"][0]), sym.operand(t["a"][1])
            if any(mentions(b, pidx) for b in x.atoms()):
                kinds.add("2n" if twice(m.key()) else "n")
        return kinds

    for f in sorted(p.lib_fns(), key=lambda x: x.uid):
        if f.kind == "Closure" or not f.uid.startswith(prefixes):
            continue
        pn = f.param_names()
        exps = [l for l, nm in pn.items() if nm in ("p", "k") and f.local_ty(l)["s"] == "i64"]
        if not exps:
            continue
        rot = {bi for bi, t in f.calls() if "rotate" in (f.callee_def(t) or {}).get("n", "")}
        if not rot:
            continue
        pidx = exps[0]
        n += 1
        g = CFG(f)
        paths = sc.returning_paths(f, g, cap=256)
        if not paths:
            res.undec(rule, "%s: paths not enumerable" % f.pretty)
            continue
        flow = Flow(f)
        sym = Sym(f, flow)
        bad = None
        for path in paths:
            if any(b in rot for b in path):
                continue
            kinds = set()
            for b in path:
                t = f.blocks[b]["t"]
                if not t or t["k"] != "Switch":
                    continue
                for r in flow.op_roots(t["o"]):
                    if r[0] != "bin":
                        continue
                    st = f.blocks[r[1]]["s"][r[2]][2]
                    for o in st["o"]:
                        kinds |= residue_kind(sym.operand(o), pidx)
                        kinds |= call_residue(f, sym, sym.operand(o), pidx)
            if "n" in kinds and "2n" not in kinds:
                bad = path
                break
        if bad:
            res.bad(rule, f.pretty, "skip-decided-modulo-N",
                    "%s returns without calling its rotation kernel on a path decided by the exponent modulo N only: exponents congruent to N modulo 2N need the negated result (X^N = -1)" % f.pretty,
                    site=f.where())
        else:
            res.ok(rule, {"fn": f.pretty, "paths": len(paths), "rotation_calls": len(rot)} if n % 5 == 1 else None)
    return n


def check_rotation_loop_exits(p, res, rule, prefixes):
    """loops that rotate by a step depending on the loop variable (X^(2^(i + lsh)) per selector bit): a `break` decided by comparing that step with the ring degree stops
    one doubling too early - X^N = -1 still changes the value, only X^(2N) is the identity.  An exit comparing the step with N (coefficient 1) is a violation, with 2N it
    is accepted."""
    from .cfg import CFG
    from .sym import Sym
    from .rad import _deep_atoms
    n = 0
    for f in sorted(p.lib_fns(), key=lambda x: x.uid):
        if f.kind == "Closure" or f.is_test() or not f.blocks or not f.uid.startswith(prefixes):
            continue
        rot = [(bi, t) for bi, t in f.calls() if "rotate" in (f.callee_def(t) or {}).get("n", "") and len(t["a"]) >= 2]
        if not rot:
            continue
        g = CFG(f)
        flow = Flow(f)
        sym = None
        for L in g.loops():
            nxt = [b for b in L["body"] if f.blocks[b]["t"] and f.blocks[b]["t"]["k"] == "Call" and (f.callee_def(f.blocks[b]["t"]) or {}).get("n") == "next" and g.innermost_loop(b) is L]
            if not nxt:
                continue
            sym = sym or Sym(f, flow)
            var = ("call", f.uid, nxt[0], ("0",))
            dep = [bi for bi, t in rot if bi in L["body"] and var in _deep_atoms(sym.operand(t["a"][1]))]
            if not dep:
                continue
            n += 1
            bad = None
            for b, s2 in L["exits"]:
                t = f.blocks[b]["t"]
                if not t or t["k"] != "Switch" or b == f.blocks[nxt[0]]["t"].get("t"):
                    continue
                for r in flow.op_roots(t["o"]):
                    if r[0] != "bin":
                        continue
                    ops = [sym.operand(o) for o in f.blocks[r[1]]["s"][r[2]][2]["o"]]
                    for x, y in ((ops[0], ops[1]), (ops[1], ops[0])):
                        if var not in _deep_atoms(x):
                            continue
                        deg = [(mono, cf_) for mono, cf_ in y.t.items() if any((a[0] == "f" and a[1] == "n") or (a[0] == "p" and a[2][-1:] == ("n",)) for a in mono)]
                        if deg and all(abs(cf_) == 1 and len(mono) == 1 for mono, cf_ in deg):
                            bad = (t["l"], repr(x), repr(y))
            if bad:
                res.bad(rule, f.pretty, "rotation-loop-stops-at-N", "%s leaves its rotation loop when %s reaches %s: a step of N still rotates by X^N = -1 (the sign changes), only multiples of 2N "
                        "are the identity" % (f.pretty, bad[1], bad[2]), site=f.where(bad[0]))
            else:
                res.ok(rule, {"fn": f.pretty, "loop": L["header"], "rotations": len(dep)})
    return n
