"""SIGN-1: operand-sign discipline of subtraction / addition families.

In `res = a - b` every write of the result that takes data from the subtrahend `b` alone must go through a negation kernel, a write from the
minuend `a` alone must not negate, and a write from both must be a subtraction with `a` before `b`.  Applies to HAL shape functions and core
operations whose operands are named (res, a, b)."""
from .cfg import Flow

VIEW = ("to_ref", "to_mut", "data", "data_mut", "deref", "deref_mut", "as_ref", "as_mut", "borrow", "borrow_mut", "at", "at_mut", "raw", "raw_mut", "as_vec_znx",
        "as_vec_znx_mut", "into", "from", "clone", "index", "index_mut")


def family(name):
    n = name
    for suf in ("_default", "_ref", "_avx"):
        if n.endswith(suf):
            n = n[: -len(suf)]
    for pre in ("ntt120_", "fft64_"):
        if n.startswith(pre):
            n = n[len(pre):]
    if n.endswith("_assign") or "negate" in n or "scalar" in n or "normal" in n or "tmp_bytes" in n or "lsh" in n or "rsh" in n or "mul" in n:
        return None
    if n in ("vec_znx_sub", "vec_znx_big_sub", "vec_znx_big_sub_small_a", "vec_znx_big_sub_small_b", "vec_znx_dft_sub", "glwe_sub"):
        return "sub"
    if n in ("vec_znx_add_into", "vec_znx_big_add_into", "vec_znx_big_add_small_into", "vec_znx_dft_add_into", "glwe_add_into"):
        return "add"
    return None


def check(p, res, rule, prefixes):
    n = 0
    for f in sorted(p.lib_fns(), key=lambda x: x.uid):
        if f.kind == "Closure" or not f.uid.startswith(prefixes) or f.is_test():
            continue
        fam = family(f.name)
        if fam is None:
            continue
        pn = {v: k for k, v in f.param_names().items()}
        if not all(k in pn for k in ("res", "a", "b")):
            continue
        pa, pb, pr = pn["a"], pn["b"], pn["res"]
        flow = Flow(f, transparent=VIEW)
        bodies = [(f, flow, None)]
        n += 1
        ok_here = True
        for bi, t in f.calls():
            d = f.callee_def(t) or {}
            cn = d.get("n", "")
            if cn in VIEW or not d.get("u", "").startswith("poulpy_") or cn in ("n", "size", "cols", "rank", "base2k", "max_k", "k"):
                continue
            writes_res = False
            srcs = []  # per argument: set of {"a","b"}
            for ai, a in enumerate(t["a"]):
                if a[0] not in ("c", "m"):
                    continue
                rr = flow.op_roots(a)
                ps = {r[1] for r in rr if r[0] == "param"}
                ty = f.local_ty(a[1][0])
                if pr in ps and ty.get("r", "").startswith("&mut"):
                    writes_res = True
                    continue
                s = set()
                if pa in ps:
                    s.add("a")
                if pb in ps:
                    s.add("b")
                if s and "usize" != ty.get("s"):
                    srcs.append((ai, s))
            if not writes_res or not srcs:
                continue
            low = cn.lower()
            # enumerate the possible (single-operand) interpretations of ambiguous arguments
            msgs = []
            if len(srcs) == 1:
                for which in sorted(srcs[0][1]):
                    if fam == "sub" and which == "b" and "neg" not in low and "sub" not in low:
                        msgs.append("writes the result from the subtrahend `b` alone through `%s`, which does not negate" % cn)
                    if which == "a" and "neg" in low:
                        msgs.append("writes the result from `a` alone through the negating `%s`" % cn)
                    if fam == "add" and which == "b" and "neg" in low:
                        msgs.append("writes the result from `b` alone through the negating `%s`" % cn)
            else:
                allsrc = set().union(*[s for _, s in srcs])
                if allsrc == {"a", "b"}:
                    if fam == "sub" and "sub" not in low:
                        msgs.append("combines `a` and `b` through `%s` (not a subtraction)" % cn)
                    if fam == "add" and "add" not in low:
                        msgs.append("combines `a` and `b` through `%s` (not an addition)" % cn)
                    if fam == "sub":
                        # order: first data operand must be `a`
                        first = srcs[0][1]
                        if first == {"b"} and "small_b" not in f.name and "sub_negate" not in low:
                            # x - y kernels take (res, a, b): `b` before `a` flips the sign
                            msgs.append("passes `b` before `a` to `%s`" % cn)
            for m in msgs:
                ok_here = False
                res.bad(rule, f.pretty, "operand-sign:%s" % cn, "%s (computes %s): %s" % (f.pretty, "a - b" if fam == "sub" else "a + b", m), site=f.where(t["l"]))
        if ok_here:
            res.ok(rule, {"fn": f.pretty, "family": fam} if n % 5 == 1 else None)
    return n
