"""C17 — safe API never touches memory outside its buffers: the structural invariants the unchecked accessors rely on.

MS-1 every construction site of a layout type re-uses dimensions consistent with the data it wraps (enumerated idioms)
MS-2 dimension fields are mutated only by set_size (guarded by max_size) and the validated readers
MS-7 accessor bound: the raw offset computed by at_ptr/at_mut_ptr stays inside n*cols*size under the unconditional index asserts
MS-3 scratch carving ownership (= SC-5), MS-4 no store through read-only operands (= WR-3), MS-6 handle immutability (= THR-2)
plus SER-1/SER-2 on the leaf readers (objects whose dimensions came from deserialisation)
"""
import re

from . import facts, c11, c12, c18, c20
from .cfg import CFG, Flow
from .sym import Sym, Poly

LAYOUTS = ("VecZnx", "ScalarZnx", "MatZnx", "VecZnxDft", "VecZnxBig", "SvpPPol", "VmpPMat", "CnvPVecL", "CnvPVecR")
DIMS = ("n", "cols", "size", "max_size", "rows", "cols_in", "cols_out")
VIEW = ("as_ref", "as_mut", "deref", "deref_mut", "borrow", "borrow_mut", "to_ref", "to_mut", "into", "from", "data", "data_mut", "clone", "to_vec", "to_owned")


def layout_name(fn, adt_idx):
    return fn.d(adt_idx)["p"].rsplit("::", 1)[-1]


def ms1(p, res):
    n = 0
    for f in sorted(p.lib_fns(), key=lambda x: x.uid):
        if f.is_test() or not f.uid.startswith("poulpy_"):
            continue
        flow = None
        for bi, blk in enumerate(f.blocks):
            if blk["c"]:
                continue
            for s in blk["s"]:
                if not (s[0] == "A" and s[2]["k"] == "Agg" and s[2].get("ak") == "Adt"):
                    continue
                nm = layout_name(f, s[2]["adt"])
                if nm not in LAYOUTS:
                    continue
                n += 1
                flow = flow or Flow(f, transparent=VIEW)
                sym = Sym(f, Flow(f))
                fields = dict(zip(s[2]["fields"], s[2]["o"]))
                dpoly = {k: sym.operand(v) for k, v in fields.items() if k in DIMS}
                data = fields.get("data")
                droots = flow.op_roots(data) if data is not None else set()
                verdict = None
                why = ""
                # (c)/(g) re-view of another layout object: data comes from `<param>.data`, every dimension is that object's accessor/field
                owners = {r[1] for r in droots if r[0] == "param" and r[2][-1:] == ("data",)}
                owners |= {r[1] for r in droots if r[0] == "param" and not r[2] and any(l + "<" in f.local_ty(r[1])["s"] for l in LAYOUTS)}
                calls = [r for r in droots if r[0] == "call"]
                if owners and not calls:
                    owner = sorted(owners)[0]
                    bad = []
                    for k, pl in dpoly.items():
                        txt = repr(pl)
                        atoms = pl.atoms()
                        okk = True
                        for a in atoms:
                            if a[0] == "p" and a[1] != owner:
                                okk = False
                            if a[0] == "f" and a[1] not in DIMS + ("poly_count",) and a[1] not in ("min", "max"):
                                okk = False
                        # dimension must be an accessor/field of the owner (or a constant for single-limb views), without arithmetic growth
                        if not okk or any(v > 1 for v in pl.t.values()) and not pl.is_const():
                            bad.append((k, txt))
                        if not pl.is_const() and not pl.nonneg_coeffs():
                            pass
                    # a sum with a positive constant (`self.size + 1`) enlarges the view beyond the wrapped buffer
                    for k, pl in dpoly.items():
                        if () in pl.t and pl.t[()] > 0 and len(pl.t) > 1:
                            bad.append((k, repr(pl)))
                    if bad:
                        verdict, why = "violation", "re-view of operand %d with altered dimension(s) %s" % (owner, bad)
                    else:
                        verdict = "re-view"
                elif any((f.callee_def(f.blocks[r[1]]["t"]) or {}).get("n") in ("alloc_aligned", "alloc_aligned_custom", "alloc_bytes", "new", "from_vec") for r in calls):
                    verdict = "alloc"
                    # the allocation must cover the advertised capacity: bytes_of(.., max_size) when the literal has a max_size, else bytes_of(.., size)
                    cap = dpoly.get("max_size", dpoly.get("size"))
                    for r in calls:
                        t2 = f.blocks[r[1]]["t"]
                        if (f.callee_def(t2) or {}).get("n") not in ("alloc_aligned", "alloc_aligned_custom", "alloc_bytes") or not t2["a"] or cap is None:
                            continue
                        ln = sym.operand(t2["a"][0])
                        bo = [a for a in ln.atoms() if a[0] == "f" and a[1] in ("bytes_of", "bytes_of_from_infos") or (a[0] == "f" and a[1].startswith("bytes_of_"))]
                        if len(bo) == 1 and len(ln.t) == 1 and cap.key() not in bo[0][2]:
                            verdict, why = "violation", "the buffer is allocated for %r but the literal advertises a capacity of %r limbs" % (ln, cap)
                elif any((f.callee_def(f.blocks[r[1]]["t"]) or {}).get("n") in ("index", "index_mut", "split_at_mut", "split_at", "cast_slice", "cast_slice_mut", "get", "get_mut", "chunks_exact", "at", "at_mut") for r in calls):
                    verdict = "checked-subslice"
                    # a prefix `buf[..bytes_of(n, cols, X)]` wrapped (or copied) under an advertised capacity: X has to be that capacity
                    cap = dpoly.get("max_size")
                    plain = Flow(f)
                    for r in calls:
                        t3 = f.blocks[r[1]]["t"]
                        if (f.callee_def(t3) or {}).get("n") not in ("index", "get") or len(t3["a"]) != 2 or cap is None:
                            continue
                        for rr in plain.op_roots(t3["a"][1]):
                            if rr[0] != "agg":
                                continue
                            rv = f.blocks[rr[1]]["s"][rr[2]][2]
                            if not (rv.get("fields") and "end" in rv["fields"]):
                                continue
                            ln = sym.operand(rv["o"][rv["fields"].index("end")])
                            bo = [a for a in ln.atoms() if a[0] == "f" and (a[1] in ("bytes_of", "bytes_of_from_infos") or a[1].startswith("bytes_of_"))]
                            if len(bo) == 1 and len(ln.t) == 1 and cap.key() not in bo[0][2]:
                                verdict, why = "violation", "the object owns %r bytes but advertises a capacity of %r limbs" % (ln, cap)
                elif any((f.callee_def(f.blocks[r[1]]["t"]) or {}).get("n", "").startswith("take_slice") for r in calls):
                    verdict = "take_slice"
                elif any(r[0] == "param" for r in droots):
                    # from_data(data, n, cols, size): must be dominated by an assert relating data.len() to bytes_of(dims)
                    g = CFG(f)
                    has_assert = False
                    for b2, t2 in f.calls():
                        d2 = f.callee_def(t2) or {}
                        if d2.get("n") in ("len",) and g.dominates(b2, bi):
                            has_assert = True
                    verdict = "from_data-asserted" if has_assert else None
                    if verdict is None:
                        why = "data parameter wrapped without a dominating length check"
                if verdict is None and f.name in ("from_data", "from_bytes") and any(r[0] == "param" for r in droots):
                    verdict = "trusted-constructor (call sites checked)"
                if verdict is None and all(pl.const_value() == 0 for pl in dpoly.values()):
                    verdict = "empty"
                if verdict == "violation":
                    res.bad("MS-1", f.pretty, "construct:%s" % nm, "%s builds a %s whose dimensions are not those of the data it wraps: %s" % (f.pretty, nm, why), site=f.where(s[3]))
                elif verdict:
                    res.ok("MS-1", {"fn": f.pretty, "type": nm, "idiom": verdict} if n % 12 == 1 else None)
                else:
                    res.undec("MS-1", "%s: %s literal not matched by an enumerated idiom (%s)" % (f.pretty, nm, why or "data origin %s" % sorted(map(str, droots))[:2]))
    return n


def ms1_calls(p, res):
    """call sites of the unvalidated constructors: data = take_slice(bytes_of(dims)) / alloc(bytes_of(dims)) with the very dims passed on"""
    from . import sc
    n = 0
    for f in sorted(p.lib_fns(), key=lambda x: x.uid):
        if f.is_test() or not f.uid.startswith("poulpy_"):
            continue
        for bi, t in f.calls():
            d = f.callee_def(t) or {}
            if d.get("n") != "from_data" or not d.get("u", "").startswith("poulpy_hal::layouts"):
                continue
            n += 1
            flow = Flow(f, transparent=VIEW)
            sym = sc.SizeSym(f, Flow(f), p)
            dims = [sym.operand(a).key() for a in t["a"][1:]]
            okk = None
            for r in flow.op_roots(t["a"][0]):
                if r[0] == "call":
                    t2 = f.blocks[r[1]]["t"]
                    n2 = (f.callee_def(t2) or {}).get("n", "")
                    if n2 in ("take_slice", "alloc_aligned", "alloc_bytes", "take_slice_default") and t2["a"]:
                        ln = sym.operand(t2["a"][-1])
                        ats = [a for a in ln.atoms() if a[0] == "sz"]
                        if len(ats) == 1 and len(ln.t) == 1:
                            args = list(ats[0][2])
                            okk = all(a in dims for a in args)
                            if not okk:
                                okk = ("mismatch", [repr(Poly(dict(a))) for a in args], [repr(Poly(dict(a))) for a in dims])
                        else:
                            okk = okk or None
                elif r[0] == "param":
                    okk = okk if okk is not None else "forwarded-param"
            if okk is True:
                res.ok("MS-1", {"fn": f.pretty, "from_data": "buffer = take/alloc(bytes_of(dims)) with the same dims"} if n % 4 == 1 else None)
            elif isinstance(okk, tuple):
                res.bad("MS-1", f.pretty, "from_data-dims", "%s wraps a buffer of bytes_of(%s) as an object of dimensions %s" % (f.pretty, okk[1], okk[2]), site=f.where(t["l"]))
            else:
                res.undec("MS-1", "%s: from_data call site with buffer origin not recognised" % f.pretty)
    return n


def ms2(p, res):
    n = 0
    for f in sorted(p.lib_fns(), key=lambda x: x.uid):
        if f.is_test():
            continue
        g = None
        for bi, blk in enumerate(f.blocks):
            if blk["c"]:
                continue
            for s in blk["s"]:
                if s[0] != "A" or len(s[1]) < 2:
                    continue
                names = [x[2] for x in s[1][1:] if isinstance(x, list) and x[0] == "f"]
                if not names or names[-1] not in DIMS:
                    continue
                ty = f.local_ty(s[1][0])["s"]
                if not any(("::" + l + "<") in ty or ty.startswith(l + "<") or ("&mut " + l + "<") in ty for l in LAYOUTS) and not any(l + "<" in ty for l in LAYOUTS):
                    continue
                n += 1
                if f.name == "read_from":
                    res.ok("MS-2")  # validated under SER-1/SER-2 below
                    continue
                if f.name == "set_size":
                    g = g or CFG(f)
                    flow = Flow(f)
                    sym = Sym(f, flow)
                    guarded = False
                    for b2 in g.reach:
                        t2 = f.blocks[b2]["t"]
                        if t2 and t2["k"] == "Switch" and g.dominates(b2, bi):
                            for r in flow.op_roots(t2["o"]):
                                if r[0] == "bin":
                                    st = f.blocks[r[1]]["s"][r[2]][2]
                                    if st["op"] in ("Le", "Lt", "Ge", "Gt"):
                                        txt = repr(sym.operand(st["o"][0])) + repr(sym.operand(st["o"][1]))
                                        if "max_size" in txt:
                                            guarded = True
                    if guarded:
                        res.ok("MS-2", {"fn": f.pretty, "store": names[-1], "guard": "size <= max_size"})
                    else:
                        res.bad("MS-2", f.pretty, "unguarded-set_size", "%s stores `%s` without a dominating comparison against max_size" % (f.pretty, names[-1]), site=f.where(s[3]))
                    continue
                # a re-allocation in place: the function also replaces `self.data` with a fresh allocation of bytes_of(n, cols, S); the stored limb counts must be that very S
                ok_realloc = _realloc_consistent(p, f, s, names[-1])
                if ok_realloc is True:
                    res.ok("MS-2", {"fn": f.pretty, "store": names[-1], "guard": "equals the limb count of the buffer allocated in the same function"})
                    continue
                why = "" if ok_realloc is None else " (%s)" % ok_realloc
                res.bad("MS-2", f.pretty, "dimension-store:%s" % names[-1], "%s overwrites dimension field `%s` of a layout object outside set_size / read_from%s" % (f.pretty, names[-1], why), site=f.where(s[3]))
    return n


def _realloc_consistent(p, f, store, field):
    """True when `store` (to size / max_size) writes exactly the limb count S of an allocation `alloc*(bytes_of(n, cols, S))` that the same function assigns to the object's data;
    a string (reason) when such an allocation exists but the stored value differs; None when the function does not re-allocate"""
    flow = Flow(f)
    sym = Sym(f, flow)
    S = None
    for blk in f.blocks:
        for st in blk["s"]:
            if st[0] != "A" or len(st[1]) < 2 or st[1][0] != store[1][0]:
                continue
            nm = [x[2] for x in st[1][1:] if isinstance(x, list) and x[0] == "f"]
            if nm[-1:] != ["data"] or st[2]["k"] != "Use":
                continue
            for r in flow.op_roots(st[2]["o"][0]):
                if r[0] != "call":
                    continue
                t = f.blocks[r[1]]["t"]
                if not (f.callee_def(t) or {}).get("n", "").startswith("alloc") or not t["a"]:
                    continue
                for r2 in flow.op_roots(t["a"][0]):
                    if r2[0] == "call":
                        t2 = f.blocks[r2[1]]["t"]
                        if (f.callee_def(t2) or {}).get("n") == "bytes_of" and len(t2["a"]) >= 3:
                            S = sym.operand(t2["a"][-1])
    if S is None:
        return None
    if field not in ("size", "max_size") or store[2]["k"] not in ("Use", "Cast"):
        return "re-allocation stores another dimension"
    v = sym.operand(store[2]["o"][0])
    if v.key() == S.key():
        return True
    return "the buffer allocated in the same function holds `%r` limbs, the stored %s is `%r`" % (S, field, v)


def ms7(p, res):
    """at_ptr / at_mut_ptr: offset + n <= n * cols * size under the asserts; at/at_mut/raw/raw_mut lengths"""
    n = 0
    for nm in ("at_ptr", "at_mut_ptr"):
        fs = [f for f in p.lib_fns() if f.uid.startswith("poulpy_hal::layouts::znx_base::") and f.name == nm]
        if len(fs) != 1:
            res.bad("MS-7", nm, "anchor-lost:%s" % nm, "accessor %s not found" % nm)
            continue
        f = fs[0]
        n += 1
        g = CFG(f)
        flow = Flow(f)
        sym = Sym(f, flow)
        adds = [(bi, t) for bi, t in f.calls() if (f.callee_def(t) or {}).get("n") == "add" and "ptr" in (f.callee_def(t) or {}).get("p", "")]
        if len(adds) != 1:
            res.bad("MS-7", f.pretty, "offset-shape", "%s: expected one pointer offset" % f.pretty, site=f.where())
            continue
        ab, at = adds[0]
        off = sym.operand(at["a"][1])
        # unconditional asserts dominating the offset: i < cols(self), j < size(self)
        bounds = {}
        for b2 in g.reach:
            t2 = f.blocks[b2]["t"]
            if t2 and t2["k"] == "Switch" and g.dominates(b2, ab):
                for r in flow.op_roots(t2["o"]):
                    if r[0] == "bin":
                        st = f.blocks[r[1]]["s"][r[2]][2]
                        if st["op"] == "Lt":
                            a, b = sym.operand(st["o"][0]), sym.operand(st["o"][1])
                            ats = list(a.t.items())
                            if len(ats) == 1 and ats[0][1] == 1 and len(ats[0][0]) == 1 and ats[0][0][0][0] == "p":
                                bounds[ats[0][0][0]] = b
        idx_atoms = [a for a in off.atoms() if a[0] == "p" and a[1] in (2, 3)]
        missing = [a for a in idx_atoms if a not in bounds]
        if missing:
            res.bad("MS-7", f.pretty, "index-unbounded", "%s: index parameter(s) %s reach the pointer offset without a dominating unconditional `index < bound` assert" % (f.pretty, missing), site=f.where(at["l"]))
            continue
        if not off.nonneg_coeffs():
            res.bad("MS-7", f.pretty, "offset-not-monotone", "%s: offset %r is not monotone in the indices" % (f.pretty, off), site=f.where(at["l"]))
            continue
        # substitute the maxima i = cols - 1, j = size - 1, add the slice length n, compare with n * cols * size
        def subst(poly, m):
            out = Poly()
            for mono, c in poly.t.items():
                term = Poly.const(c)
                for a in mono:
                    term = term * (m[a] if a in m else Poly.atom(a))
                out = out + term
            return out
        m = {a: bounds[a] - Poly.const(1) for a in idx_atoms}
        n_atom = [a for a in off.atoms() if a[0] == "f" and a[1] == "n"]
        if len(n_atom) != 1:
            res.undec("MS-7", "%s: ring degree factor not recognised in %r" % (f.pretty, off))
            continue
        N = Poly.atom(n_atom[0])
        end = subst(off, m) + N
        cols_b = bounds[[a for a in idx_atoms if a[1] == 2][0]] if [a for a in idx_atoms if a[1] == 2] else None
        size_b = bounds[[a for a in idx_atoms if a[1] == 3][0]] if [a for a in idx_atoms if a[1] == 3] else None
        if cols_b is None or size_b is None:
            res.undec("MS-7", "%s: bounds incomplete" % f.pretty)
            continue
        cap = N * cols_b * size_b
        if end == cap:
            res.ok("MS-7", {"fn": f.pretty, "offset": repr(off), "max_end": repr(end), "capacity": repr(cap)})
        else:
            diff = cap - end
            if diff.nonneg_coeffs():
                res.ok("MS-7", {"fn": f.pretty, "offset": repr(off), "slack": repr(diff)})
            else:
                res.bad("MS-7", f.pretty, "offset-exceeds", "%s: with i = cols-1, j = size-1 the limb slice ends at %r, beyond the %r scalars the metadata invariant guarantees" % (f.pretty, end, cap), site=f.where(at["l"]))
    # per implementing type: the bound above speaks of n*cols*size scalars, the buffer invariant of n*poly_count: a type whose poly_count has further
    # factors (MatZnx: rows, cols_out) needs them to be >= 1, or the accessor must itself compare its offset with poly_count
    guarded = 0
    for nm in ("at_ptr", "at_mut_ptr"):
        fs = [f for f in p.lib_fns() if f.uid.startswith("poulpy_hal::layouts::znx_base::") and f.name == nm]
        if len(fs) == 1:
            f = fs[0]
            g = CFG(f)
            adds = [bi for bi, t in f.calls() if (f.callee_def(t) or {}).get("n") == "add" and "ptr" in (f.callee_def(t) or {}).get("p", "")]
            pcs = [bi for bi, t in f.calls() if (f.callee_def(t) or {}).get("n") == "poly_count"]
            if adds and pcs and any(g.dominates(pb, adds[0]) for pb in pcs):
                guarded += 1
    guarded_by_poly_count = guarded == 2
    for im in p.impls:
        if not (im["trait"] or "").endswith("znx_base::ZnxInfos") or im.get("test"):
            continue
        pc = im["names"].get("poly_count")
        n += 1
        if pc is None or p.fn(pc) is None:
            res.ok("MS-7", {"type": im["self"], "poly_count": "default rows*cols*size"} if n % 4 == 1 else None)
            continue
        fpc = p.fn(pc)
        pcp = Sym(fpc, Flow(fpc)).local(0)
        names = sorted(a[1] for a in pcp.atoms() if a[0] == "f")
        extra = [x for x in names if x not in ("cols", "cols_in", "size")]
        if not extra or guarded_by_poly_count:
            res.ok("MS-7", {"type": im["self"], "poly_count": repr(pcp), "extra_factors": extra, "accessor_compares_with_poly_count": guarded_by_poly_count})
        else:
            res.bad("MS-7", im["self"], "poly-count-factors:%s" % ",".join(extra),
                    "%s: poly_count = %r has factor(s) %s that the generic accessors at/at_mut ignore (they bound the offset by cols*size only): with such a factor equal to zero - accepted by alloc and by read_from - at(i, j) builds a slice past the buffer"
                    % (im["self"], pcp, ", ".join(extra)), site=fpc.where())
    # slice lengths
    for nm, want in (("at", "n"), ("at_mut", "n"), ("raw", "n*poly_count"), ("raw_mut", "n*poly_count")):
        fs = [f for f in p.lib_fns() if f.uid.startswith("poulpy_hal::layouts::znx_base::") and f.name == nm]
        if len(fs) != 1:
            res.bad("MS-7", nm, "anchor-lost:%s" % nm, "accessor %s not found" % nm)
            continue
        f = fs[0]
        n += 1
        sym = Sym(f, Flow(f))
        mk = [(bi, t) for bi, t in f.calls() if (f.callee_def(t) or {}).get("n") in ("from_raw_parts", "from_raw_parts_mut")]
        if len(mk) != 1:
            res.bad("MS-7", f.pretty, "slice-shape", "%s: expected one from_raw_parts" % f.pretty, site=f.where())
            continue
        ln = sym.operand(mk[0][1]["a"][1])
        names = sorted(a[1] for a in ln.atoms() if a[0] == "f")
        exp = ["n"] if want == "n" else ["n", "poly_count"]
        if names == exp and all(c == 1 for c in ln.t.values()) and len(ln.t) == 1:
            res.ok("MS-7", {"fn": f.pretty, "len": repr(ln)})
        else:
            res.bad("MS-7", f.pretty, "slice-length", "%s builds a slice of %r scalars (expected %s)" % (f.pretty, ln, want), site=f.where(mk[0][1]["l"]))
    # poly_count = rows * cols * size
    fs = [f for f in p.lib_fns() if f.uid.startswith("poulpy_hal::layouts::znx_base::") and f.name == "poly_count"]
    if len(fs) == 1:
        n += 1
        sym = Sym(fs[0], Flow(fs[0]))
        pc = sym.local(0)
        names = sorted(a[1] for a in pc.atoms() if a[0] == "f")
        if names == ["cols", "rows", "size"] and len(pc.t) == 1:
            res.ok("MS-7", {"fn": fs[0].pretty, "poly_count": repr(pc)})
        else:
            res.bad("MS-7", fs[0].pretty, "poly_count", "poly_count is %r (expected rows*cols*size)" % pc, site=fs[0].where())
    return n


# ------------------------------------------------------------------ MS-8
# kernel name -> (index of `rows`, index of the source slice, index of the stride parameter, scalars per row = factor * stride parameter)
ROW_KERNELS = {"reim4_extract_1blk_contiguous": (1, 4, 0, 2), "ntt_extract_1blk_contiguous": (1, 4, 0, 4), "i64_extract_1blk_contiguous": (2, 5, 0, 1)}
OBJ_VIEW = ("to_mut", "to_ref", "raw", "raw_mut", "deref", "deref_mut", "as_ref", "as_mut", "borrow", "borrow_mut", "into", "from", "data", "data_mut", "index", "index_mut")


def _single_atom(key):
    if len(key) == 1 and key[0][1] == 1 and len(key[0][0]) == 1:
        return key[0][0][0]
    return None


def key_le(a, b):
    """a <= b for canonical polynomial keys, by min/max structure only"""
    if a == b:
        return True
    aa, bb = _single_atom(a), _single_atom(b)
    if bb is not None and bb[0] == "f" and bb[1] == "min" and len(bb[2]) == 2:
        return key_le(a, bb[2][0]) and key_le(a, bb[2][1])
    if aa is not None and aa[0] == "f" and aa[1] == "min" and len(aa[2]) == 2:
        return key_le(aa[2][0], b) or key_le(aa[2][1], b)
    if bb is not None and bb[0] == "f" and bb[1] == "max" and len(bb[2]) == 2:
        return key_le(a, bb[2][0]) or key_le(a, bb[2][1])
    return False


def ms8(p, res):
    """block-extraction kernels: the number of rows read is bounded by the limbs the source view holds (followed to the take / slice that created it)"""
    callers = {}
    for f in p.lib_fns():
        for bi, t in f.calls():
            for x in p.targets(f, t):
                callers.setdefault(x, []).append((f, bi, t))
    flows = {}

    def flow_of(f):
        if f.uid not in flows:
            flows[f.uid] = Flow(f, transparent=OBJ_VIEW)
        return flows[f.uid]

    def resolve(f, op, stack, depth=0):
        """yield (frames top->down, source) ; frames = [(fn, call terminator into the next frame)]"""
        out = []
        for r in flow_of(f).op_roots(op):
            if r[0] == "call":
                t = f.blocks[r[1]]["t"]
                nm = (f.callee_def(t) or {}).get("n", "")
                if nm.startswith("take_vec_znx_dft") or nm.startswith("take_vec_znx"):
                    out.append((stack, ("take", f, t)))
                else:
                    out.append((stack, ("unknown", f, "result of %s" % nm)))
            elif r[0] == "param":
                ty = f.local_ty(r[1])["s"]
                if ty.startswith(("&[", "&mut [")):
                    out.append((stack, ("slice", f, r[1])))
                elif depth < 4 and callers.get(f.uid):
                    for (c, bi, ct) in callers[f.uid]:
                        if c.is_test() or r[1] - 1 >= len(ct["a"]):
                            continue
                        out.extend(resolve(c, ct["a"][r[1] - 1], [(c, ct)] + stack, depth + 1))
                else:
                    out.append((stack, ("unknown", f, "parameter %d without a resolvable caller" % r[1])))
            else:
                out.append((stack, ("unknown", f, str(r[0]))))
        return out

    n = 0
    for f in sorted(p.lib_fns(), key=lambda x: x.uid):
        if f.in_trait or f.trait_item:
            continue  # the HAL forwarding layer passes rows/src through unchanged
        for bi, t in f.calls():
            nm = (f.callee_def(t) or {}).get("n")
            if nm not in ROW_KERNELS:
                continue
            ri, si, mi, fac = ROW_KERNELS[nm]
            # source is a layout object of this frame and rows is bounded by its own size()
            own = flow_of(f).op_roots(t["a"][si])
            if own and all(r[0] == "param" and not f.local_ty(r[1])["s"].startswith(("&[", "&mut [")) for r in own):
                sm0 = Sym(f, Flow(f))
                rows0 = sm0.operand(t["a"][ri])
                if all(key_le(rows0.key(), Poly.atom(("f", "size", (Poly.atom(("p", r[1], ())).key(),))).key()) for r in own):
                    n += 1
                    res.ok("MS-8", {"site": f.where(t["l"]), "chain": nm + "<-" + f.name, "rows": repr(rows0), "bound": "size() of the source operand"})
                    continue
            for stack, src in resolve(f, t["a"][si], []):
                n += 1
                # symbolic frames, top-down
                sym = None
                frames = stack + [(f, None)]
                syms = []
                for k, (fr, ct) in enumerate(frames):
                    subst = {}
                    if k > 0:
                        pf, pct = frames[k - 1]
                        for ai, a in enumerate(pct["a"]):
                            subst[(ai + 1, ())] = syms[k - 1].operand(a)
                    syms.append(Sym(fr, Flow(fr), param_subst=subst))
                rows = syms[-1].operand(t["a"][ri])
                desc = "%s<-%s" % (nm, "<-".join(fr.name for fr, _ in reversed(frames)))
                if src[0] == "take":
                    tt = src[2]
                    top = syms[0] if src[1].uid == frames[0][0].uid else None
                    if top is None:
                        res.undec("MS-8", "%s: frame mismatch" % desc)
                        continue
                    bound = top.operand(tt["a"][-1]) * top.operand(tt["a"][-2])
                    if key_le(rows.key(), bound.key()) or key_le(rows.key(), top.operand(tt["a"][-1]).key()):
                        res.ok("MS-8", {"site": f.where(t["l"]), "chain": desc, "rows": repr(rows), "source_limbs": repr(bound)})
                    else:
                        res.bad("MS-8", f.pretty, "rows-exceed-source:%s" % desc,
                                "%s reads `%r` rows through %s from a temporary that %s creates with `%r` limbs: rows is not bounded by the limbs of the source view"
                                % (f.pretty, rows, nm, src[1].pretty, bound), site=f.where(t["l"]))
                elif src[0] == "slice":
                    if src[1].uid != f.uid:
                        res.undec("MS-8", "%s: slice source in an outer frame" % desc)
                        continue
                    sm = syms[-1]
                    ln = Poly.atom(("f", "len", (Poly.atom(("p", src[2], ())).key(),)))
                    c = rows.const_value()
                    if c is not None and c <= 1:
                        res.undec("MS-8", "%s: single-row extraction from a caller-sized slice" % desc)
                        continue
                    # rows = min(.., len(src)/n) with m = n >> 1
                    m = sm.operand(t["a"][mi])
                    ma = _single_atom(m.key())
                    strides = [(m * Poly.const(fac)).key()]
                    if fac == 2 and ma is not None and ma[0] == "f" and ma[1] == "Shr" and ma[2][1] == Poly.const(1).key():
                        strides.append(ma[2][0])
                    ok = any(key_le(rows.key(), Poly.atom(("f", "Div", (ln.key(), sk))).key()) for sk in strides)
                    if ok:
                        res.ok("MS-8", {"site": f.where(t["l"]), "chain": desc, "rows": repr(rows), "bound": "len(src)/n"})
                    else:
                        res.bad("MS-8", f.pretty, "rows-exceed-source:%s" % desc,
                                "%s reads `%r` rows through %s from a slice whose length does not bound it (expected min(.., len(src)/n) with m = n>>1)" % (f.pretty, rows, nm), site=f.where(t["l"]))
                else:
                    res.undec("MS-8", "%s: source %s" % (desc, src[2]))
    return n


# ------------------------------------------------------------------ MS-9
def ms9(p, res):
    """the scratch carver: every sub-slice it builds from the raw pointer of its buffer ends inside the buffer - offset (sum of the pointer `add`s) plus
    length is at most `data.len()`, using a = checked_sub payload + b and x = saturating_sub(x, y) + y (no saturation) as the only arithmetic facts"""
    n = 0
    for f in sorted(p.lib_fns(), key=lambda x: x.uid):
        if not f.uid.startswith("poulpy_cpu_ref::hal_defaults::scratch") or f.kind == "Closure":
            continue
        sites = [(bi, t) for bi, t in f.calls() if (f.callee_def(t) or {}).get("n") in ("slice_from_raw_parts_mut", "from_raw_parts_mut", "from_raw_parts")]
        if not sites:
            continue
        flow = Flow(f)
        sym = Sym(f, flow)
        # does the pointer come from a slice parameter of this function? (otherwise: a cast of an already carved slice)
        for bi, t in sites:
            ptr = t["a"][0]
            off = Poly()
            cur = None
            ok_chain = True
            roots = list(flow.op_roots(ptr))
            base = None
            guard = 0
            while roots and guard < 8:
                guard += 1
                r = roots[0]
                if r[0] != "call":
                    ok_chain = False
                    break
                t2 = f.blocks[r[1]]["t"]
                cn = (f.callee_def(t2) or {}).get("n")
                if cn == "add":
                    off = off + sym.operand(t2["a"][1])
                    roots = list(flow.op_roots(t2["a"][0]))
                    continue
                if cn in ("as_mut_ptr", "as_ptr"):
                    rr = [x for x in flow.op_roots(t2["a"][0]) if x[0] == "param"]
                    base = rr[0][1] if rr else None
                    break
                ok_chain = False
                break
            if not ok_chain or base is None or not f.local_ty(base)["s"].startswith(("&mut [u8]", "&[u8]")):
                continue  # a re-typing cast of a slice that was carved elsewhere (length checked by SC-5 / SER rules)
            n += 1
            ln = sym.operand(t["a"][1])
            end = off + ln
            cap = Poly.atom(("f", "len", (Poly.atom(("p", base, ())).key(),)))
            # decided on the extracted expressions with the real semantics of saturating_sub / checked_sub (pwl.Eval): the end of the slice must not exceed
            # the buffer on any valuation on which the carver does not take its panic exit
            from . import pwl
            bad = None
            good = 0
            for val in pwl.valuations(count=4000, hi=200):
                ev = pwl.Eval(p, val)
                ev.syms[f.uid] = sym
                try:
                    e_, c_ = ev.poly(end), ev.poly(cap)
                    # the path on which the slices are built requires the checked_sub to succeed: evaluate every checked_sub of the function
                    for b2, t2 in f.calls():
                        if (f.callee_def(t2) or {}).get("n") == "checked_sub":
                            ev.atom(("call", f.uid, b2))
                except pwl.ErrPath:
                    continue
                good += 1
                if e_ > c_ and bad is None:
                    bad = dict((k, v) for k, v in ev.val.items() if k != "__fresh__")
                    bad = {"end": e_, "capacity": c_, "valuation": {k[:60]: v for k, v in bad.items()}}
            if good < 300:
                res.undec("MS-9", "%s: only %d admissible valuations" % (f.pretty, good))
            elif bad:
                res.bad("MS-9", f.pretty, "carved-slice-exceeds-buffer",
                        "%s builds a sub-slice at offset `%r` with `%r` bytes that ends at %d in a buffer of %d bytes for %s: the pointer arithmetic leaves the buffer it was carved from "
                        "(saturating_sub hides an alignment offset larger than what is left)" % (f.pretty, off, ln, bad["end"], bad["capacity"], bad["valuation"]), site=f.where(t["l"]), detail=bad)
            else:
                res.ok("MS-9", {"fn": f.pretty, "site": f.where(t["l"]), "offset": repr(off), "len": repr(ln), "valuations": good})
    return n


# ------------------------------------------------------------------ MS-10
def ms10(p, res):
    """reinterpretation of a slice as a fixed-size array through a pointer cast: the length of the slice is compared with the array length on a path
    that survives release builds - a comparison reachable only through a constant-true switch (debug_assert!) does not count"""
    n = 0
    for f in sorted(p.lib_fns(), key=lambda x: x.uid):
        if f.is_test() or not f.uid.startswith("poulpy_"):
            continue
        casts = []
        for bi, blk in enumerate(f.blocks):
            if blk["c"]:
                continue
            for s in blk["s"]:
                if s[0] == "A" and s[2]["k"] == "Cast" and s[2].get("ck", "").startswith("PtrToPtr"):
                    ty = f.tys(s[2]["ty"]) if isinstance(s[2].get("ty"), int) else ""
                    fr = f.tys(s[2]["from"]) if isinstance(s[2].get("from"), int) else ""
                    if re.match(r"^\*(const|mut) \[[^;\]]+; [^\]]+\]$", ty) and not fr.startswith(("*const [", "*mut [")):
                        casts.append((bi, s))
        if not casts:
            continue
        g = CFG(f)
        flow = Flow(f)
        # blocks reachable only through the non-zero arm of a switch on a constant
        debug_only = set()
        for b in g.reach:
            t = f.blocks[b]["t"]
            if t and t["k"] == "Switch" and len(t["ts"]) == 1:
                rr = flow.op_roots(t["o"])
                if rr and all(r[0] == "const" for r in rr):
                    taken = [x for x in g.succ[b] if x != t["ts"][0][1]] if any(r[1] for r in rr) else [t["ts"][0][1]]
                    # every block dominated by the constant-selected arm that is not dominated by the join
                    for x in g.reach:
                        if any(g.dominates(a, x) or a == x for a in taken) and not all(g.dominates(a, x) or a == x for a in g.succ[b]):
                            debug_only.add(x)
        for bi, st in casts:
            # the slice whose pointer is cast
            src = None
            for r in flow.op_roots(st[2]["o"][0]):
                if r[0] == "call" and (f.callee_def(f.blocks[r[1]]["t"]) or {}).get("n") in ("as_ptr", "as_mut_ptr"):
                    for r2 in flow.op_roots(f.blocks[r[1]]["t"]["a"][0]):
                        if r2[0] == "param":
                            src = r2[1]
            if src is None:
                continue
            n += 1
            checked = False
            for b in g.reach:
                t = f.blocks[b]["t"]
                if not t or t["k"] != "Switch" or b in debug_only or not g.dominates(b, bi):
                    continue
                for r in flow.op_roots(t["o"]):
                    if r[0] == "bin" and f.blocks[r[1]]["s"][r[2]][2]["op"] in ("Ge", "Gt", "Le", "Lt", "Eq"):
                        for o in f.blocks[r[1]]["s"][r[2]][2]["o"]:
                            for r3 in flow.op_roots(o):
                                if r3[0] == "call" and (f.callee_def(f.blocks[r3[1]]["t"]) or {}).get("n") == "len":
                                    if any(r4[0] == "param" and r4[1] == src for r4 in flow.op_roots(f.blocks[r3[1]]["t"]["a"][0])):
                                        checked = True
            pn = f.param_names().get(src, "#%d" % src)
            if checked:
                res.ok("MS-10", {"fn": f.pretty, "slice": pn, "cast_to": f.tys(st[2]["ty"])} if n % 3 == 1 else None)
            else:
                res.bad("MS-10", f.pretty, "array-cast-unchecked:%s" % pn,
                        "%s reinterprets the slice `%s` as `%s` through a pointer cast; the only length check is a debug_assert! (or none): in release builds a shorter slice is read or written past its end"
                        % (f.pretty, pn, f.tys(st[2]["ty"])), site=f.where(st[3]))
    return n


# ------------------------------------------------------------------ MS-13
def ms13(p, res):
    """typed views of byte buffers: `slice::from_raw_parts[_mut]` needs an aligned pointer even for an empty slice, and an empty object (rank-0 secret, zero columns) holds the
    dangling pointer of an empty `Vec<u8>` (alignment 1).  Every reinterpreting site of poulpy-hal is therefore (a) dominated by a comparison of the length with zero (returning an
    empty slice on the other arm), or (b) dominated by an alignment assertion on the pointer (`align_offset(..) == 0`), or (c) takes its pointer from an accessor that asserts an
    index below a dimension (a non-empty object was allocated aligned: MS-1)."""
    n = 0
    for f in sorted(p.lib_fns(), key=lambda x: x.uid):
        if f.is_test() or not f.uid.startswith("poulpy_hal::") or not f.blocks:
            continue
        sites = [(bi, t) for bi, t in f.calls() if (f.callee_def(t) or {}).get("n") in ("from_raw_parts", "from_raw_parts_mut") and "slice" in (f.callee_def(t) or {}).get("p", "") and len(t["a"]) == 2]
        if not sites:
            continue
        g = CFG(f)
        flow = Flow(f)
        sym = Sym(f, flow)
        cr = g.can_return()
        for bi, t in sites:
            n += 1
            lk = sym.operand(t["a"][1]).key()
            how = None
            for b in sorted(g.reach):
                tt = f.blocks[b]["t"]
                if not tt or tt["k"] != "Switch" or not g.dominates(b, bi) or b == bi:
                    continue
                for r in flow.op_roots(tt["o"]):
                    if r[0] == "bin":
                        st = f.blocks[r[1]]["s"][r[2]][2]
                        if st.get("op") in ("Eq", "Ne", "Gt", "Lt", "Ge", "Le"):
                            a, c = sym.operand(st["o"][0]), sym.operand(st["o"][1])
                            if (a.key() == lk and c.const_value() in (0, 1)) or (c.key() == lk and a.const_value() in (0, 1)):
                                how = "length compared with zero"
                            # a factor of the length (the length is a product of dimensions) compared with zero
                            lat = set(sym.operand(t["a"][1]).atoms())
                            for u, v in ((a, c), (c, a)):
                                ua = set(u.atoms())
                                if ua and ua <= lat and v.is_const() and v.const_value() in (0, 1):
                                    how = "a factor of the length compared with zero"
                            # alignment assertion: align_offset(ptr, ..) == 0
                            for side, other in ((st["o"][0], c), (st["o"][1], a)):
                                for q in flow.op_roots(side):
                                    if q[0] == "call" and (f.callee_def(f.blocks[q[1]]["t"]) or {}).get("n") in ("align_offset", "is_aligned", "is_aligned_to") and other.const_value() == 0:
                                        how = "alignment asserted"
                    elif r[0] == "call" and (f.callee_def(f.blocks[r[1]]["t"]) or {}).get("n") in ("is_aligned", "is_aligned_to"):
                        how = "alignment asserted"
            if how is None:
                for r in flow.op_roots(t["a"][0]):
                    if r[0] != "call":
                        continue
                    for u in p.targets(f, f.blocks[r[1]]["t"]):
                        h = p.fn(u)
                        if h is None or not h.blocks:
                            continue
                        hg = CFG(h)
                        hcr = hg.can_return()
                        for b2 in hg.reach:
                            t2 = h.blocks[b2]["t"]
                            if t2 and t2["k"] == "Switch":
                                arms = [x for _, x in t2["ts"]] + [t2["else"]]
                                if any(x not in hcr for x in arms) and all(hg.dominates(b2, rb) for rb in hg.reach if h.blocks[rb]["t"] and h.blocks[rb]["t"]["k"] == "Return"):
                                    for q in Flow(h).op_roots(t2["o"]):
                                        if q[0] == "bin" and h.blocks[q[1]]["s"][q[2]][2].get("op") in ("Lt", "Gt"):
                                            how = "pointer from an accessor asserting an index below a dimension"
            if how:
                res.ok("MS-13", {"fn": f.pretty, "site": f.where(t["l"]), "why": how})
            else:
                res.bad("MS-13", f.pretty, "empty-view-unaligned",
                        "%s reinterprets the byte buffer's pointer as a typed slice without excluding the empty case and without an alignment check: an empty object "
                        "(GLWESecret of rank 0, zero columns) holds the 1-aligned dangling pointer of an empty Vec<u8>, and from_raw_parts requires alignment even for length 0 "
                        "(undefined behaviour; debug builds abort)" % f.pretty, site=f.where(t["l"]))
    return n


# ------------------------------------------------------------------ MS-12
def ms12(p, res):
    """raw allocations: `std::alloc::alloc` is undefined for a zero-size layout; every call is dominated by a test of the requested size against zero"""
    n = 0
    for f in sorted(p.lib_fns(), key=lambda x: x.uid):
        if f.is_test() or not f.uid.startswith("poulpy_"):
            continue
        sites = [(bi, t) for bi, t in f.calls() if (f.callee_def(t) or {}).get("p", "") in ("std::alloc::alloc", "std::alloc::alloc_zeroed", "alloc::alloc::alloc", "alloc::alloc::alloc_zeroed")]
        if not sites:
            continue
        g = CFG(f)
        flow = Flow(f)
        sym = Sym(f, flow)
        for bi, t in sites:
            n += 1
            # the size handed to Layout::from_size_align
            size_keys = set()
            for b2, t2 in f.calls():
                if (f.callee_def(t2) or {}).get("n") in ("from_size_align", "from_size_align_unchecked", "array") and t2["a"]:
                    size_keys.add(sym.operand(t2["a"][0]).key())
            guarded = False
            for b in g.reach:
                tt = f.blocks[b]["t"]
                if not tt or tt["k"] != "Switch" or not g.dominates(b, bi) or b == bi:
                    continue
                for r in flow.op_roots(tt["o"]):
                    if r[0] == "bin":
                        st = f.blocks[r[1]]["s"][r[2]][2]
                        if st["op"] in ("Eq", "Ne", "Gt", "Lt", "Ge", "Le"):
                            a, c = sym.operand(st["o"][0]), sym.operand(st["o"][1])
                            if (a.key() in size_keys and c.const_value() in (0, 1)) or (c.key() in size_keys and a.const_value() in (0, 1)):
                                guarded = True
            if guarded:
                res.ok("MS-12", {"fn": f.pretty, "site": f.where(t["l"]), "guard": "size compared with zero before the allocation"})
            else:
                res.bad("MS-12", f.pretty, "zero-size-alloc", "%s calls the global allocator without excluding a zero-size layout (undefined behaviour per GlobalAlloc); reached by alloc(n, cols, 0) and by ScratchOwned::alloc(0)" % f.pretty, site=f.where(t["l"]))
    return n


def run(res, tier):
    res.level = "other"
    res.explanation = ("Memory safety of every admissible call is a whole-program numeric fact; decided here are the structural invariants the unchecked accessors rely on: (MS-7) the raw "
                       "offset computed by at_ptr/at_mut_ptr plus the limb length stays within n*cols*size under the unconditional index asserts (polynomial identity), slices built by "
                       "at/raw have exactly n resp. n*poly_count scalars; (MS-1) every construction site of the nine layout types wraps data with dimensions consistent with it "
                       "(enumerated idioms: re-view with unaltered dimensions, allocation, checked sub-slice, take_slice, from_data with a dominating length check); (MS-2) dimension fields "
                       "are mutated only by set_size (guarded by max_size) and the readers (validated under SER-1/SER-2); plus carving ownership (SC-5), no store through read-only "
                       "operands (WR-3), handle immutability (THR-2). SIMD butterfly index arithmetic and admissibility preconditions are not decided.")
    res.rule("MS-1", "construction sites of layout types match an enumerated idiom; a re-view never alters a dimension of the object it wraps")
    res.rule("MS-2", "stores to n/cols/size/max_size/rows/cols_in/cols_out of layout types occur only in set_size (dominated by a max_size comparison) and read_from")
    res.rule("MS-7", "at_ptr/at_mut_ptr: offset(i = cols-1, j = size-1) + n <= n*cols*size with unconditional asserts on i, j; at/raw slice lengths are n / n*poly_count; poly_count = rows*cols*size")
    res.rule("MS-12", "every call of std::alloc::alloc is dominated by a test of the requested size against zero")
    res.rule("MS-10", "a slice reinterpreted as a fixed-size array through a pointer cast has its length compared with the array length outside debug_assert! (a check under a constant-true switch does not survive release builds)")
    res.rule("MS-9", "the scratch carver's sub-slices end inside the buffer: pointer offset + length <= data.len() as a polynomial inequality over usize quantities, with checked_sub / saturating_sub read as subtraction")
    res.rule("MS-8", "block-extraction kernels (reim4_extract_1blk_contiguous): the row count is bounded, through min/max structure, by the limbs of the source view as created by the take (followed up the call chain) or by len(src)/n")
    res.rule("SER-1", "leaf readers: tainted arithmetic / slice bounds validated (shared with C18)")
    res.rule("SER-2", "leaf readers: dimension commits validated against the receiver's buffer (shared with C18)")
    res.rule("MS-13", "slice::from_raw_parts on a reinterpreted byte pointer: zero length excluded, alignment asserted, or pointer from an index-asserting accessor")
    res.rule("SC-5", "only the scratch carver builds scratch views from raw bytes (shared with C12)")
    res.rule("WR-3", "no store through a pointer derived from a read-only operand (shared with C11)")
    res.rule("THR-2", "backend handle only read through Module::ptr (shared with C20)")
    res.assumptions = ["metadata invariant n*cols*size*size_of(Scalar) <= data.len() holds for objects built by the enumerated idioms", "kernel-internal index arithmetic (FFT/NTT butterflies, block kernels) is not decided"]
    cfgs = ["avx-dev"] if tier == "quick" else ["avx-dev", "avx-nodbg"]
    for cfg in cfgs:
        p = facts.load(cfg)
        res.configs.append(p.build_info)
        n1 = ms1(p, res)
        res.floor("MS-1", "layout construction sites", n1, 80)
        n1c = ms1_calls(p, res)
        res.floor("MS-1", "from_data call sites", n1c, 8)
        n2 = ms2(p, res)
        res.floor("MS-2", "dimension stores", n2, 10)
        n7 = ms7(p, res)
        res.floor("MS-7", "accessor obligations", n7, 7)
        n12 = ms12(p, res)
        res.floor("MS-12", "raw allocation sites", n12, 1)
        n13 = ms13(p, res)
        res.floor("MS-13", "typed views of byte buffers", n13, 6)
        n10 = ms10(p, res)
        res.floor("MS-10", "slice-to-array pointer casts", n10, 3)
        n9 = ms9(p, res)
        res.floor("MS-9", "sub-slices built by the scratch carver", n9, 2)
        n8 = ms8(p, res)
        res.floor("MS-8", "row-kernel call sites x source chains", n8, 6)
        # leaf readers
        rd, wrt = c18.readers_writers(p)
        for k in sorted(rd):
            im, fn = rd[k]
            if fn is not None and im["crate"] == "poulpy_hal":
                # reuse SER-1/SER-2 (SER-3 findings belong to C18)
                sub = type(res)(res.prop, res.tier)
                for rid in ("SER-1", "SER-2", "SER-3"):
                    sub.rule(rid, "")
                c18.check_reader(p, sub, im, fn)
                for v in sub.violations:
                    if v["rule"] in ("SER-1", "SER-2"):
                        res.violations.append(v)
                        res.rules[v["rule"]]["obligations"] += 1
                        res.rules[v["rule"]]["violations"] += 1
                for rid in ("SER-1", "SER-2"):
                    res.rules[rid]["obligations"] += sub.rules[rid]["discharged"]
                    res.rules[rid]["discharged"] += sub.rules[rid]["discharged"]
        c12.sc5(p, res)
        c11.wr3(p, res)
        c20.thr2(p, res)
        res.fn_count += n1 + n2 + n7
    if tier == "thorough":
        from . import witness
        witness.check(res, ["W1ReadOnlyViews", "W2ScratchCarving", "W4NoDanglingTemporaries", "W5BackendTagOfTemporaries"])
