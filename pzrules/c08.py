"""C08 — limb representation: the carry-chain discipline of normalisation and shifts (thin claim: structure of the chains, not digit arithmetic).

Decided clauses (each a necessary condition of "the output represents input * 2^offset up to one unit of the last limb"):
NRM-1 the final normalisation step is the last link of a carry chain
NRM-2 right shifts: the chain has size(operand) + steps steps for every operand size, result size and shift (piecewise-linear identity over loop trip counts)
WR-6  the carry buffer is written before a middle / final step reads it on every feasible path
WR-1/WR-2 on the C08 files: every limb of the selected result column is produced, other columns are never addressed
BK-6  the AVX normalisation step kernels apply the digit / carry helpers per lsh branch as often as the reference kernels
Not decided: the digit / carry arithmetic itself (balanced digits, rounding), cross-radix accumulation, integer encoding / decoding.
"""
from . import facts
from .c11 import wr1, wr2, wr6, nrm1, nrm2

C08_FILES = ("reference/vec_znx/normalize.rs", "reference/vec_znx/shift.rs", "reference/fft64/vec_znx_big.rs", "reference/ntt120/vec_znx_big.rs", "ntt120/vec_znx_big_avx.rs")


def in_c08(f):
    return any(f.file.endswith(x) for x in C08_FILES)


def run(res, tier):
    res.level = "other"
    res.explanation = ("Only the structure of the carry chains of C08 is decided, on MIR of the normalisation / shift shape functions (small and big accumulators, both families): the final "
                       "step closes a chain, the carry is initialised before it is read on every feasible path (zero-trip loops, single-limb cases), a right shift passes the carry through "
                       "exactly size(operand) + steps normalisation steps whatever the sizes and the shift (so that the carry of the top limb lands at the right limb), every limb of the "
                       "selected result column is produced and no other column is addressed, and the AVX step kernels apply the digit / carry helpers as often as their reference twins. "
                       "Digit arithmetic, rounding, cross-radix accumulation and integer encoding are not decided.")
    res.rule("NRM-1", "the final normalisation step is the last link of a carry chain - no middle or final step receives the same carry afterwards on a feasible path")
    res.rule("NRM-2", "right shifts: the number of carry-chain steps equals size(operand) + steps for every operand size, result size and shift")
    res.rule("WR-6", "carry buffers are written (first step or zero) before a middle / final step reads them on every feasible path")
    res.rule("WR-1", "overwrite-type shape functions of the C08 files cover every limb of the result column")
    res.rule("WR-2", "every accessor on operand X of the C08 files uses column X_col")
    res.rule("BK-6", "AVX normalisation step kernels: (get_digit, get_carry) applications per lsh branch equal those of the *_ref twin")
    res.assumptions = ["the step kernels compute balanced digit / carry (digit = sign-extended low bits, carry = (x - digit) >> b): not decided",
                       "cross-radix accumulation and encoding / decoding are arithmetic and not decided"]
    cfgs = ["avx-dev"] if tier == "quick" else ["avx-dev", "ref-dev"]
    for cfg in cfgs:
        p = facts.load(cfg)
        res.configs.append(p.build_info)
        n1 = nrm1(p, res)
        res.floor("NRM-1", "shape functions with a final normalisation step", n1, 6)
        n2 = nrm2(p, res)
        res.floor("NRM-2", "right-shift shape functions", n2, 3)
        n6 = wr6(p, res)
        res.floor("WR-6", "shape functions with a carry chain", n6, 6)
        n_ow, cov = wr1(p, res, restrict=in_c08)
        res.floor("WR-1", "C08 overwrite-type shape functions", n_ow, 6)
        nw2, sites = wr2(p, res, restrict=in_c08)
        res.floor("WR-2", "C08 shape functions with column accessors", nw2, 15)
        if cfg.startswith("avx"):
            from .c10 import bk6
            nb = bk6(p, res)
            res.floor("BK-6", "normalisation kernel twins", nb, 8)
        else:
            res.ok("BK-6", {"note": "AVX crate not part of this configuration"})
        res.fn_count += n1 + n2 + n6 + n_ow
