"""C08 — limb representation: the carry-chain discipline of normalisation and shifts (thin claim: structure of the chains, not digit arithmetic).

Decided clauses (each a necessary condition of "the output represents input * 2^offset up to one unit of the last limb"):
NRM-1 the final normalisation step is the last link of a carry chain
NRM-2 right shifts: the chain has size(operand) + steps steps for every operand size, result size and shift (piecewise-linear identity over loop trip counts)
NRM-3 same-radix normalisation with a signed bit offset: the chain has max(size(operand) - limb_offset, 0) steps for every operand size, result size and offset
WR-6  the carry buffer is written before a middle / final step reads it on every feasible path
WR-1/WR-2 on the C08 files: every limb of the selected result column is produced, other columns are never addressed
BK-6  the AVX normalisation step kernels apply the digit / carry helpers per lsh branch as often as the reference kernels
DC-1  digit / carry pairing in the scalar step kernels (i64 and i128, reference, AVX scalar tails, encoding): a carry `get_carry(b, x, d)` takes the digit d = get_digit(b, x)
      of the same value and radix; the value a digit was extracted from is never carried on by a plain `x >> b` (the balanced carry is (x - digit) >> b: a plain shift is one
      too small whenever the digit is negative); no computed carry is dropped (each get_carry result reaches a stored value)
Not decided: the digit / carry arithmetic itself (balanced digits, rounding), cross-radix accumulation, integer encoding / decoding.
"""
from . import facts
from .c11 import wr1, wr2, wr6, nrm1, nrm2, nrm3

C08_FILES = ("reference/vec_znx/normalize.rs", "reference/vec_znx/shift.rs", "reference/fft64/vec_znx_big.rs", "reference/ntt120/vec_znx_big.rs", "ntt120/vec_znx_big_avx.rs")


def in_c08(f):
    return any(f.file.endswith(x) for x in C08_FILES)


DIG = ("get_digit_i64", "get_digit_i128")
CAR = ("get_carry_i64", "get_carry_i128")


def dc1(p, res):
    from .cfg import Flow
    from .sym import Sym
    n = 0
    for f in sorted(p.fns.values(), key=lambda x: x.uid):
        if not f.blocks or not f.uid.startswith(("poulpy_cpu_ref", "poulpy_cpu_avx", "poulpy_hal")):
            continue
        calls = [(bi, t) for bi, t in f.calls() if (f.callee_def(t) or {}).get("n") in DIG + CAR]
        if not calls:
            continue
        flow = Flow(f)
        sym = Sym(f, flow)
        digs = {bi: (sym.operand(t["a"][0]).key(), sym.operand(t["a"][1]).key()) for bi, t in calls if (f.callee_def(t) or {}).get("n") in DIG and len(t["a"]) == 2}
        # digits written to memory (`*x = get_digit(..)`) and read back
        stores = []
        for blk in f.blocks:
            for st in blk["s"]:
                if st[0] == "A" and len(st[1]) > 1 and st[2]["k"] == "Use":
                    for r in flow.op_roots(st[2]["o"][0]):
                        if r[0] == "call" and r[1] in digs:
                            stores.append((sym.place(st[1]).key(), r[1]))
        n += 1
        bad = []
        cars = {}
        for bi, t in calls:
            nm = (f.callee_def(t) or {}).get("n")
            if nm not in CAR or len(t["a"]) != 3:
                continue
            cars[bi] = t
            b, x = sym.operand(t["a"][0]).key(), sym.operand(t["a"][1]).key()
            src = [r[1] for r in flow.op_roots(t["a"][2]) if r[0] == "call" and r[1] in digs]
            if not src:
                k3 = sym.operand(t["a"][2]).key()
                src = [bj for kk, bj in stores if kk == k3]
            if not src:
                res.undec("DC-1", "%s: the digit handed to %s is not a get_digit result" % (f.pretty, nm))
            elif not any(digs[bj] == (b, x) for bj in src):
                bad.append(("carry-of-other-value", "%s(b, x, d) receives a digit extracted from another value or with another radix than (b, x)" % nm, t["l"]))
        for blk in f.blocks:
            for st in blk["s"]:
                if st[0] == "A" and st[2]["k"] == "Bin" and st[2].get("op") in ("Shr", "ShrUnchecked"):
                    l, r = sym.operand(st[2]["o"][0]).key(), sym.operand(st[2]["o"][1]).key()
                    if any(x == l and b == r for b, x in digs.values()):
                        bad.append(("plain-shift-of-digit-source", "a value whose digit is extracted with get_digit(b, x) is carried on as x >> b: the carry of a negative digit is one too small", None))
        # every computed carry is used: it reaches a store through arithmetic
        used = set()

        def deps(op, depth=0):
            out = set()
            for r in flow.op_roots(op):
                if r[0] == "call":
                    out.add(r[1])
                elif r[0] == "bin" and depth < 6:
                    for o in f.blocks[r[1]]["s"][r[2]][2]["o"]:
                        out |= deps(o, depth + 1)
            return out
        for bi2, blk in enumerate(f.blocks):
            for st in blk["s"]:
                if st[0] == "A" and (len(st[1]) > 1 or st[1][0] == 0) and st[2]["k"] in ("Use", "Bin", "Cast"):
                    for o in st[2]["o"]:
                        used |= deps(o)
            t = blk["t"]
            if t and t["k"] == "Call":
                for o in t["a"]:
                    used |= deps(o)
        # a carry feeding another carry/digit call is used if that call is used; the closure returns nothing, so stores are the only sinks
        for bi in cars:
            if bi not in used and not f.blocks[bi]["t"]["d"][1:] and f.blocks[bi]["t"]["d"][0] != 0:
                bad.append(("carry-dropped", "the result of a get_carry call reaches no stored value", cars[bi]["l"]))
        if bad:
            for kind, msg, line in bad:
                res.bad("DC-1", f.pretty, kind, "%s: %s" % (f.pretty, msg), site=f.where(line) if line else f.where())
        else:
            res.ok("DC-1", {"fn": f.pretty, "digits": len(digs), "carries": len(cars)})
    return n


def _rev_range(f, flow, sym, t):
    """`for j in (lo..hi).rev()`: the range behind the reversed iterator (the set of limbs visited is the same)"""
    todo = [t["a"][0]]
    hops = 0
    while todo and hops < 8:
        hops += 1
        o = todo.pop()
        for r in flow.op_roots(o):
            if r[0] == "agg":
                rv = f.blocks[r[1]]["s"][r[2]][2]
                if rv.get("fields") == ["start", "end"]:
                    return sym.operand(rv["o"][0]), sym.operand(rv["o"][1])
                if rv.get("fields") and "iter" in rv["fields"]:
                    todo.append(rv["o"][rv["fields"].index("iter")])
            elif r[0] == "call":
                t2 = f.blocks[r[1]]["t"]
                if (f.callee_def(t2) or {}).get("n") in ("into_iter", "rev") and t2["a"]:
                    todo.append(t2["a"][0])
    return None


def enc1(p, res):
    """encoders (`VecZnx::encode_*`): the data is put on one limb and normalised in place, and the in-place steps read every limb they pass over - so every limb that a
    normalisation step touches has been plainly written (zeroed, copied into, stored) earlier in the encoder, for every (precision limbs, object limbs) with
    1 <= k.div_ceil(base2k) <= size().  Limb ranges of the writes and of the in-place steps are extracted per accessor site and evaluated on a grid."""
    from .cfg import CFG, Flow
    from .sym import Sym, Poly
    from . import wr
    WRITE_CALLEES = ("znx_zero_ref", "znx_zero", "fill", "copy_from_slice", "clone_from_slice", "znx_copy_ref", "znx_copy")
    n = 0
    for f in sorted(p.lib_fns(), key=lambda x: x.uid):
        if f.kind == "Closure" or f.is_test() or not f.blocks or not f.uid.startswith("poulpy_hal::layouts::encoding") or not f.name.startswith("encode_"):
            continue
        n += 1
        g = CFG(f)
        flow = Flow(f)
        vflow = Flow(f, transparent=("index_mut", "index", "deref_mut", "deref", "as_mut", "iter_mut", "into_iter", "get_mut"))
        sym = Sym(f, flow)
        loops = {}
        for L in g.loops():
            for b in sorted(L["body"]):
                t = f.blocks[b]["t"]
                if t and t["k"] == "Call" and (f.callee_def(t) or {}).get("n") == "next" and g.innermost_loop(b) is L:
                    rg = wr.range_of_next(f, flow, sym, t) or _rev_range(f, flow, sym, t)
                    loops[L["header"]] = (L, rg, Poly.atom(("call", f.uid, b, ("0",))))
                    break
        items = []   # (kind, lo, hi, block)   kind in write | rmw
        unknown = 0
        for bi, t in f.calls():
            if (f.callee_def(t) or {}).get("n") != "at_mut" or len(t["a"]) != 3 or bi not in g.reach:
                continue
            J = sym.operand(t["a"][2])
            # how is the limb used?
            kind = None
            for b2, t2 in f.calls():
                nm = (f.callee_def(t2) or {}).get("n", "")
                if any(r[0] == "call" and r[1] == bi for a in t2["a"] if a[0] in ("c", "m") for r in vflow.op_roots(a)):
                    if "normalize" in nm:
                        kind = "rmw"
                    elif nm in WRITE_CALLEES and kind is None:
                        kind = "write"
            if kind is None:
                for b2, blk in enumerate(f.blocks):
                    for st in blk["s"]:
                        if st[0] == "A" and "*" in st[1][1:] and any(r[0] == "call" and r[1] == bi for r in vflow.roots(st[1][0])):
                            kind = kind or "write"
            if kind is None:
                unknown += 1
                continue
            L = g.innermost_loop(bi)
            if L is not None and L["header"] in loops and loops[L["header"]][1] is not None and J == loops[L["header"]][2]:
                lo, hi = loops[L["header"]][1]
                items.append((kind, lo, hi, L["header"]))
            elif L is None or not any(a[0] == "call" and (f.callee_def(f.blocks[a[2]]["t"]) or {}).get("n") == "next" for a in J.atoms()):
                items.append((kind, J, J + Poly.const(1), bi))
            else:
                unknown += 1
        if unknown or not any(k == "rmw" for k, _, _, _ in items):
            res.undec("ENC-1", "%s: %d limb accessor(s) not classified" % (f.pretty, unknown))
            continue
        dom = g.dom()
        bad = None
        pts = 0
        atoms = set()
        for _, lo, hi, _ in items:
            atoms |= set(lo.atoms()) | set(hi.atoms())
        size_at = [a for a in atoms if a[0] == "f" and a[1] == "size"]
        prec_at = [a for a in atoms if a[0] == "f" and a[1] == "div_ceil"]
        if len(size_at) != 1 or len(prec_at) != 1 or len(atoms) != 2:
            res.undec("ENC-1", "%s: limb ranges depend on more than (precision limbs, object limbs): %s" % (f.pretty, sorted(map(repr, atoms))[:4]))
            continue
        for A in range(1, 7):
            for S in range(1, A + 1):
                val = {size_at[0]: A, prec_at[0]: S}

                def ev(pl):
                    tot = 0
                    for mono, cf_ in pl.t.items():
                        v = cf_
                        for a in mono:
                            v *= val[a]
                        tot += v
                    return tot
                written, read = set(), set()
                for kind, lo, hi, blk in items:
                    rng = set(range(max(ev(lo), 0), max(ev(hi), 0)))
                    if kind == "write":
                        written |= rng
                    else:
                        read |= rng
                pts += 1
                if not read <= written and bad is None:
                    bad = {"object_limbs": A, "precision_limbs": S, "read_but_never_written": sorted(read - written)}
        # the writes have to come first
        rmw_blocks = [blk for k, _, _, blk in items if k == "rmw"]
        late = [blk for k, _, _, blk in items if k == "write" and not all(blk in dom.get(rb, ()) for rb in rmw_blocks)]
        if bad:
            res.bad("ENC-1", f.pretty, "normalised-limb-never-written", "%s: with %d limbs of precision in an object of %d limbs the in-place normalisation reads limb(s) %s, which the encoder "
                    "never wrote: what the receiver held there before is added into the encoded value" % (f.pretty, bad["precision_limbs"], bad["object_limbs"], bad["read_but_never_written"]),
                    site=f.where(), detail=bad)
        elif late:
            res.undec("ENC-1", "%s: a write does not dominate the normalisation chain" % f.pretty)
        else:
            res.ok("ENC-1", {"fn": f.pretty, "items": [(k, repr(lo), repr(hi)) for k, lo, hi, _ in items], "points": pts})
    return n


def post1(p, res):
    """fused normalise-and-negate (`vec_znx_big_normalize_negate`): the normalisation writes every limb of the result column, whatever the offset and the radices; the negation
    that follows has to visit every one of them - its limb loop runs over `0..res.size` for every valuation of the sizes, radices and offset."""
    from .cfg import CFG, Flow
    from .sym import Sym, Poly
    from . import wr, pwl
    n = 0
    for f in sorted(p.lib_fns(), key=lambda x: x.uid):
        if f.kind == "Closure" or f.is_test() or not f.blocks or not f.uid.startswith(("poulpy_hal::api", "poulpy_cpu_ref", "poulpy_cpu_avx")) or "normalize_negate" not in f.name or "tmp_bytes" in f.name:
            continue
        g = CFG(f)
        flow = Flow(f)
        sym = Sym(f, flow)
        negs = [bi for bi, t in f.calls() if (f.callee_def(t) or {}).get("n") in ("wrapping_neg", "neg", "znx_negate_assign", "znx_negate_assign_ref", "checked_neg")]
        norms = [bi for bi, t in f.calls() if "normalize" in (f.callee_def(t) or {}).get("n", "") and "negate" not in (f.callee_def(t) or {}).get("n", "")]
        if not negs or not norms:
            continue
        n += 1
        # the outermost range loop around the negation
        best = None
        for L in g.loops():
            if negs[0] in L["body"]:
                for b in sorted(L["body"]):
                    t = f.blocks[b]["t"]
                    if t and t["k"] == "Call" and (f.callee_def(t) or {}).get("n") == "next" and g.innermost_loop(b) is L:
                        rg = wr.range_of_next(f, flow, sym, t)
                        if rg is not None and (best is None or len(L["body"]) > best[0]):
                            best = (len(L["body"]), rg)
                        break
        if best is None:
            res.undec("POST-1", "%s: the limb loop of the negation is not a plain range" % f.pretty)
            continue
        lo, hi = best[1]
        pn = {v: k for k, v in f.param_names().items()}
        size = [a for a in hi.atoms() if a[0] == "p" and a[2][-1:] == ("size",)] + [a for a in _all_atoms(hi) if a[0] == "f" and a[1] == "size"]
        out_l = pn.get("res")
        want = None
        for a in _all_atoms(hi):
            if (a[0] == "p" and a[2][-1:] == ("size",)) or (a[0] == "f" and a[1] == "size"):
                if out_l is None or any(r[0] == "param" and r[1] == out_l for r in Flow(f, transparent=("to_mut", "to_ref", "deref", "deref_mut")).roots(a[1])) if a[0] == "p" else True:
                    want = Poly.atom(a)
                    break
        if want is None:
            res.undec("POST-1", "%s: the result's limb count does not occur in the loop bound %r" % (f.pretty, hi))
            continue
        bad = None
        pts = 0
        for val in pwl.valuations(count=1200, hi=12):
            ev = pwl.Eval(p, val)
            ev.syms[f.uid] = sym
            try:
                l, h, w = ev.poly(lo), ev.poly(hi), ev.poly(want)
            except (pwl.ErrPath, ZeroDivisionError):
                continue
            pts += 1
            if (l > 0 or h < w) and bad is None:
                bad = {"loop": [l, h], "result_limbs": w}
        if bad:
            res.bad("POST-1", f.pretty, "negation-skips-limbs", "%s negates limbs %d..%d of a result of %d limbs (bound %r): the normalisation wrote every limb - with a negative offset also "
                    "those below the operand's own precision - and the ones left out keep their sign" % (f.pretty, bad["loop"][0], bad["loop"][1], bad["result_limbs"], hi), site=f.where(), detail=bad)
        elif pts < 200:
            res.undec("POST-1", "%s: too few points" % f.pretty)
        else:
            res.ok("POST-1", {"fn": f.pretty, "loop": [repr(lo), repr(hi)], "points": pts})
    return n


def _all_atoms(pl):
    from .rad import _deep_atoms
    return _deep_atoms(pl)


def run(res, tier):
    res.level = "other"
    res.explanation = ("Only the structure of the carry chains of C08 is decided, on MIR of the normalisation / shift shape functions (small and big accumulators, both families): the final "
                       "step closes a chain, the carry is initialised before it is read on every feasible path (zero-trip loops, single-limb cases), a right shift passes the carry through "
                       "exactly size(operand) + steps normalisation steps whatever the sizes and the shift (so that the carry of the top limb lands at the right limb), every limb of the "
                       "selected result column is produced and no other column is addressed, and the AVX step kernels apply the digit / carry helpers as often as their reference twins. "
                       "Digit arithmetic, rounding, cross-radix accumulation and integer encoding are not decided.")
    res.rule("NRM-1", "the final normalisation step is the last link of a carry chain - no middle or final step receives the same carry afterwards on a feasible path")
    res.rule("NRM-2", "right shifts: the number of carry-chain steps equals size(operand) + steps for every operand size, result size and shift")
    res.rule("NRM-3", "same-radix normalisation with a signed offset (small and i128 accumulators, plain and fused): chain steps == max(size(operand) - limb_offset, 0)")
    res.rule("WR-6", "carry buffers are written (first step or zero) before a middle / final step reads them on every feasible path")
    res.rule("WR-1", "overwrite-type shape functions of the C08 files cover every limb of the result column")
    res.rule("WR-2", "every accessor on operand X of the C08 files uses column X_col")
    res.rule("BK-6", "AVX normalisation step kernels: (get_digit, get_carry) applications per lsh branch equal those of the *_ref twin")
    res.rule("ENC-1", "encoders write every limb that their in-place normalisation chain reads")
    res.rule("POST-1", "the negation of a fused normalise-and-negate visits every limb of the result")
    res.rule("DC-1", "scalar step kernels: get_carry(b, x, d) takes d = get_digit(b, x); no plain x >> b of a digit source; no computed carry is dropped")
    res.assumptions = ["get_digit / get_carry themselves compute the balanced digit / carry (digit = sign-extended low bits, carry = (x - digit) >> b): not decided",
                       "cross-radix accumulation and encoding / decoding are arithmetic and not decided"]
    cfgs = ["avx-dev"] if tier == "quick" else ["avx-dev", "ref-dev"]
    for cfg in cfgs:
        p = facts.load(cfg)
        res.configs.append(p.build_info)
        n1 = nrm1(p, res)
        res.floor("NRM-1", "shape functions with a final normalisation step", n1, 6)
        n2 = nrm2(p, res)
        res.floor("NRM-2", "right-shift shape functions", n2, 3)
        n3 = nrm3(p, res)
        res.floor("NRM-3", "same-radix offset normalisations", n3, 3)
        n6 = wr6(p, res)
        res.floor("WR-6", "shape functions with a carry chain", n6, 6)
        n_ow, cov = wr1(p, res, restrict=in_c08)
        res.floor("WR-1", "C08 overwrite-type shape functions", n_ow, 6)
        nw2, sites = wr2(p, res, restrict=in_c08)
        res.floor("WR-2", "C08 shape functions with column accessors", nw2, 15)
        if cfg.startswith("avx"):
            from .c10 import bk6
            nb = bk6(p, res)
            res.floor("BK-6", "normalisation kernel twins", nb, 8)
        else:
            res.ok("BK-6", {"note": "AVX crate not part of this configuration"})
        nd = dc1(p, res)
        res.floor("DC-1", "scalar digit / carry kernels", nd, 60, ref_min=45)
        ne = enc1(p, res)
        res.floor("ENC-1", "encoders", ne, 3)
        npo = post1(p, res)
        res.floor("POST-1", "fused normalise-and-negate forms", npo, 1)
        res.fn_count += n1 + n2 + n6 + n_ow
