"""C08 — limb representation: the carry-chain discipline of normalisation and shifts (thin claim: structure of the chains, not digit arithmetic).

Decided clauses (each a necessary condition of "the output represents input * 2^offset up to one unit of the last limb"):
NRM-1 the final normalisation step is the last link of a carry chain
NRM-2 right shifts: the chain has size(operand) + steps steps for every operand size, result size and shift (piecewise-linear identity over loop trip counts)
NRM-3 same-radix normalisation with a signed bit offset: the chain has max(size(operand) - limb_offset, 0) steps for every operand size, result size and offset
WR-6  the carry buffer is written before a middle / final step reads it on every feasible path
WR-1/WR-2 on the C08 files: every limb of the selected result column is produced, other columns are never addressed
BK-6  the AVX normalisation step kernels apply the digit / carry helpers per lsh branch as often as the reference kernels
DC-1  digit / carry pairing in the scalar step kernels (i64 and i128, reference, AVX scalar tails, encoding): a carry `get_carry(b, x, d)` takes the digit d = get_digit(b, x)
      of the same value and radix; the value a digit was extracted from is never carried on by a plain `x >> b` (the balanced carry is (x - digit) >> b: a plain shift is one
      too small whenever the digit is negative); no computed carry is dropped (each get_carry result reaches a stored value)
Not decided: the digit / carry arithmetic itself (balanced digits, rounding), cross-radix accumulation, integer encoding / decoding.
"""
from . import facts
from .c11 import wr1, wr2, wr6, nrm1, nrm2, nrm3

C08_FILES = ("reference/vec_znx/normalize.rs", "reference/vec_znx/shift.rs", "reference/fft64/vec_znx_big.rs", "reference/ntt120/vec_znx_big.rs", "ntt120/vec_znx_big_avx.rs")


def in_c08(f):
    return any(f.file.endswith(x) for x in C08_FILES)


DIG = ("get_digit_i64", "get_digit_i128")
CAR = ("get_carry_i64", "get_carry_i128")


def dc1(p, res):
    from .cfg import Flow
    from .sym import Sym
    n = 0
    for f in sorted(p.fns.values(), key=lambda x: x.uid):
        if not f.blocks or not f.uid.startswith(("poulpy_cpu_ref", "poulpy_cpu_avx", "poulpy_hal")):
            continue
        calls = [(bi, t) for bi, t in f.calls() if (f.callee_def(t) or {}).get("n") in DIG + CAR]
        if not calls:
            continue
        flow = Flow(f)
        sym = Sym(f, flow)
        digs = {bi: (sym.operand(t["a"][0]).key(), sym.operand(t["a"][1]).key()) for bi, t in calls if (f.callee_def(t) or {}).get("n") in DIG and len(t["a"]) == 2}
        # digits written to memory (`*x = get_digit(..)`) and read back
        stores = []
        for blk in f.blocks:
            for st in blk["s"]:
                if st[0] == "A" and len(st[1]) > 1 and st[2]["k"] == "Use":
                    for r in flow.op_roots(st[2]["o"][0]):
                        if r[0] == "call" and r[1] in digs:
                            stores.append((sym.place(st[1]).key(), r[1]))
        n += 1
        bad = []
        cars = {}
        for bi, t in calls:
            nm = (f.callee_def(t) or {}).get("n")
            if nm not in CAR or len(t["a"]) != 3:
                continue
            cars[bi] = t
            b, x = sym.operand(t["a"][0]).key(), sym.operand(t["a"][1]).key()
            src = [r[1] for r in flow.op_roots(t["a"][2]) if r[0] == "call" and r[1] in digs]
            if not src:
                k3 = sym.operand(t["a"][2]).key()
                src = [bj for kk, bj in stores if kk == k3]
            if not src:
                res.undec("DC-1", "%s: the digit handed to %s is not a get_digit result" % (f.pretty, nm))
            elif not any(digs[bj] == (b, x) for bj in src):
                bad.append(("carry-of-other-value", "%s(b, x, d) receives a digit extracted from another value or with another radix than (b, x)" % nm, t["l"]))
        for blk in f.blocks:
            for st in blk["s"]:
                if st[0] == "A" and st[2]["k"] == "Bin" and st[2].get("op") in ("Shr", "ShrUnchecked"):
                    l, r = sym.operand(st[2]["o"][0]).key(), sym.operand(st[2]["o"][1]).key()
                    if any(x == l and b == r for b, x in digs.values()):
                        bad.append(("plain-shift-of-digit-source", "a value whose digit is extracted with get_digit(b, x) is carried on as x >> b: the carry of a negative digit is one too small", None))
        # every computed carry is used: it reaches a store through arithmetic
        used = set()

        def deps(op, depth=0):
            out = set()
            for r in flow.op_roots(op):
                if r[0] == "call":
                    out.add(r[1])
                elif r[0] == "bin" and depth < 6:
                    for o in f.blocks[r[1]]["s"][r[2]][2]["o"]:
                        out |= deps(o, depth + 1)
            return out
        for bi2, blk in enumerate(f.blocks):
            for st in blk["s"]:
                if st[0] == "A" and (len(st[1]) > 1 or st[1][0] == 0) and st[2]["k"] in ("Use", "Bin", "Cast"):
                    for o in st[2]["o"]:
                        used |= deps(o)
            t = blk["t"]
            if t and t["k"] == "Call":
                for o in t["a"]:
                    used |= deps(o)
        # a carry feeding another carry/digit call is used if that call is used; the closure returns nothing, so stores are the only sinks
        for bi in cars:
            if bi not in used and not f.blocks[bi]["t"]["d"][1:] and f.blocks[bi]["t"]["d"][0] != 0:
                bad.append(("carry-dropped", "the result of a get_carry call reaches no stored value", cars[bi]["l"]))
        if bad:
            for kind, msg, line in bad:
                res.bad("DC-1", f.pretty, kind, "%s: %s" % (f.pretty, msg), site=f.where(line) if line else f.where())
        else:
            res.ok("DC-1", {"fn": f.pretty, "digits": len(digs), "carries": len(cars)})
    return n


def run(res, tier):
    res.level = "other"
    res.explanation = ("Only the structure of the carry chains of C08 is decided, on MIR of the normalisation / shift shape functions (small and big accumulators, both families): the final "
                       "step closes a chain, the carry is initialised before it is read on every feasible path (zero-trip loops, single-limb cases), a right shift passes the carry through "
                       "exactly size(operand) + steps normalisation steps whatever the sizes and the shift (so that the carry of the top limb lands at the right limb), every limb of the "
                       "selected result column is produced and no other column is addressed, and the AVX step kernels apply the digit / carry helpers as often as their reference twins. "
                       "Digit arithmetic, rounding, cross-radix accumulation and integer encoding are not decided.")
    res.rule("NRM-1", "the final normalisation step is the last link of a carry chain - no middle or final step receives the same carry afterwards on a feasible path")
    res.rule("NRM-2", "right shifts: the number of carry-chain steps equals size(operand) + steps for every operand size, result size and shift")
    res.rule("NRM-3", "same-radix normalisation with a signed offset (small and i128 accumulators, plain and fused): chain steps == max(size(operand) - limb_offset, 0)")
    res.rule("WR-6", "carry buffers are written (first step or zero) before a middle / final step reads them on every feasible path")
    res.rule("WR-1", "overwrite-type shape functions of the C08 files cover every limb of the result column")
    res.rule("WR-2", "every accessor on operand X of the C08 files uses column X_col")
    res.rule("BK-6", "AVX normalisation step kernels: (get_digit, get_carry) applications per lsh branch equal those of the *_ref twin")
    res.rule("DC-1", "scalar step kernels: get_carry(b, x, d) takes d = get_digit(b, x); no plain x >> b of a digit source; no computed carry is dropped")
    res.assumptions = ["get_digit / get_carry themselves compute the balanced digit / carry (digit = sign-extended low bits, carry = (x - digit) >> b): not decided",
                       "cross-radix accumulation and encoding / decoding are arithmetic and not decided"]
    cfgs = ["avx-dev"] if tier == "quick" else ["avx-dev", "ref-dev"]
    for cfg in cfgs:
        p = facts.load(cfg)
        res.configs.append(p.build_info)
        n1 = nrm1(p, res)
        res.floor("NRM-1", "shape functions with a final normalisation step", n1, 6)
        n2 = nrm2(p, res)
        res.floor("NRM-2", "right-shift shape functions", n2, 3)
        n3 = nrm3(p, res)
        res.floor("NRM-3", "same-radix offset normalisations", n3, 3)
        n6 = wr6(p, res)
        res.floor("WR-6", "shape functions with a carry chain", n6, 6)
        n_ow, cov = wr1(p, res, restrict=in_c08)
        res.floor("WR-1", "C08 overwrite-type shape functions", n_ow, 6)
        nw2, sites = wr2(p, res, restrict=in_c08)
        res.floor("WR-2", "C08 shape functions with column accessors", nw2, 15)
        if cfg.startswith("avx"):
            from .c10 import bk6
            nb = bk6(p, res)
            res.floor("BK-6", "normalisation kernel twins", nb, 8)
        else:
            res.ok("BK-6", {"note": "AVX crate not part of this configuration"})
        nd = dc1(p, res)
        res.floor("DC-1", "scalar digit / carry kernels", nd, 60, ref_min=45)
        res.fn_count += n1 + n2 + n6 + n_ow
