"""Limb-coverage / column analysis of HAL shape functions (rules WR-1, WR-2, WR-3 shared by C11, C09, C02, C10).

A *shape function* is a library function with a parameter pair (X: layout operand, X_col: usize) - the names are read from
debug info as `<x>` and `<x>_col` - whose first such X is a `&mut` operand (the output).
For overwrite-type functions the limb ranges over which the output limb `at_mut(res, res_col, j)` is handed to a kernel must
chain-cover [0, res.size()) on every returning path, and every path through each loop body must contain such a write."""
from .cfg import CFG, Flow
from .sym import Sym, Poly
from .c20 import cap_subst_for

VIEW_T = ("to_mut", "to_ref", "deref", "deref_mut", "borrow", "borrow_mut", "as_mut", "as_ref", "into", "from", "data", "data_mut")
ACC_MUT = ("at_mut", "limb_u64_mut", "at_mut_ptr", "raw_mut")
ACC_REF = ("at", "limb_u64", "at_ptr", "raw")

OVERWRITE = {
    "vec_znx_zero", "vec_znx_normalize", "vec_znx_add_into", "vec_znx_add_scalar_into", "vec_znx_sub", "vec_znx_sub_scalar", "vec_znx_negate", "vec_znx_rsh",
    "vec_znx_lsh", "vec_znx_rotate", "vec_znx_automorphism", "vec_znx_mul_xp_minus_one", "vec_znx_switch_ring", "vec_znx_copy", "vec_znx_big_from_small",
    "vec_znx_big_add_into", "vec_znx_big_add_small_into", "vec_znx_big_sub", "vec_znx_big_sub_small_a", "vec_znx_big_sub_small_b", "vec_znx_big_negate",
    "vec_znx_big_normalize", "vec_znx_big_automorphism", "vec_znx_dft_apply", "vec_znx_idft_apply", "vec_znx_idft_apply_tmpa", "vec_znx_dft_add_into",
    "vec_znx_dft_sub", "vec_znx_dft_copy", "vec_znx_dft_zero", "svp_apply_dft", "svp_apply_dft_to_dft", "vec_znx_fill_uniform", "vec_znx_fill_normal", "vec_znx_merge_rings",
}


def base_name(n):
    for pre in ("ntt120_", "fft64_"):
        if n.startswith(pre):
            n = n[len(pre):]
    for suf in ("_ref", "_avx", "_default", "_fallback", "_inner", "_impl"):
        if n.endswith(suf):
            n = n[: -len(suf)]
    return n


class ShapeInfo:
    def __init__(self, fn):
        self.fn = fn
        self.pairs = []  # (layout param local, col param local, name)
        self.out = None
        pn = fn.param_names()
        byname = {v: k for k, v in pn.items()}
        for l, nm in sorted(pn.items()):
            c = byname.get(nm + "_col")
            if c is not None and fn.local_ty(c)["s"] == "usize":
                self.pairs.append((l, c, nm))
        for l, c, nm in self.pairs:
            ty = fn.local_ty(l)
            if ty.get("r", "").startswith("&mut"):
                self.out = (l, c, nm)
                break


class Verdict:
    def __init__(self, fn):
        self.fn = fn
        self.kind = None  # "covered" | "gap" | "skip" | "undecided" | "forward"
        self.msg = ""
        self.line = None
        self.ranges = []
        self.branches = []  # per loop: write kinds per body
        self.col_issues = []


def range_of_next(fn, flow, sym, t):
    """for `next(&mut it)` return (lo, hi) polys when `it` is a plain Range (through into_iter), else None"""
    for r in flow.op_roots(t["a"][0]):
        cand = []
        if r[0] == "agg":
            cand.append((r[1], r[2]))
        elif r[0] == "call":
            t2 = fn.blocks[r[1]]["t"]
            if (fn.callee_def(t2) or {}).get("n") in ("into_iter",):
                for r2 in flow.op_roots(t2["a"][0]):
                    if r2[0] == "agg":
                        cand.append((r2[1], r2[2]))
        for b, si in cand:
            rv = fn.blocks[b]["s"][si][2]
            if rv.get("ak") == "Adt" and fn.d(rv["adt"])["p"].endswith("ops::Range"):
                vals = {rv["fields"][i]: sym.operand(rv["o"][i]) for i in range(len(rv["o"]))}
                return vals.get("start"), vals.get("end")
    return None


def _path_tests_output_size(fn, plain, sym, blocks, res_size_atoms, out_l=None):
    """some two-way decision on the path compares a value that depends on the output's limb count"""
    from .rad import _deep_atoms
    for b in blocks:
        t = fn.blocks[b]["t"]
        if not t or t["k"] != "Switch":
            continue
        for r in plain.op_roots(t["o"]):
            if r[0] != "bin":
                return True  # a decision on something that is not a comparison (an Option, a flag): not judged
            st = fn.blocks[r[1]]["s"][r[2]][2]
            for o in st["o"]:
                pl = sym.operand(o)
                ats = _deep_atoms(pl)
                if any(a in res_size_atoms for a in ats) or any(a[0] == "f" and a[1] in ("len", "is_empty") for a in ats):
                    return True
                if out_l is not None and any(a[0] == "p" and a[1] == out_l for a in ats):
                    return True  # a field of the output (its limb count read directly), or the output itself
    return False


def early_return(p, fn):
    """for shape functions outside the limb-range idiom: a returning path (loop bodies traversed) on which the output is handed to nothing - no limb accessor, no callee, no
    closure - and on which no decision looked at the output's size.  Returns a message or None."""
    from . import sc
    si = ShapeInfo(fn)
    if si.out is None:
        return None
    out_l = si.out[0]
    flow = Flow(fn, transparent=VIEW_T + ("index_mut", "iter_mut", "into_iter", "deref_mut"))
    plain = Flow(fn)
    sym = Sym(fn, plain)

    def is_out(op):
        return any(r[0] == "param" and r[1] == out_l for r in flow.op_roots(op))
    touch = set()
    res_size_atoms = set()
    for bi, t in fn.calls():
        d = fn.callee_def(t) or {}
        nm = d.get("n", "")
        if nm == "size" and t["a"] and is_out(t["a"][0]):
            for mono in sym.local(t["d"][0]).t:
                res_size_atoms.update(mono)
            continue
        if nm in VIEW_T or nm in ("size", "n", "cols", "max_size", "base2k", "len"):
            continue
        if any(a[0] in ("c", "m") and is_out(a) for a in t["a"]):
            touch.add(bi)
    for bi, blk in enumerate(fn.blocks):
        for st in blk["s"]:
            if st[0] == "A" and st[2]["k"] == "Agg" and st[2].get("ak") == "Closure" and any(o[0] in ("c", "m") and is_out(o) for o in st[2].get("o", [])):
                touch.add(bi)
    if not touch:
        return None
    g = CFG(fn)
    paths = sc.returning_paths(fn, g, cap=400)
    if not paths:
        return None
    for path in paths:
        if any(b in touch for b in path):
            continue
        if _path_tests_output_size(fn, plain, sym, set(path), res_size_atoms, out_l):
            continue
        return "a returning path hands the output to nothing (no limb accessor, kernel or closure) and no decision on it depends on the output's size (early return): the column keeps its previous contents"
    return None


def analyse(p, fn, memo, depth=0):
    """WR-1 verdict of a shape function"""
    if fn.uid in memo:
        return memo[fn.uid]
    v = Verdict(fn)
    memo[fn.uid] = v
    si = ShapeInfo(fn)
    if si.out is None:
        v.kind = "undecided"
        v.msg = "no (res, res_col) output pair"
        return v
    out_l, out_c, out_n = si.out
    g = CFG(fn)
    flow = Flow(fn, transparent=VIEW_T + ("index_mut", "iter_mut", "as_mut_ptr", "split_at_mut", "get_mut", "get_unchecked_mut", "into_iter", "deref_mut"))
    plain = Flow(fn)
    sym = Sym(fn, plain)
    col_atom = Poly.atom(("p", out_c, ()))

    def is_out_view(op, depth=0):
        for r in flow.op_roots(op):
            if r[0] == "param" and r[1] == out_l:
                return True
            if r[0] == "agg" and depth < 4:
                rv = fn.blocks[r[1]]["s"][r[2]][2]
                if rv.get("ak") == "Adt" and "data" in rv.get("fields", []):
                    if is_out_view(rv["o"][rv["fields"].index("data")], depth + 1):
                        return True
        return False

    # size of the output view: accessor `size` applied to a view of the output parameter
    def is_res_size(poly):
        ats = list(poly.t.items())
        if len(ats) != 1 or ats[0][1] != 1 or len(ats[0][0]) != 1:
            return False
        a = ats[0][0][0]
        return a[0] == "f" and a[1] == "size" and res_size_atoms and a in res_size_atoms

    res_size_atoms = set()
    for bi, t in fn.calls():
        d = fn.callee_def(t) or {}
        if d.get("n") == "size" and t["a"] and is_out_view(t["a"][0]):
            pl = sym.local(t["d"][0])
            for mono in pl.t:
                for a in mono:
                    res_size_atoms.add(a)

    # ---- writes: calls receiving at_mut(out_view, col, j)
    attributed = set()  # (body uid, block of the at_mut call) accounted for by a recognised write

    def limb_writes_in(body_fn, body_flow, body_sym, blocks, out_pred):
        """returns dict block -> list of (limb poly, col poly, callee name)"""
        w = {}
        for bi in blocks:
            # direct stores through a pointer obtained from at_mut(out, col, j)
            for s in body_fn.blocks[bi]["s"]:
                if s[0] != "A" or "*" not in s[1][1:]:
                    continue
                for r in Flow.roots(body_flow, s[1][0]):
                    if r[0] != "call":
                        continue
                    t2 = body_fn.blocks[r[1]]["t"]
                    d2 = body_fn.callee_def(t2) or {}
                    if d2.get("n") in ACC_MUT and t2["a"] and out_pred(t2["a"][0]) and len(t2["a"]) >= 3:
                        attributed.add((body_fn.uid, r[1]))
                        w.setdefault(bi, []).append((body_sym.operand(t2["a"][2]), body_sym.operand(t2["a"][1]), "store"))
            t = body_fn.blocks[bi]["t"]
            if not t or t["k"] != "Call":
                continue
            d = body_fn.callee_def(t) or {}
            if d.get("n") in ACC_MUT:
                continue
            for a in t["a"]:
                if a[0] not in ("c", "m"):
                    continue
                for r in Flow.op_roots(body_flow, a):
                    if r[0] != "call":
                        continue
                    t2 = body_fn.blocks[r[1]]["t"]
                    d2 = body_fn.callee_def(t2) or {}
                    if d2.get("n") in ACC_MUT and t2["a"] and out_pred(t2["a"][0]) and len(t2["a"]) >= 3:
                        attributed.add((body_fn.uid, r[1]))
                        w.setdefault(bi, []).append((body_sym.operand(t2["a"][2]), body_sym.operand(t2["a"][1]), d.get("n")))
        return w

    # forwarding: a call passing (res, res_col) on to another shape function
    forwards = []
    for bi, t in fn.calls():
        if bi not in g.reach:
            continue
        d = fn.callee_def(t) or {}
        tg = [x for x in p.targets(fn, t) if p.fn(x) is not None]
        if not tg or not d.get("u", "").startswith("poulpy_"):
            continue
        for x in tg[:1]:
            cf = p.fn(x)
            csi = ShapeInfo(cf)
            if csi.out is None:
                continue
            ai = csi.out[0] - 1
            ci = csi.out[1] - 1
            if ai < len(t["a"]) and ci < len(t["a"]) and t["a"][ai][0] in ("c", "m") and is_out_view(t["a"][ai]):
                colp = sym.operand(t["a"][ci])
                forwards.append((bi, cf, colp, t))

    # ---- for loops
    loops = []
    for l in g.loops():
        nx = None
        for b in sorted(l["body"]):
            t = fn.blocks[b]["t"]
            if t and t["k"] == "Call" and (fn.callee_def(t) or {}).get("n") == "next" and g.innermost_loop(b) is l:
                nx = (b, t)
                break
        if nx is None:
            continue
        rg = range_of_next(fn, plain, sym, nx[1])
        var = Poly.atom(("call", fn.uid, nx[0], ("0",)))
        loops.append({"loop": l, "next": nx, "range": rg, "var": var})
    # outermost loops only for the chain; nested loops are part of their parent's body
    outer = [L for L in loops if not any(L is not M and L["loop"]["body"] < M["loop"]["body"] for M in loops)]
    items = []  # (anchor block, lo, hi, status, line)
    undecided_reason = None
    for L in outer:
        body = L["loop"]["body"]
        w = limb_writes_in(fn, flow, sym, body, is_out_view)
        # closures called inside the loop body are not followed (undecided if they capture the output)
        if not w:
            continue
        if L["range"] is None:
            undecided_reason = "output written in a loop that is not a plain range"
            continue
        lo, hi = L["range"]
        good_blocks = set()
        other = False
        for bi, ws in w.items():
            for limb, col, nm in ws:
                if limb == L["var"]:
                    good_blocks.add(bi)
                    if col != col_atom:
                        v.col_issues.append((fn.where(fn.blocks[bi]["t"]["l"]), repr(col)))
                else:
                    other = True
        if other and not good_blocks:
            undecided_reason = "output limb index is not the loop variable"
            continue
        # write-free path through the body?
        hdr = L["loop"]["header"]
        nb = L["next"][0]
        # body entry: the Some arm after the next() call's switch
        entry = None
        sw = fn.blocks[nb]["t"]["t"]
        tsw = fn.blocks[sw]["t"] if sw is not None else None
        if tsw and tsw["k"] == "Switch":
            for val, tb in tsw["ts"]:
                if val == 1:
                    entry = tb
        if entry is None:
            undecided_reason = "loop body entry not recognised"
            continue
        latches = set(L["loop"]["latches"])
        st = [entry]
        seen = set()
        skip = False
        while st:
            x = st.pop()
            if x in seen or x not in body:
                continue
            seen.add(x)
            if x in good_blocks:
                continue
            if x in latches or hdr in g.succ[x]:
                skip = True
                break
            st.extend(g.succ[x])
        guard = None
        if skip:
            guard = find_guard(fn, g, plain, sym, body, good_blocks, L["var"], hdr, latches)
        items.append({"bb": hdr, "lo": lo, "hi": hi, "skip": skip, "guard": guard, "line": fn.blocks[nb]["t"]["l"], "mixed": other})
    # ---- for_each closures over ranges
    for bi, t in fn.calls():
        if bi not in g.reach:
            continue
        d = fn.callee_def(t) or {}
        if d.get("n") != "for_each" or not fn.callee_closures(t):
            continue
        cl = p.fn(fn.callee_closures(t)[0])
        if cl is None:
            continue
        from .c20 import range_term
        rt = range_term(fn, plain, sym, t["a"][0])
        cflow = Flow(cl, transparent=VIEW_T)
        csym = Sym(cl, Flow(cl), cap_subst=cap_subst_for(fn, sym, cl.uid))
        # which captures are views of the output?
        from .c20 import closure_creation
        cc = closure_creation(fn, cl.uid)
        out_caps = set()
        if cc:
            for k, o in enumerate(cc[1][2]["o"]):
                if o[0] in ("c", "m") and is_out_view(o):
                    out_caps.add(str(k))
        if not out_caps:
            continue

        def cap_pred(op, out_caps=out_caps, cflow=cflow):
            return any(r[0] == "param" and r[1] == 1 and r[2][:1] and r[2][0] in out_caps for r in cflow.op_roots(op))
        cg = CFG(cl)
        w = limb_writes_in(cl, cflow, csym, cg.reach, cap_pred)
        if not w:
            continue
        if rt is None or rt == ("full",):
            undecided_reason = "output written in a for_each that is not over a plain range"
            continue
        var = Poly.atom(("p", 2, ()))
        good = set()
        other = False
        for b2, ws in w.items():
            for limb, col, nm in ws:
                if limb == var:
                    good.add(b2)
                    if col != col_atom:
                        v.col_issues.append((cl.where(cl.blocks[b2]["t"]["l"]), repr(col)))
                else:
                    other = True
        if other and not good:
            undecided_reason = "output limb index is not the closure argument"
            continue
        st = [0]
        seen = set()
        skip = False
        while st:
            x = st.pop()
            if x in seen:
                continue
            seen.add(x)
            if x in good:
                continue
            if x in cg.returns:
                skip = True
                break
            st.extend(cg.succ[x])
        items.append({"bb": bi, "lo": rt[0], "hi": rt[1], "skip": skip, "line": t["l"], "mixed": other})
    # ---- forwarded coverage
    for bi, cf, colp, t in forwards:
        cv = analyse(p, cf, memo, depth + 1) if depth < 6 else None
        ok_col = colp == col_atom
        if not ok_col:
            v.col_issues.append((fn.where(t["l"]), repr(colp)))
        bn = base_name(cf.name)
        if cv is not None and cv.kind in ("covered", "forward") and bn in OVERWRITE:
            items.append({"bb": bi, "lo": Poly.const(0), "hi": None, "skip": False, "line": t["l"], "full": True, "via": cf.pretty})
        elif cv is not None and cv.kind in ("gap", "skip") and bn in OVERWRITE:
            items.append({"bb": bi, "lo": Poly.const(0), "hi": None, "skip": False, "line": t["l"], "full": False, "via": cf.pretty, "bad_callee": True})
    v.items = items
    if not items:
        v.kind = "undecided"
        v.msg = undecided_reason or "no limb-indexed write of the output recognised"
        return v
    if undecided_reason:
        v.kind = "undecided"
        v.msg = undecided_reason
        return v
    # ---- per returning path of the loop-collapsed CFG: the written limb ranges must cover [0, res.size())
    anchor = {}
    for it in items:
        anchor.setdefault(it["bb"], []).append(it)
    loop_of = {}
    for L in outer:
        for b in L["loop"]["body"]:
            loop_of[b] = L
    paths = []
    budget = [512]

    def walk(b, acc, onpath):
        if budget[0] <= 0:
            return
        if b in loop_of:
            L = loop_of[b]
            h = L["loop"]["header"]
            if h in anchor:
                acc = acc + tuple(anchor[h])
            for (x, y) in L["loop"]["exits"]:
                if y not in onpath and y in g.can_return():
                    walk(y, acc, onpath | set(L["loop"]["body"]) | {y})
            return
        if b in anchor:
            acc = acc + tuple(anchor[b])
        if b in g.returns:
            budget[0] -= 1
            paths.append(acc)
            path_blocks.append(frozenset(onpath))
            return
        for s2 in g.succ[b]:
            if s2 in onpath or s2 not in g.can_return():
                continue
            walk(s2, acc, onpath | {s2})

    path_blocks = []
    walk(0, (), {0})
    if budget[0] <= 0 or not paths:
        v.kind = "undecided"
        v.msg = "too many paths"
        return v
    rs_atom = sorted(res_size_atoms, key=repr)[0] if res_size_atoms else None
    worst = "covered"
    bounded = False
    for pi, path in enumerate(paths):
        if any(it.get("full") for it in path):
            continue
        if not path and not _path_tests_output_size(fn, plain, sym, path_blocks[pi], res_size_atoms, out_l):
            # an early return: nothing is written and no decision on the way looked at the size of the output
            order = {"covered": 0, "undecided": 1, "gap": 2, "skip": 3}
            if order["gap"] > order[worst]:
                worst, v.msg = "gap", "a returning path writes no limb of the output column and no decision on it depends on the output's size (early return): the column keeps its previous contents"
                v.line = fn.blocks[0]["t"]["l"] if fn.blocks[0]["t"] else None
            continue
        if any(it.get("bad_callee") for it in path):
            worst = "gap"
            v.msg = "forwards to %s which does not cover the output" % [it for it in path if it.get("bad_callee")][0]["via"]
            v.line = path[0]["line"]
            continue
        rng = [it for it in path if it.get("hi") is not None]
        if rs_atom is None or not rng:
            if worst == "covered":
                worst, v.msg = "undecided", ("res.size() not read" if rng else "a returning path without a recognised output write")
            continue
        kind, msg, line, pure = cover_check(rng, rs_atom)
        if not pure:
            bounded = True
        if kind != "covered":
            order = {"covered": 0, "undecided": 1, "gap": 2, "skip": 3}
            if order[kind] > order[worst]:
                worst, v.msg, v.line = kind, msg, line
    # every at_mut(out, ..) site must be accounted for before a gap / skip is definite
    unattributed = 0
    for bi, t in fn.calls():
        d = fn.callee_def(t) or {}
        if d.get("n") in ACC_MUT and t["a"] and is_out_view(t["a"][0]) and (fn.uid, bi) not in attributed:
            unattributed += 1
    for cl in p.closures_of(fn):
        for bi, t in cl.calls():
            d = cl.callee_def(t) or {}
            if d.get("n") in ACC_MUT and (cl.uid, bi) not in attributed:
                unattributed += 1
    if worst in ("gap", "skip") and unattributed:
        v.msg = "(%d unrecognised uses of the output limb accessor) " % unattributed + v.msg
        worst = "undecided"
    v.kind = worst
    v.bounded = bounded and worst == "covered"
    v.ranges = [[(repr(it["lo"]), repr(it["hi"]), "cond" if it.get("skip") else "all") for it in path if it.get("hi") is not None] for path in paths][:4]
    return v


def find_guard(fn, g, flow, sym, body, good_blocks, var, hdr, latches):
    """a loop body writes limb j only under a condition; recognise `j >= X` / `j < X` guards -> ("ge"|"lt", X)"""
    cands = []
    for b in sorted(body):
        t = fn.blocks[b]["t"]
        if not t or t["k"] != "Switch" or len(t["ts"]) != 1:
            continue
        for r in flow.op_roots(t["o"]):
            if r[0] != "bin":
                continue
            st = fn.blocks[r[1]]["s"][r[2]][2]
            if st["op"] not in ("Lt", "Le", "Gt", "Ge"):
                continue
            a, c = sym.operand(st["o"][0]), sym.operand(st["o"][1])
            false_t = t["ts"][0][1]
            true_t = t["else"]

            def reaches_write(x):
                st2 = [x]
                seen = set()
                while st2:
                    y = st2.pop()
                    if y in seen or y not in body:
                        continue
                    seen.add(y)
                    if y in good_blocks:
                        return True
                    if y == hdr:
                        continue
                    st2.extend(g.succ[y])
                return False
            wt, wf = reaches_write(true_t), reaches_write(false_t)
            if wt == wf:
                continue
            op = st["op"]
            if c == var:  # X op j  ->  j op' X
                a, c = c, a
                op = {"Lt": "Gt", "Le": "Ge", "Gt": "Lt", "Ge": "Le"}[op]
            if a != var:
                cands.append(("cond", None))
                continue
            if not wt:  # write on the false arm: negate
                op = {"Lt": "Ge", "Le": "Gt", "Gt": "Le", "Ge": "Lt"}[op]
            if op == "Ge":
                cands.append(("ge", c))
            elif op == "Gt":
                cands.append(("ge", c + Poly.const(1)))
            elif op == "Lt":
                cands.append(("lt", c))
            else:
                cands.append(("lt", c + Poly.const(1)))
    if len(cands) == 1:
        return cands[0]
    return ("cond", None)


def _collect_vars(poly, out):
    for mono in poly.t:
        for a in mono:
            if a[0] == "f" and a[1] in ("min", "max", "saturating_sub") and len(a[2]) == 2 and len(a) == 3:
                _collect_vars(Poly(dict(a[2][0])), out)
                _collect_vars(Poly(dict(a[2][1])), out)
            else:
                out.add(a)


def _eval(poly, env):
    tot = 0
    for mono, c in poly.t.items():
        x = c
        for a in mono:
            if a in env:
                x *= env[a]
            elif a[0] == "f" and a[1] in ("min", "max", "saturating_sub") and len(a[2]) == 2:
                l = _eval(Poly(dict(a[2][0])), env)
                r = _eval(Poly(dict(a[2][1])), env)
                x *= min(l, r) if a[1] == "min" else (max(l, r) if a[1] == "max" else max(l - r, 0))
            else:
                raise KeyError(a)
        tot += x
    return tot


def _pure(poly):
    """min/max lattice term over plain variables and constants (then evaluation over a grid that realises every weak ordering is exact)"""
    for mono, c in poly.t.items():
        if len(mono) > 1:
            return False
        for a in mono:
            if c != 1:
                return False
            if a[0] == "f" and a[1] in ("min", "max") and len(a[2]) == 2 and len(a) == 3:
                if not (_pure(Poly(dict(a[2][0]))) and _pure(Poly(dict(a[2][1])))):
                    return False
            elif a[0] == "f" and a[1] in ("size", "len", "cols", "rows", "rank") or a[0] == "p":
                continue
            else:
                return False
    if len([m for m in poly.t if m != ()]) > 1:
        return False
    return True


def cover_check(rng, rs_atom):
    """rng: loop items on one path. Returns (kind, msg, line, pure)."""
    import itertools
    vars_ = set()
    rs_poly = rs_atom if isinstance(rs_atom, Poly) else Poly.atom(rs_atom)
    _collect_vars(rs_poly, vars_)
    polys = []
    for it in rng:
        _collect_vars(it["lo"], vars_)
        _collect_vars(it["hi"], vars_)
        polys += [it["lo"], it["hi"]]
        if it.get("guard") and it["guard"][1] is not None:
            _collect_vars(it["guard"][1], vars_)
            polys.append(it["guard"][1])
    vars_ = sorted(vars_, key=repr)
    pure = all(_pure(q) for q in polys)
    if len(vars_) > 6:
        return "undecided", "too many size variables (%d)" % len(vars_), rng[0]["line"], pure
    top = 4 if len(vars_) <= 5 else 3
    witness = None
    for vals in itertools.product(range(top + 1), repeat=len(vars_)):
        env = dict(zip(vars_, vals))
        try:
            R = _eval(rs_poly, env)
        except KeyError:
            return "undecided", "result size not evaluable", rng[0]["line"], False
        if R <= 0:
            continue
        covered = [False] * R
        cond_at = [None] * R
        try:
            for it in rng:
                lo, hi = _eval(it["lo"], env), _eval(it["hi"], env)
                if it.get("skip"):
                    gk, gx = it.get("guard") or ("cond", None)
                    if gk == "ge":
                        lo = max(lo, _eval(gx, env))
                    elif gk == "lt":
                        hi = min(hi, _eval(gx, env))
                    else:
                        for x in range(max(lo, 0), min(hi, R)):
                            cond_at[x] = it
                        continue
                for x in range(max(lo, 0), min(hi, R)):
                    covered[x] = True
        except KeyError:
            return "undecided", "bound not evaluable", rng[0]["line"], False
        for x in range(R):
            if not covered[x]:
                witness = (env, x, cond_at[x])
                break
        if witness:
            break
    if witness is None:
        return "covered", "", None, pure
    env, x, cond_it = witness
    desc = ", ".join("%s=%d" % (Poly.atom(a), val) for a, val in env.items())
    if cond_it is not None:
        return ("skip", "limb %d of the output column is written only under a condition inside the loop over [%r, %r) and by nothing else (e.g. %s): on the other branch the limb keeps its previous contents"
                % (x, cond_it["lo"], cond_it["hi"], desc), cond_it["line"], pure)
    if pure:
        return "gap", "limb %d of the output column is never written when %s (no zero-fill of the tail)" % (x, desc), rng[-1]["line"], pure
    return "undecided", "coverage not shown for %s (bounds contain arithmetic)" % desc, rng[-1]["line"], pure


def shape_functions(p, prefixes):
    out = []
    for f in p.lib_fns():
        if f.kind == "Closure" or not f.uid.startswith(prefixes):
            continue
        si = ShapeInfo(f)
        if si.pairs:
            out.append((f, si))
    return out


def column_check(p, fn, si):
    """WR-2: every accessor on a view of layout parameter X takes the column X_col (polynomial identity)."""
    issues = []
    flow = Flow(fn, transparent=VIEW_T)
    sym = Sym(fn, Flow(fn))
    by_param = {l: (c, nm) for l, c, nm in si.pairs}
    bodies = [(fn, flow, sym)]
    for cl in p.closures_of(fn):
        bodies.append((cl, Flow(cl, transparent=VIEW_T), Sym(cl, Flow(cl), cap_subst=cap_subst_for(fn, sym, cl.uid))))
    n = 0
    from .c20 import closure_creation
    for body, bflow, bsym in bodies:
        capmap = {}
        if body is not fn:
            cc = closure_creation(fn, body.uid)
            if cc:
                for k, o in enumerate(cc[1][2]["o"]):
                    if o[0] in ("c", "m"):
                        for r in flow.op_roots(o):
                            if r[0] == "param" and r[1] in by_param:
                                capmap[str(k)] = r[1]
        for bi, t in body.calls():
            d = body.callee_def(t) or {}
            if d.get("n") not in ACC_MUT + ACC_REF or len(t["a"]) < 2:
                continue
            if d.get("n") in ("raw", "raw_mut"):
                continue
            owner = None
            for r in bflow.op_roots(t["a"][0]):
                if body is fn and r[0] == "param" and r[1] in by_param:
                    owner = r[1]
                elif body is not fn and r[0] == "param" and r[1] == 1 and r[2][:1] and r[2][0] in capmap:
                    owner = capmap[r[2][0]]
            if owner is None:
                continue
            n += 1
            want = Poly.atom(("p", by_param[owner][0], ()))
            got = bsym.operand(t["a"][1])
            if got != want:
                issues.append((body.where(t["l"]), by_param[owner][1], repr(got)))
    return n, issues
