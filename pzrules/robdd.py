"""Reduced ordered BDD package (hash-consed, memoised ite).  Terminals: 0 and 1.
Nodes are integers >= 2 indexing (level, lo, hi).  `level` is the position of the
variable in the chosen order (smaller = closer to the root)."""


class BDD:
    def __init__(self, order):
        # order: list of variable ids, root first
        self.order = list(order)
        self.level = {v: i for i, v in enumerate(self.order)}
        self.nodes = [None, None]  # index 0,1 terminals
        self.unique = {}
        self.ite_memo = {}

    def mk(self, lvl, lo, hi):
        if lo == hi:
            return lo
        k = (lvl, lo, hi)
        n = self.unique.get(k)
        if n is None:
            n = len(self.nodes)
            self.nodes.append(k)
            self.unique[k] = n
        return n

    def var(self, v):
        return self.mk(self.level[v], 0, 1)

    def _lvl(self, f):
        return self.nodes[f][0] if f > 1 else 1 << 30

    def _cof(self, f, lvl):
        if f > 1 and self.nodes[f][0] == lvl:
            return self.nodes[f][1], self.nodes[f][2]
        return f, f

    def ite(self, f, g, h):
        if f == 1:
            return g
        if f == 0:
            return h
        if g == h:
            return g
        if g == 1 and h == 0:
            return f
        k = (f, g, h)
        r = self.ite_memo.get(k)
        if r is not None:
            return r
        lvl = min(self._lvl(f), self._lvl(g), self._lvl(h))
        f0, f1 = self._cof(f, lvl)
        g0, g1 = self._cof(g, lvl)
        h0, h1 = self._cof(h, lvl)
        r = self.mk(lvl, self.ite(f0, g0, h0), self.ite(f1, g1, h1))
        self.ite_memo[k] = r
        return r

    def NOT(self, f):
        return self.ite(f, 0, 1)

    def AND(self, f, g):
        return self.ite(f, g, 0)

    def OR(self, f, g):
        return self.ite(f, 1, g)

    def XOR(self, f, g):
        return self.ite(f, self.NOT(g), g)

    def eval(self, f, assignment):
        while f > 1:
            lvl, lo, hi = self.nodes[f]
            f = hi if assignment[self.order[lvl]] else lo
        return f

    def any_sat(self, f):
        """one satisfying assignment of f (dict var->0/1 for the variables on the path), or None"""
        if f == 0:
            return None
        out = {}
        while f > 1:
            lvl, lo, hi = self.nodes[f]
            if hi != 0:
                out[self.order[lvl]] = 1
                f = hi
            else:
                out[self.order[lvl]] = 0
                f = lo
        return out

    def size(self):
        return len(self.nodes) - 2


def selfcheck(seed=1, rounds=40, nvars=8):
    """compare ite/AND/OR/XOR against truth tables on random functions"""
    import random

    rnd = random.Random(seed)
    b = BDD(list(range(nvars)))

    def from_tt(tt):
        # tt: list of 2^nvars bits, index bit i = value of var i
        def rec(lvl, idxs):
            if lvl == nvars:
                return tt[idxs]
            lo = rec(lvl + 1, idxs)
            hi = rec(lvl + 1, idxs | (1 << lvl))
            return b.mk(lvl, lo, hi)
        return rec(0, 0)

    checked = 0
    for _ in range(rounds):
        ts = [[rnd.randint(0, 1) for _ in range(1 << nvars)] for _ in range(3)]
        fs = [from_tt(t) for t in ts]
        r = b.ite(fs[0], fs[1], fs[2])
        x = b.XOR(fs[0], fs[1])
        for a in range(1 << nvars):
            asg = {i: (a >> i) & 1 for i in range(nvars)}
            exp = ts[1][a] if ts[0][a] else ts[2][a]
            if b.eval(r, asg) != exp:
                return False, checked
            if b.eval(x, asg) != (ts[0][a] ^ ts[1][a]):
                return False, checked
            checked += 2
        # canonicity: rebuilding the same truth table gives the same node
        if from_tt(ts[0]) != fs[0]:
            return False, checked
    return True, checked
