"""C16 — CKKS metadata and error discipline (values and precision not decided).

CK-1 metadata is written only by the owning modules
CK-2 usize subtractions of budget/precision accessors are guarded by a comparison of the very same values (or checked/saturating helpers)
CK-3 the two named conditions give errors, not panics: no unwrap/expect on key lookups or checked budget arithmetic
CK-4 every success return of an out-of-place operation has defined the destination's metadata
CK-5 equality fast paths and the ordering branches that follow them compare the same pair of quantities
"""
from . import facts, sc
from .cfg import CFG, Flow
from .sym import Sym, Poly

CK = "poulpy_ckks"
META_OWNERS = ("poulpy_ckks::leveled::default", "poulpy_ckks::layouts", "poulpy_ckks::leveled::delegates::composite", "poulpy_ckks::leveled::delegates::encryption",
               "poulpy_ckks::encoding")
T = ("deref", "deref_mut", "borrow", "borrow_mut", "as_mut", "as_ref", "into", "from", "clone")


def meta_store_fields(fn, s):
    """field path of a store statement below a `.meta` field, or None"""
    if s[0] != "A":
        return None
    names = [x[2] for x in s[1][1:] if isinstance(x, list) and x[0] == "f"]
    if "meta" in names:
        return tuple(names[names.index("meta"):])
    return None


def ck1(p, res):
    n = 0
    for f in p.lib_fns():
        if not f.uid.startswith("poulpy_"):
            continue
        for blk in f.blocks:
            if blk["c"]:
                continue
            for s in blk["s"]:
                mf = meta_store_fields(f, s)
                if mf is None:
                    continue
                base_ty = f.local_ty(s[1][0])["s"]
                if "CKKS" not in base_ty and "ckks" not in f.uid:
                    continue
                n += 1
                if f.uid.startswith(META_OWNERS):
                    res.ok("CK-1")
                else:
                    res.bad("CK-1", f.pretty, "meta-write", "%s writes CKKS metadata (%s) outside the owning modules" % (f.pretty, ".".join(mf)), site=f.where(s[3]))
        for bi, t in f.calls():
            d = f.callee_def(t) or {}
            if d.get("n") == "from_inner" and "ckks" in d.get("u", ""):
                n += 1
                if f.uid.startswith(META_OWNERS):
                    res.ok("CK-1")
                else:
                    res.bad("CK-1", f.pretty, "from_inner", "%s builds a CKKS ciphertext with explicit metadata outside the owning modules" % f.pretty, site=f.where(t["l"]))
    return n


def dominating_conds(fn, g, sym, flow, bb):
    """normalised comparison facts that hold on every path reaching block bb (from two-way switches that dominate it through one arm)"""
    facts_ = []
    for b in g.reach:
        t = fn.blocks[b]["t"]
        if not t or t["k"] != "Switch" or b == bb or not g.dominates(b, bb):
            continue
        arms = [(v, x) for v, x in t["ts"]] + [("else", t["else"])]
        holding = [(v, x) for v, x in arms if x == bb or g.dominates(x, bb)]
        # the arm target must not be reachable from the other arm without passing the switch (simple check: dominance of arm target over bb)
        if len(holding) != 1:
            continue
        key = None
        for r in flow.op_roots(t["o"]):
            if r[0] == "bin":
                st = fn.blocks[r[1]]["s"][r[2]][2]
                if st["op"] in ("Eq", "Ne", "Lt", "Le", "Gt", "Ge"):
                    key = ("cmp", st["op"], sym.operand(st["o"][0]).key(), sym.operand(st["o"][1]).key())
            elif r[0] == "call":
                t2 = fn.blocks[r[1]]["t"]
                n = (fn.callee_def(t2) or {}).get("n")
                if n in ("eq", "ne", "lt", "le", "gt", "ge") and len(t2["a"]) == 2:
                    key = ("cmp", n.capitalize(), sym.operand(t2["a"][0]).key(), sym.operand(t2["a"][1]).key())
        if key is None:
            continue
        taken = holding[0][0]
        facts_.append(sc.norm_cond(key, taken if taken != "else" else 1))
    return facts_


def implies_ge(facts_, a, b):
    """facts imply a >= b (a, b poly keys)"""
    for c in facts_:
        if c[0] != "cmp":
            continue
        op, x, y = c[1], c[2], c[3]
        if (x, y) == (a, b) and op in ("Ge", "Gt", "Eq"):
            return True
        if (x, y) == (b, a) and op in ("Le", "Lt", "Eq"):
            return True
    return False


def ck2(p, res):
    n = 0
    for f in sorted(p.lib_fns(), key=lambda x: x.uid):
        if not f.uid.startswith(("poulpy_ckks::leveled", "poulpy_ckks::layouts", "poulpy_ckks::error")):
            continue
        g = CFG(f)
        flow = Flow(f, transparent=T)
        sym = Sym(f, Flow(f))
        for bi in sorted(g.reach):
            for s in f.blocks[bi]["s"]:
                if s[0] != "A" or s[2]["k"] != "Bin" or s[2]["op"] not in ("Sub", "SubWithOverflow", "SubUnchecked"):
                    continue
                if f.tys(s[2]["oty"]) != "usize":
                    continue
                a, b = sym.operand(s[2]["o"][0]), sym.operand(s[2]["o"][1])
                # only subtractions whose operands are budget / precision quantities (accessor values), not loop counters or lengths
                txt = repr(a) + " " + repr(b)
                if not any(k in txt for k in ("log_budget", "log_delta", "effective_k", "offset")):
                    continue
                if b.const_value() is not None and b.const_value() <= 1 and "size" in repr(a):
                    continue
                n += 1
                fs = dominating_conds(f, g, sym, flow, bi)
                if implies_ge(fs, a.key(), b.key()):
                    res.ok("CK-2", {"fn": f.pretty, "sub": "%r - %r" % (a, b), "guard": "dominating comparison"} if n % 6 == 1 else None)
                    continue
                # a - b + c written as (a - b) with a >= b guard on a superset expression is not recognised: report
                # exceptions confirmed by reading (subtrahend is the minimum of a fold that includes the minuend)
                sub_roots = flow.op_roots(s[2]["o"][1])
                fold_min = any(r[0] == "call" and (f.callee_def(f.blocks[r[1]]["t"]) or {}).get("n") in ("fold", "min", "unwrap", "unwrap_or", "min_by_key", "reduce") for r in sub_roots)
                if f.uid.startswith("poulpy_ckks::leveled::delegates::composite") and fold_min:
                    res.ok("CK-2", {"fn": f.pretty, "sub": "%r - %r" % (a, b), "guard": "table exception: subtrahend is the fold minimum"})
                    continue
                res.bad("CK-2", f.pretty, "unguarded-sub:%s" % (repr(b)[:60]),
                        "%s: `%r - %r` on usize budget/precision values is not dominated by a comparison establishing %r >= %r (wraps in release builds, panics in dev builds instead of returning the documented error)"
                        % (f.pretty, a, b, a, b), site=f.where(s[3]))
    return n


def ck3(p, res):
    n = 0
    for f in p.lib_fns():
        if not f.uid.startswith(CK):
            continue
        flow = None
        for bi, t in f.calls():
            d = f.callee_def(t) or {}
            if d.get("n") in ("unwrap", "expect", "unwrap_unchecked") and t["a"]:
                flow = flow or Flow(f, transparent=T)
                for r in flow.op_roots(t["a"][0]):
                    if r[0] == "call":
                        d2 = f.callee_def(f.blocks[r[1]]["t"]) or {}
                        n2 = d2.get("n", "")
                        if n2 == "get_automorphism_key" or n2.startswith("checked_") or n2.startswith("ensure_") or n2 in ("get", "get_mut") and "HashMap" in d2.get("p", ""):
                            res.bad("CK-3", f.pretty, "panic-on:%s" % n2, "%s calls %s() on the result of %s: a missing key / insufficient budget panics instead of returning the documented error" % (f.pretty, d["n"], n2), site=f.where(t["l"]))
            if d.get("n") == "get_automorphism_key":
                n += 1
                # result must reach ok_or / ok_or_else / a match (discriminant) / `?`
                used = False
                dest = t["d"][0]
                fl = Flow(f, transparent=T)
                for b2, t2 in f.calls():
                    n2 = (f.callee_def(t2) or {}).get("n")
                    if n2 in ("ok_or", "ok_or_else", "branch", "map", "and_then", "is_some", "is_none") and t2["a"] and any(r[0] == "call" and r[1] == bi for r in fl.op_roots(t2["a"][0])):
                        used = True
                for blk in f.blocks:
                    for s in blk["s"]:
                        if s[0] == "A" and s[2]["k"] == "Disc" and any(r[0] == "call" and r[1] == bi for r in fl.place_roots(s[2]["p"])):
                            used = True
                if used:
                    res.ok("CK-3", {"fn": f.pretty, "lookup": "get_automorphism_key -> error path"})
                else:
                    res.undec("CK-3", "%s: use of get_automorphism_key result not recognised" % f.pretty)
    return n


def ck4(p, res):
    """summary-based: on every success path the destination's metadata (both fields) is written"""
    cands = [f for f in p.lib_fns() if f.uid.startswith(("poulpy_ckks::", "poulpy_cpu_ref::", "poulpy_cpu_avx::")) and f.kind != "Closure"]
    # destination parameter: first `&mut CKKSCiphertext` parameter
    info = {}
    for f in cands:
        dst = None
        for l in range(1, f.argc + 1):
            ty = f.local_ty(l)
            if ty.get("r", "").startswith("&mut") and "CKKSCiphertext" in ty["s"]:
                dst = l
                break
        if dst is not None:
            info[f.uid] = (f, dst)
    summ = {}  # uid -> set of fields defined on every success return: subset of {"log_delta","log_budget"}

    def success_ok(f, dst, field, summ):
        g = CFG(f)
        flow = Flow(f, transparent=T + ("to_mut",))
        failure = set()
        wblocks = set()
        for bi in g.reach:
            blk = f.blocks[bi]
            for s in blk["s"]:
                if s[0] == "A" and s[1] == [0] and s[2]["k"] == "Agg" and s[2].get("variant") == "Err":
                    failure.add(bi)
                mf = meta_store_fields(f, s)
                if mf is not None and any(r[0] == "param" and r[1] == dst for r in flow.roots(s[1][0])):
                    if len(mf) == 1 or mf[1] == field:
                        wblocks.add(bi)
            t = blk["t"]
            if t and t["k"] == "Call":
                d = f.callee_def(t) or {}
                if d.get("n") == "from_residual":
                    failure.add(bi)
                if d.get("n") in ("set_meta_checked", "set_meta"):
                    if t["a"] and any(r[0] == "param" and r[1] == dst for r in flow.op_roots(t["a"][0])):
                        wblocks.add(bi)
                for x in p.targets(f, t):
                    if x in info and field in summ.get(x, set()):
                        cf, cdst = info[x]
                        if cdst - 1 < len(t["a"]) and any(r[0] == "param" and r[1] == dst for r in flow.op_roots(t["a"][cdst - 1])):
                            wblocks.add(bi)
        # a path entry -> Return avoiding write blocks and failure blocks?
        st = [0]
        seen = set()
        while st:
            x = st.pop()
            if x in seen or x in wblocks or x in failure:
                continue
            seen.add(x)
            if x in g.returns:
                return False
            st.extend(g.succ[x])
        return True

    changed = True
    rounds = 0
    while changed and rounds < 12:
        changed = False
        rounds += 1
        for uid, (f, dst) in info.items():
            cur = summ.get(uid, set())
            new = set(cur)
            for field in ("log_delta", "log_budget"):
                if field not in new and success_ok(f, dst, field, summ):
                    new.add(field)
            if new != cur:
                summ[uid] = new
                changed = True
    n = 0
    for uid, (f, dst) in sorted(info.items()):
        # out-of-place operations: name contains `_into` and the function has at least one CKKS operand besides dst
        if "_into" not in f.name or not f.uid.startswith("poulpy_ckks::leveled"):
            continue
        # in-place / accumulate forms (`ckks_add_pt_*_into(ct, pt)`, `ckks_mul_add_*_into(dst, ..)`) read the destination: their metadata is an input, not an obligation
        fl = Flow(f, transparent=T + ("to_mut", "to_ref"))
        inplace = False
        for bi, t in f.calls():
            d = f.callee_def(t) or {}
            nm = d.get("n", "")
            for ai, a in enumerate(t["a"]):
                if a[0] in ("c", "m") and any(r[0] == "param" and r[1] == dst for r in fl.op_roots(a)):
                    if nm in ("log_budget", "log_delta", "effective_k", "meta", "offset_unary") or "_assign" in nm or nm.endswith("_add_into") or "rsh_add" in nm or "rsh_sub" in nm:
                        inplace = True
        if inplace:
            continue
        n += 1
        got = summ.get(uid, set())
        if got == {"log_delta", "log_budget"}:
            res.ok("CK-4", {"fn": f.pretty, "dst_meta": "defined on every success return"} if n % 12 == 1 else None)
        else:
            missing = sorted({"log_delta", "log_budget"} - got)
            # root cause only: skip when dst is handed to another operation that itself lacks the definition
            inherited = False
            for bi, t in f.calls():
                for x in p.targets(f, t):
                    if x in info and x != uid and set(missing) - summ.get(x, set()):
                        cf, cdst = info[x]
                        if cdst - 1 < len(t["a"]) and any(r[0] == "param" and r[1] == dst for r in fl.op_roots(t["a"][cdst - 1])):
                            inherited = True
            if inherited:
                res.rules["CK-4"]["obligations"] += 1
                continue
            res.bad("CK-4", f.pretty, "meta-undefined:%s" % ",".join(missing),
                    "%s can return Ok(()) on a path that never defines dst.meta.%s: the destination keeps its previous metadata over freshly written limbs" % (f.pretty, "/".join(missing)), site=f.where())
    return n


def ck5(p, res):
    """`if A == B { fast path } else if C <= D { .. } else { .. }`: {A,B} must be {C,D}"""
    n = 0
    for f in sorted(p.lib_fns(), key=lambda x: x.uid):
        if not f.uid.startswith("poulpy_ckks::leveled::default"):
            continue
        g = CFG(f)
        flow = Flow(f, transparent=T)
        sym = Sym(f, Flow(f))

        def cond_of(b):
            t = f.blocks[b]["t"]
            if not t or t["k"] != "Switch" or len(t["ts"]) != 1:
                return None
            for r in flow.op_roots(t["o"]):
                if r[0] == "bin":
                    st = f.blocks[r[1]]["s"][r[2]][2]
                    if st["op"] in ("Eq", "Ne", "Lt", "Le", "Gt", "Ge"):
                        return (st["op"], sym.operand(st["o"][0]), sym.operand(st["o"][1]), t)
            return None
        for b in sorted(g.reach):
            c1 = cond_of(b)
            if not c1 or c1[0] not in ("Eq", "Ne"):
                continue
            if c1[1].const_value() is not None or c1[2].const_value() is not None:
                continue
            t = c1[3]
            # the arm on which the equality is false
            false_arm = t["ts"][0][1] if c1[0] == "Eq" else t["else"]
            # follow straight-line blocks to the next switch
            x = false_arm
            hops = 0
            while hops < 6 and f.blocks[x]["t"] and f.blocks[x]["t"]["k"] in ("Goto",) and len(g.succ[x]) == 1:
                x = g.succ[x][0]
                hops += 1
            # the next decision may sit after a few pure calls (accessor reads)
            y = x
            hops = 0
            while hops < 8 and f.blocks[y]["t"] and f.blocks[y]["t"]["k"] == "Call" and len(g.succ[y]) == 1 and (f.callee_def(f.blocks[y]["t"]) or {}).get("n") in ("log_budget", "log_delta", "effective_k", "max_k", "deref", "meta", "base2k", "as_usize", "into"):
                y = g.succ[y][0]
                hops += 1
            c2 = cond_of(y)
            if not c2 or c2[0] not in ("Lt", "Le", "Gt", "Ge"):
                continue
            n += 1
            p1 = {c1[1].key(), c1[2].key()}
            p2 = {c2[1].key(), c2[2].key()}
            if p1 == p2:
                res.ok("CK-5", {"fn": f.pretty, "pair": sorted(repr(x) for x in (c1[1], c1[2]))})
            else:
                res.bad("CK-5", f.pretty, "comparison-chain",
                        "%s: the equality fast path tests %r == %r but the ordering branches that handle the unequal case compare %r with %r: operands for which the first pair is equal and the second is not take the unshifted path"
                        % (f.pretty, c1[1], c1[2], c2[1], c2[2]), site=f.where(t["l"]))
    return n


# ------------------------------------------------------------------ CK-6
def _canon_atom(a, swap):
    if isinstance(a, tuple) and len(a) == 3 and a[0] == "p" and a[2] == () and a[1] in swap:
        return Poly.atom(("p", swap[a[1]], ()))
    if isinstance(a, tuple) and len(a) >= 3 and a[0] == "f" and isinstance(a[2], tuple):
        args = [_canon_key(k, swap).key() if (isinstance(k, tuple) and (not k or (isinstance(k[0], tuple) and len(k[0]) == 2 and isinstance(k[0][0], tuple)))) else k for k in a[2]]
        if a[1] in ("min", "max", "Add", "Mul", "BitAnd", "BitOr") and len(args) == 2:
            args = sorted(args, key=repr)
        return Poly.atom((a[0], a[1], tuple(args)) + tuple(a[3:]))
    return Poly.atom(a)


def _canon_key(key, swap):
    out = Poly()
    for mono, c in key:
        term = Poly.const(c)
        for a in mono:
            term = term * _canon_atom(a, swap)
        out = out + term
    return out


def ck6(p, res):
    """ct x ct multiplication is commutative: the parameters derived from (a, b) - result metadata and the convolution offset handed to the
    tensor product - are invariant under exchanging the two operands (results of fallible helper calls are treated as symmetric)"""
    n = 0
    for f in sorted(p.lib_fns(), key=lambda x: x.uid):
        if not f.uid.startswith("poulpy_ckks::leveled::default") or f.kind == "Closure":
            continue
        if not (f.name.startswith("get_") and f.name.endswith("_ct_params")):
            continue
        pn = {v: k for k, v in f.param_names().items()}
        if "a" not in pn or "b" not in pn:
            continue
        callers = [g for g in p.lib_fns() if g.uid.startswith("poulpy_ckks") and any(f.uid in p.targets(g, t) for _, t in g.calls())]
        if not callers:
            continue
        n += 1
        sym = Sym(f, Flow(f))
        swap = {pn["a"]: pn["b"], pn["b"]: pn["a"]}
        ident = {}
        bad = []
        checked = []
        for nm, pl, ai in f.names:
            if ai is not None or not pl or len(pl) != 1:
                continue
            v = sym.local(pl[0])
            # only values that are functions of the operands
            k0 = _canon_key(v.key(), ident).key()
            k1 = _canon_key(v.key(), swap).key()
            if "'p'" not in repr(k0):
                continue
            checked.append(nm)
            if k0 != k1:
                bad.append((nm, repr(v)))
        if bad:
            res.bad("CK-6", f.pretty, "asymmetric:%s" % ",".join(x[0] for x in bad),
                    "%s derives `%s` = %s, which changes when the two ciphertext operands are exchanged: a*b and b*a would be computed at different scales although the metadata agrees"
                    % (f.pretty, bad[0][0], bad[0][1]), site=f.where())
        elif checked:
            res.ok("CK-6", {"fn": f.pretty, "symmetric": checked, "callers": len(callers)})
        else:
            res.undec("CK-6", "%s: no operand-dependent local" % f.pretty)
    return n


VIEW_T = ("to_ref", "to_mut", "deref", "deref_mut", "borrow", "borrow_mut", "as_ref", "as_mut", "into", "from", "as_usize", "clone")


def size_preconditions(p):
    """core operations that assert `k.div_ceil(base2k) == x.size()` for a precision argument k and an operand x: {fn uid: [(k param, x param)]}"""
    out = {}
    for f in p.lib_fns():
        if not f.uid.startswith("poulpy_core::operations") or f.kind == "Closure":
            continue
        flow = Flow(f, transparent=VIEW_T)
        pre = []
        for blk in f.blocks:
            for s in blk["s"]:
                if s[0] != "A" or s[2]["k"] != "Bin" or s[2]["op"] != "Eq":
                    continue
                kp, xp = set(), set()
                for o in s[2]["o"]:
                    for r in flow.op_roots(o):
                        if r[0] != "call":
                            continue
                        t = f.blocks[r[1]]["t"]
                        nm = (f.callee_def(t) or {}).get("n")
                        if nm == "div_ceil" and t["a"]:
                            kp |= {q[1] for q in flow.op_roots(t["a"][0]) if q[0] == "param" and not q[2]}
                        elif nm == "size" and t["a"]:
                            xp |= {q[1] for q in flow.op_roots(t["a"][0]) if q[0] == "param"}
                if len(kp) == 1 and len(xp) == 1:
                    pre.append((list(kp)[0], list(xp)[0]))
        if pre:
            out[f.uid] = sorted(set(pre))
    # forwarders (public delegates, backend hooks): a function passing its own parameters in the asserted positions inherits the precondition
    changed = True
    rounds = 0
    while changed and rounds < 6:
        changed = False
        rounds += 1
        for f in p.lib_fns():
            if f.kind == "Closure" or f.uid in out or not (f.uid.startswith("poulpy_core::") or f.uid.startswith("poulpy_cpu_")):
                continue
            flow = None
            for bi, t in f.calls():
                tg = [u for u in p.targets(f, t) if u in out]
                if not tg:
                    continue
                if flow is None:
                    flow = Flow(f, transparent=VIEW_T)
                inh = []
                for (kp, xp) in out[tg[0]]:
                    if kp - 1 >= len(t["a"]) or xp - 1 >= len(t["a"]):
                        continue
                    kr = {q[1] for q in flow.op_roots(t["a"][kp - 1]) if q[0] == "param" and not q[2]}
                    xr = {q[1] for q in flow.op_roots(t["a"][xp - 1]) if q[0] == "param"}
                    if len(kr) == 1 and len(xr) == 1:
                        inh.append((list(kr)[0], list(xr)[0]))
                if inh:
                    out[f.uid] = sorted(set(inh))
                    changed = True
                    break
    return out


def ck7(p, res):
    """never panics: a core operation that asserts `k.div_ceil(base2k) == x.size()` must not be handed, by the CKKS layer, a precision read from the operand's metadata
    (effective_k = log_delta + log_budget) together with the operand itself. Metadata and limb count move independently (rescale, div_pow2, reallocate, any *_into into
    a larger destination), so either the callee accepts operands with spare limbs or the call site establishes the relation (dominating div_ceil comparison -> error)."""
    pre = size_preconditions(p)
    n = 0
    for f in sorted(p.lib_fns(), key=lambda x: x.uid):
        if not f.uid.startswith("poulpy_ckks::leveled") or f.kind == "Closure":
            continue
        g = None
        flow = None
        for bi, t in f.calls():
            tgs = [u for u in p.targets(f, t) if u.startswith("poulpy_core::")]
            if not tgs or len(t["a"]) < 3:
                continue
            if flow is None:
                flow = Flow(f, transparent=VIEW_T)
                g = CFG(f)
            if bi not in g.reach:
                continue
            # argument pairs (operand O, O.effective_k())
            kobj = {}
            for ai, a in enumerate(t["a"]):
                for r in flow.op_roots(a):
                    if r[0] == "call":
                        t2 = f.blocks[r[1]]["t"]
                        if (f.callee_def(t2) or {}).get("n") == "effective_k" and t2["a"]:
                            for q in flow.op_roots(t2["a"][0]):
                                if q[0] == "param":
                                    kobj.setdefault(ai, set()).add(q[1])
            for ki, objs in sorted(kobj.items()):
                for xi, a in enumerate(t["a"]):
                    if xi == ki:
                        continue
                    xr = {q[1] for q in flow.op_roots(a) if q[0] == "param"}
                    if not (xr & objs) or f.local_ty(a[1][0])["s"] in ("usize", "u32") if a[0] in ("c", "m") else not (xr & objs):
                        continue
                    n += 1
                    pname = f.param_names().get(sorted(xr & objs)[0], "?")
                    cal = (f.callee_def(t) or {}).get("n")
                    asserted = any((ki + 1, xi + 1) in pre.get(u, []) for u in tgs)
                    est = any((f.callee_def(t3) or {}).get("n") == "div_ceil" and g.dominates(bj, bi) for bj, t3 in f.calls())
                    if not asserted or est:
                        res.ok("CK-7", {"fn": f.pretty, "callee": cal, "operand": pname, "callee_asserts_exact_size": asserted})
                    else:
                        res.bad("CK-7", f.pretty, "size-precondition:%s:%s" % (cal, pname),
                                "%s hands `%s` and `%s.effective_k()` to %s, which asserts effective_k.div_ceil(base2k) == size(): a ciphertext holding more limbs than its metadata "
                                "needs (after rescale / div_pow2 / reallocate / an *_into into a larger destination) makes the operation panic instead of returning a value or an error"
                                % (f.pretty, pname, pname, cal), site=f.where(t["l"]))
    return n


CAP_CALLS = ("offset_unary", "offset_binary", "max_k", "set_meta_checked", "max_size")


def ck8(p, res):
    """log_delta + log_budget never exceeds the stored precision: an out-of-place operation writes metadata taken from its source over a destination of its own size, so it has to
    consult the destination's capacity (offset_unary / offset_binary / max_k / set_meta_checked on dst, directly, in a helper that receives dst, or in the operation it delegates dst to)"""
    memo = {}

    def consults(f, l, depth=0):
        key = (f.uid, l)
        if key in memo:
            return memo[key]
        memo[key] = False
        if depth > 6:
            return False
        flow = Flow(f, transparent=T + ("to_mut", "to_ref"))
        out = False
        for bi, t in f.calls():
            d = f.callee_def(t) or {}
            nm = d.get("n", "")
            for ai, a in enumerate(t["a"]):
                if a[0] not in ("c", "m"):
                    continue
                if not any(r[0] == "param" and r[1] == l for r in flow.op_roots(a)):
                    continue
                if nm in CAP_CALLS:
                    out = True
                else:
                    for x in p.targets(f, t):
                        g2 = p.fns.get(x)
                        if g2 is not None and g2.uid.startswith("poulpy_ckks::") and g2.blocks and ai + 1 <= g2.argc:
                            if consults(g2, ai + 1, depth + 1):
                                out = True
            if out:
                break
        memo[key] = out
        return out

    n = 0
    for f in sorted(p.lib_fns(), key=lambda x: x.uid):
        if not f.uid.startswith("poulpy_ckks::leveled::default") or f.kind == "Closure" or "_into" not in f.name:
            continue
        dst = None
        srcs = []
        for l in range(1, f.argc + 1):
            ty = f.local_ty(l)
            if "CKKSCiphertext" in ty["s"]:
                if ty.get("r", "").startswith("&mut") and dst is None:
                    dst = l
                else:
                    srcs.append(l)
        if dst is None or not srcs:
            continue
        # does the function store metadata into dst, or delegate dst?  (accumulating forms read dst's own metadata: they consult it by construction)
        n += 1
        if consults(f, dst):
            res.ok("CK-8", {"fn": f.pretty, "dst": f.param_names().get(dst)} if n % 10 == 1 else None)
        else:
            res.bad("CK-8", f.pretty, "capacity-ignored:%s" % f.param_names().get(dst, "dst"),
                    "%s writes its result and metadata into `%s` without ever consulting the destination's capacity (offset_unary / offset_binary / max_k / set_meta_checked): with a "
                    "destination smaller than the source it returns Ok with log_delta + log_budget > max_k" % (f.pretty, f.param_names().get(dst, "dst")), site=f.where())
    return n


def _sign(x):
    return (x > 0) - (x < 0)


def ck9(p, res):
    """exponent balance of ct x ct multiplication.  A ciphertext with metadata (log_delta, log_budget) holds m * 2^-log_budget on the torus; the tensor product scaled by
    2^cnv_offset therefore holds m_a m_b * 2^(cnv_offset - budget_a - budget_b), and the metadata written for it claims m_a m_b * 2^-res_log_budget.  Hence, wherever the
    derivation does not take its error exit,   cnv_offset + res_log_budget == budget_a + budget_b   with (budget_a, budget_b) the values handed to checked_mul_ct_log_budget.
    Both sides are piecewise linear in the operands' metadata and the destination capacity; the identity is decided on the extracted expressions (pwl.Eval)."""
    from . import pwl
    n = 0
    for f in sorted(p.lib_fns(), key=lambda x: x.uid):
        if not f.uid.startswith("poulpy_ckks::leveled") or f.kind == "Closure":
            continue
        mc = [(bi, t) for bi, t in f.calls() if (f.callee_def(t) or {}).get("n") == "checked_mul_ct_log_budget" and len(t["a"]) == 5]
        if len(mc) != 1:
            continue
        g = CFG(f)
        if mc[0][0] not in g.reach:
            continue
        sym = Sym(f, Flow(f))
        ba, bb_, da, db = (sym.operand(a) for a in mc[0][1]["a"][1:5])
        # shape A: returns Ok((budget, delta, offset)); shape B: hands the offset to the tensor product and stores the budget in dst.meta
        off = bud = None
        shape = None
        for bi in sorted(g.reach):
            for st in f.blocks[bi]["s"]:
                if st[0] == "A" and st[1] == [0] and st[2]["k"] == "Agg" and st[2].get("variant") == "Ok" and st[2]["o"]:
                    o = st[2]["o"][0]
                    if o[0] in ("c", "m") and len(o[1]) == 1:
                        for d in sym.flow.defs.get(o[1][0], []):
                            if d[0] != "call" and d[4]["k"] == "Agg" and d[4].get("ak") == "Tuple" and len(d[4]["o"]) == 3:
                                bud, off = sym.operand(d[4]["o"][0]), sym.operand(d[4]["o"][2])
                                shape = "helper"
        if shape is None:
            tens = [(bi, t) for bi, t in f.calls() if (f.callee_def(t) or {}).get("n", "").startswith(("glwe_tensor_apply", "glwe_tensor_square_apply")) and bi in g.reach and len(t["a"]) > 2]
            offs = {sym.operand(t["a"][1]).key() for bi, t in tens}
            stores = []
            for bi in sorted(g.reach):
                for st in f.blocks[bi]["s"]:
                    mf = meta_store_fields(f, st)
                    if mf is not None and len(mf) == 2 and mf[1] == "log_budget" and st[2]["k"] == "Use":
                        stores.append(sym.operand(st[2]["o"][0]))
            if len(offs) == 1 and stores and all(x.key() == stores[0].key() for x in stores):
                off, bud = Poly(dict(list(offs)[0])), stores[0]
                shape = "inline"
        if shape is None:
            continue
        n += 1
        classes = set()
        good = 0
        bad = None
        for val in pwl.valuations():
            ev = pwl.Eval(p, val)
            ev.syms[f.uid] = sym
            try:
                vo, vb = ev.poly(off), ev.poly(bud)
                xa, xb, ya, yb = ev.poly(ba), ev.poly(bb_), ev.poly(da), ev.poly(db)
            except pwl.ErrPath:
                continue
            if min(xa, xb, ya, yb, vo, vb) < 0:
                continue
            good += 1
            classes.add((_sign(xa - xb), _sign(ya - yb), _sign(xa + ya - xb - yb)))
            if vo + vb != xa + xb and bad is None:
                bad = {"budget_a": xa, "budget_b": xb, "delta_a": ya, "delta_b": yb, "cnv_offset": vo, "res_log_budget": vb}
        if good < 500 or len(classes) < 13:
            res.undec("CK-9", "%s: only %d admissible valuations in %d ordering classes" % (f.pretty, good, len(classes)))
        elif bad:
            res.bad("CK-9", f.pretty, "exponent-balance:%s" % shape,
                    "%s: cnv_offset + res_log_budget != log_budget(a) + log_budget(b), e.g. %s gives %d + %d != %d + %d: the product is returned with metadata that does not describe its "
                    "scale (the decrypted value is off by a power of two) whenever the operand with the larger log_delta has the smaller log_budget"
                    % (f.pretty, bad, bad["cnv_offset"], bad["res_log_budget"], bad["budget_a"], bad["budget_b"]), site=f.where(mc[0][1]["l"]), detail=bad)
        else:
            res.ok("CK-9", {"fn": f.pretty, "shape": shape, "valuations": good, "ordering_classes": len(classes)})
    return n


def _atoms_of(pl, out):
    for a in pl.atoms():
        out.add(repr(a))
        if a[0] == "f":
            for k in a[2]:
                _atoms_of(Poly(dict(k)), out)


def _const_producers_encode_at_effective_k(p):
    """CKKSConstPlaintextConversion::to_znx_at_k(self, base2k, k, log_delta): the digits are produced by encode_const_coeff_*(base2k, k, ..) and the attached metadata is
    (log_delta, k saturating_sub log_delta), i.e. effective_k == k whenever k >= log_delta"""
    fs = [f for f in p.lib_fns() if f.name == "to_znx_at_k" and f.uid.startswith("poulpy_ckks::") and f.blocks]
    if not fs:
        return False
    for f in fs:
        pn = {v: k for k, v in f.param_names().items()}
        if "k" not in pn or "log_delta" not in pn:
            return False
        sym = Sym(f, Flow(f))
        kk, dd = Poly.atom(("p", pn["k"], ())), Poly.atom(("p", pn["log_delta"], ()))
        enc = 0
        for body in [f] + p.closures_of(f):
            bs = Sym(body, Flow(body)) if body is not f else sym
            for bi, t in body.calls():
                if (body.callee_def(t) or {}).get("n", "").startswith("encode_const_coeff") and len(t["a"]) >= 2:
                    enc += 1
                    v = bs.operand(t["a"][1])
                    # inside the closures k is a capture: accept the capture of k (by name)
                    if body is f and v.key() != kk.key():
                        return False
        meta_ok = False
        for blk in f.blocks:
            for st in blk["s"]:
                if st[0] == "A" and st[2]["k"] == "Agg" and "CKKSMeta" in str(st[2].get("adt", st[2].get("s", ""))) or (st[0] == "A" and st[2]["k"] == "Agg" and st[2].get("fields") == ["log_delta", "log_budget"]):
                    o = st[2]["o"]
                    if len(o) == 2:
                        a, b = sym.operand(o[0]), sym.operand(o[1])
                        want = Poly.atom(("f", "saturating_sub", (kk.key(), dd.key())))
                        if a.key() == dd.key() and b.key() == want.key():
                            meta_ok = True
        if not (enc and meta_ok):
            return False
    return True


def ck9_pt(p, res):
    """exponent balance of ct x plaintext multiplication.  The ciphertext holds m_a * 2^-budget_a, the plaintext m_b * 2^(delta_b - position_b) with position_b a property of the
    plaintext alone; the product scaled by 2^cnv_offset is claimed to be m_a m_b * 2^-res_log_budget.  Hence  cnv_offset + res_log_budget - budget_a + delta_b  is the plaintext's
    position: it must not change when only the ciphertext's metadata or the destination's capacity change."""
    from . import pwl
    import random
    n = 0
    for f in sorted(p.lib_fns(), key=lambda x: x.uid):
        if not f.uid.startswith("poulpy_ckks::leveled") or f.kind == "Closure":
            continue
        mc = [(bi, t) for bi, t in f.calls() if (f.callee_def(t) or {}).get("n") == "checked_mul_pt_log_budget" and len(t["a"]) == 5]
        if len(mc) != 1:
            continue
        g = CFG(f)
        sym = Sym(f, Flow(f))
        ba, bb_, da, db = (sym.operand(a) for a in mc[0][1]["a"][1:5])
        off = bud = None
        for bi in sorted(g.reach):
            for st in f.blocks[bi]["s"]:
                if st[0] == "A" and st[1] == [0] and st[2]["k"] == "Agg" and st[2].get("variant") == "Ok" and st[2]["o"]:
                    o = st[2]["o"][0]
                    if o[0] in ("c", "m") and len(o[1]) == 1:
                        for d in sym.flow.defs.get(o[1][0], []):
                            if d[0] != "call" and d[4]["k"] == "Agg" and d[4].get("ak") == "Tuple" and len(d[4]["o"]) == 3:
                                bud, off = sym.operand(d[4]["o"][0]), sym.operand(d[4]["o"][2])
        if off is None:
            continue
        n += 1
        vary = set()
        _atoms_of(ba, vary)
        _atoms_of(da, vary)
        fixed = set()
        _atoms_of(db, fixed)
        vary -= fixed
        good = 0
        bad = None
        for val in pwl.valuations(count=3000):
            ev = pwl.Eval(p, val)
            ev.syms[f.uid] = sym
            try:
                d1 = ev.poly(off) + ev.poly(bud) - ev.poly(ba) + ev.poly(db)
                s1 = {"budget_a": ev.poly(ba), "delta_a": ev.poly(da), "delta_b": ev.poly(db), "cnv_offset": ev.poly(off), "res_log_budget": ev.poly(bud)}
            except pwl.ErrPath:
                continue
            v2 = {k: v for k, v in ev.val.items() if k not in vary and not (k.startswith("('f', 'max_k'") and "('p', 1, ())" in k)}
            r = random.Random(repr(sorted((k, v) for k, v in v2.items() if k != "__fresh__")))
            v2["__fresh__"] = lambda k, r=r: r.randint(0, 24)
            ev2 = pwl.Eval(p, v2)
            ev2.syms[f.uid] = sym
            try:
                d2 = ev2.poly(off) + ev2.poly(bud) - ev2.poly(ba) + ev2.poly(db)
                s2 = {"budget_a": ev2.poly(ba), "delta_a": ev2.poly(da), "delta_b": ev2.poly(db), "cnv_offset": ev2.poly(off), "res_log_budget": ev2.poly(bud)}
            except pwl.ErrPath:
                continue
            good += 1
            if d1 != d2 and bad is None:
                bad = (s1, s2)
        # constants: CKKSPlaintextCstZnx producers encode the digits at k = log_delta + log_budget of the metadata they attach (checked below), so when the
        # plaintext operand of the derivation is a bare CKKSMeta its position is that metadata's effective_k
        meta_params = [l for l in range(1, f.argc + 1) if f.local_ty(l)["s"].endswith("CKKSMeta")]
        if meta_params and good >= 300 and not bad and not _const_producers_encode_at_effective_k(p):
            res.undec("CK-9", "%s: constant producers do not visibly encode at log_delta + log_budget; constant position not decided" % f.pretty)
        elif meta_params and good >= 300 and not bad:
            mp = meta_params[0]
            pk = Poly.atom(("p", mp, ())).key()
            for val in pwl.valuations(count=1500):
                ev = pwl.Eval(p, val)
                ev.syms[f.uid] = sym
                try:
                    d1 = ev.poly(off) + ev.poly(bud) - ev.poly(ba) + ev.poly(db)
                    pos = ev.atom(("f", "log_delta", (pk,))) + ev.atom(("f", "log_budget", (pk,)))
                except pwl.ErrPath:
                    continue
                if d1 != pos:
                    bad = ({"plaintext_position_assumed": d1, "effective_k_of_constant": pos, "log_delta": ev.atom(("f", "log_delta", (pk,))), "log_budget": ev.atom(("f", "log_budget", (pk,)))}, {})
                    break
            if bad:
                res.bad("CK-9", f.pretty, "exponent-balance:constant-position",
                        "%s places the constant at bit position %d while its digits are encoded at log_delta + log_budget = %d (%s): a constant produced by to_znx_at_k(k) with k not a "
                        "multiple of base2k is multiplied in at the wrong scale" % (f.pretty, bad[0]["plaintext_position_assumed"], bad[0]["effective_k_of_constant"], bad[0]),
                        site=f.where(mc[0][1]["l"]), detail=bad[0])
                continue
        if good < 300:
            res.undec("CK-9", "%s: only %d admissible valuation pairs" % (f.pretty, good))
        elif bad:
            res.bad("CK-9", f.pretty, "exponent-balance:plaintext-position",
                    "%s: cnv_offset + res_log_budget - log_budget(a) + log_delta(b) (the bit position of the plaintext) changes with the ciphertext's metadata alone: %s vs %s. The product "
                    "is returned with metadata that does not describe its scale" % (f.pretty, bad[0], bad[1]), site=f.where(mc[0][1]["l"]), detail={"first": bad[0], "second": bad[1]})
        else:
            res.ok("CK-9", {"fn": f.pretty, "shape": "ct x pt", "valuation_pairs": good})
    return n


def ck10(p, res):
    """ensure_plaintext_alignment(op, ct_log_budget, pt_log_delta, pt_k) returns the number of bits by which the plaintext still has to be moved to sit at the ciphertext's scale.
    A caller that takes the success payload and never uses it adds / subtracts the plaintext at its own bit position and reports success."""
    n = 0
    for f in sorted(p.lib_fns(), key=lambda x: x.uid):
        if not f.uid.startswith("poulpy_ckks::") or f.kind == "Closure":
            continue
        sites = [(bi, t) for bi, t in f.calls() if (f.callee_def(t) or {}).get("n") == "ensure_plaintext_alignment"]
        if not sites:
            continue
        g = CFG(f)
        for bi, t in sites:
            if bi not in g.reach or not t.get("d"):
                continue
            n += 1
            carriers = {t["d"][0]}
            used = False
            returned = False
            changed = True
            while changed:
                changed = False
                for bj in sorted(g.reach):
                    blk = f.blocks[bj]
                    for st in blk["s"]:
                        if st[0] != "A":
                            continue
                        reads = [o[1][0] for o in st[2].get("o", []) if o[0] in ("c", "m")]
                        if st[2]["k"] in ("Ref", "RawPtr", "Discriminant") and "p" in st[2]:
                            reads.append(st[2]["p"][0])
                        if not (set(reads) & carriers):
                            continue
                        if st[2]["k"] in ("Use", "Cast", "Ref") and len(st[1]) == 1:
                            if st[1][0] == 0:
                                returned = True
                            elif st[1][0] not in carriers:
                                carriers.add(st[1][0])
                                changed = True
                        elif st[2]["k"] == "Discriminant":
                            pass
                        else:
                            used = True
                    tt = blk["t"]
                    if tt and tt["k"] == "Call":
                        nm = (f.callee_def(tt) or {}).get("n", "")
                        rd = [a[1][0] for a in tt["a"] if a[0] in ("c", "m")]
                        if set(rd) & carriers:
                            if nm in ("branch", "from_residual"):
                                if tt.get("d") and tt["d"][0] not in carriers and nm == "branch":
                                    carriers.add(tt["d"][0])
                                    changed = True
                            else:
                                used = True
                    elif tt and tt["k"] == "SwitchInt":
                        pass
            if used or returned:
                res.ok("CK-10", {"fn": f.pretty, "alignment_offset": "used"})
            else:
                res.bad("CK-10", f.pretty, "alignment-offset-dropped",
                        "%s asks ensure_plaintext_alignment how far the plaintext is from the ciphertext's scale and drops the answer: a constant encoded below log_budget + log_delta is added at "
                        "its own bit position and Ok is returned" % f.pretty, site=f.where(t["l"]))
    return n


SHIFT_READS = {  # callee -> (index of the source operand, index of the shift amount or None) among the call arguments (self included)
    "glwe_lsh": (2, 3), "glwe_lsh_add": (2, 3), "glwe_lsh_sub": (2, 3),
    "glwe_add_into": ((2, 3), None), "glwe_sub": ((2, 3), None), "glwe_add_assign": ((2,), None), "glwe_sub_assign": ((2,), None), "glwe_sub_negate_assign": ((2,), None),
    "glwe_negate": ((2,), None), "glwe_copy": ((2,), None), "glwe_automorphism": ((2,), None), "glwe_rotate": ((2,), None),
}
VALUE_PRESERVING = ("add", "sub", "neg", "rotate", "conjugate", "rescale", "align")


def ck17(p, res):
    """plaintext conversions (`to_znx` / `decode_from_znx`): the encoder puts the quantised slots at a torus precision k of the ZNX object and the decoder reads them back at a
    precision k - the two are the same expression of that object (`other.max_k()`), as are the positions the rest of the crate assumes.  Writer and reader are compared like the
    item sequences of a serialiser: every `encode_vec_*` and every `decode_vec_*` on a CKKS plaintext object names the same precision, with parameters rendered by name."""
    import re
    n = 0
    sites = []
    for f in sorted(p.lib_fns(), key=lambda x: x.uid):
        if not f.uid.startswith("poulpy_ckks::layouts::plaintext") or not f.blocks or f.is_test() or f.kind == "Closure":
            continue
        sym = None
        pn = f.param_names()
        for bi, t in f.calls():
            nm = (f.callee_def(t) or {}).get("n", "")
            m = re.match(r"(encode|decode)_(vec|coeff)_i(64|128)$", nm)
            if not m or len(t["a"]) < 3:
                continue
            sym = sym or Sym(f, Flow(f))
            k = repr(sym.operand(t["a"][-1]))
            k = re.sub(r"arg(\d+)", lambda mm: pn.get(int(mm.group(1)), mm.group(0)), k)
            sites.append((f, m.group(1), k, t["l"]))
    from collections import Counter
    cnt = Counter(k for _, _, k, _ in sites)
    if not cnt:
        return 0
    major = cnt.most_common(1)[0][0]
    for f, role, k, line in sites:
        n += 1
        if k != major:
            res.bad("CK-17", f.pretty, "precision-position:%s" % role, "%s %ss the slots at precision `%s` while the other %d conversion sites of the plaintext module use `%s`: what one side writes at "
                    "one position the other side (and every operation that aligns a plaintext by its max_k) reads at another" % (f.pretty, role, k, cnt[major], major), site=f.where(line))
        else:
            res.ok("CK-17", {"fn": f.pretty, "role": role, "precision": k})
    return n


def ck16(p, res):
    """level alignment (`ckks_align_assign`): of two ciphertexts the one with the larger log_budget is rescaled by the difference, so that both end at the same log_budget.
    Per returning path: the operand X handed to the in-place rescale and the amount k satisfy  log_budget(X) - k == log_budget(Y)  for every valuation of the metadata that
    satisfies the path's comparisons (the subtraction is in usize: k > log_budget(X) - 0 would be an error path of the rescale, not an alignment)."""
    from . import pwl
    n = 0
    for f in sorted(p.lib_fns(), key=lambda x: x.uid):
        if not f.uid.startswith("poulpy_ckks::leveled::default") or f.kind == "Closure" or "align" not in f.name or "tmp_bytes" in f.name:
            continue
        cts = [l for l in range(1, f.argc + 1) if "CKKSCiphertext" in f.local_ty(l)["s"] and f.local_ty(l).get("r", "").startswith("&mut")]
        if len(cts) != 2:
            continue
        n += 1
        g = CFG(f)
        paths = sc.returning_paths(f, g, cap=64) or []
        bad = None
        pts = 0
        for path in paths:
            flow = sc.PathFlow(f, path, transparent=T + ("to_mut", "to_ref"))
            sym = Sym(f, sc.PathFlow(f, path))
            calls = [f.blocks[b]["t"] for b in path if f.blocks[b]["t"] and f.blocks[b]["t"]["k"] == "Call" and "rescale_assign" in (f.callee_def(f.blocks[b]["t"]) or {}).get("n", "")]
            if len(calls) != 1 or len(calls[0]["a"]) < 3:
                continue
            t = calls[0]
            X = [r[1] for r in flow.op_roots(t["a"][1]) if r[0] == "param" and r[1] in cts]
            if len(X) != 1:
                continue
            X = X[0]
            Y = [l for l in cts if l != X][0]
            k = sym.operand(t["a"][2])
            bx = Poly.atom(("f", "log_budget", (Poly.atom(("p", X, ())).key(),)))
            by = Poly.atom(("f", "log_budget", (Poly.atom(("p", Y, ())).key(),)))
            conds = [sc.norm_cond(kk, tt) for kk, tt in sc.path_conditions(f, g, path, sym)]
            for val in pwl.valuations(count=1500):
                ev = pwl.Eval(p, val)
                ev.syms[f.uid] = sym
                try:
                    ok = True
                    for cnd in conds:
                        if cnd[0] != "cmp":
                            continue
                        x, y = ev.key(cnd[2]), ev.key(cnd[3])
                        if not {"Eq": x == y, "Ne": x != y, "Lt": x < y, "Le": x <= y, "Gt": x > y, "Ge": x >= y}[cnd[1]]:
                            ok = False
                            break
                    if not ok:
                        continue
                    vx, vy, vk = ev.poly(bx), ev.poly(by), ev.poly(k)
                except (pwl.ErrPath, ZeroDivisionError):
                    continue
                pts += 1
                if vx - vk != vy and bad is None:
                    pn = f.param_names()
                    bad = {"rescaled": pn.get(X), "log_budget_rescaled": vx, "log_budget_other": vy, "k": vk, "k_expr": repr(k)}
        if bad:
            res.bad("CK-16", f.pretty, "align-law", "%s rescales `%s` (log_budget %d) by %s = %d while the other operand sits at log_budget %d: the two do not end at the same log_budget "
                    "(the operand with the larger budget is the one to bring down, by the difference)" % (f.pretty, bad["rescaled"], bad["log_budget_rescaled"], bad["k_expr"], bad["k"], bad["log_budget_other"]),
                    site=f.where(), detail=bad)
        elif pts < 300:
            res.undec("CK-16", "%s: too few admissible points (%d)" % (f.pretty, pts))
        else:
            res.ok("CK-16", {"fn": f.pretty, "points": pts, "law": "log_budget(X) - k == log_budget(Y)"})
    return n


def ck11(p, res):
    """exponent balance of the value-preserving operations (add / sub / neg / rotate / conjugate / rescale): an operand with log_budget b that is shifted left by s bits and
    lands in a result whose metadata says log_budget r still represents the same slots only if  s + r == b.  Decided per returning path (path-specific definitions, the
    path's comparisons as side conditions) on the extracted expressions."""
    from . import pwl
    n = 0
    for f in sorted(p.lib_fns(), key=lambda x: x.uid):
        if not f.uid.startswith("poulpy_ckks::leveled::default") or f.kind == "Closure":
            continue
        if not any(k in f.name for k in VALUE_PRESERVING) or "mul" in f.name or "pow2" in f.name or "_pt_" in f.name or "tmp_bytes" in f.name:
            continue
        cts = [l for l in range(1, f.argc + 1) if "CKKSCiphertext" in f.local_ty(l)["s"]]
        if len(cts) < 2:
            continue
        dst = [l for l in cts if f.local_ty(l).get("r", "").startswith("&mut")]
        if not dst:
            continue
        dst = dst[0]
        g = CFG(f)
        paths = sc.returning_paths(f, g, cap=64)
        if not paths:
            continue
        checked_paths = 0
        bad = None
        bad12 = None
        n12 = 0
        for path in paths:
            flow = sc.PathFlow(f, path, transparent=T + ("to_mut", "to_ref"))
            sym = Sym(f, sc.PathFlow(f, path))
            # failure paths are not obligations
            if any(st[0] == "A" and st[1] == [0] and st[2]["k"] == "Agg" and st[2].get("variant") == "Err" for b in path for st in f.blocks[b]["s"]):
                continue
            if any((f.callee_def(f.blocks[b]["t"]) or {}).get("n") == "from_residual" for b in path if f.blocks[b]["t"] and f.blocks[b]["t"]["k"] == "Call"):
                continue
            reads = {}  # operand param -> shift poly
            multi = False
            for b in path:
                t = f.blocks[b]["t"]
                if not t or t["k"] != "Call":
                    continue
                nm = (f.callee_def(t) or {}).get("n", "")
                if nm not in SHIFT_READS:
                    continue
                srcs, ki = SHIFT_READS[nm]
                if isinstance(srcs, int):
                    srcs = (srcs,)
                for si in srcs:
                    if si >= len(t["a"]):
                        continue
                    for r in flow.op_roots(t["a"][si]):
                        if r[0] == "param" and r[1] in cts and r[1] != dst:
                            k = sym.operand(t["a"][ki]) if ki is not None else Poly()
                            if r[1] in reads:
                                multi = True
                            reads[r[1]] = k
            if not reads or multi:
                continue
            # metadata stored on this path: the last store to dst.meta.log_budget, or the budget of the operand whose meta() was copied wholesale
            bud = None
            dlt = None
            copied_from = None  # operand whose meta() was copied into dst before the final budget store (dst.log_budget() then reads that operand's budget)
            for b in path:
                for st in f.blocks[b]["s"]:
                    mf = meta_store_fields(f, st)
                    if mf is None or not any(r[0] == "param" and r[1] == dst for r in flow.roots(st[1][0])):
                        continue
                    if len(mf) == 2 and mf[1] == "log_budget" and st[2]["k"] == "Use":
                        bud = sym.operand(st[2]["o"][0])
                    elif len(mf) == 2 and mf[1] == "log_delta" and st[2]["k"] == "Use":
                        dlt = sym.operand(st[2]["o"][0])
                    elif len(mf) == 1 and st[2]["k"] == "Use":
                        v = sym.operand(st[2]["o"][0])
                        at = list(v.atoms())
                        if len(at) == 1 and at[0][0] in ("f", "call"):
                            # dst.meta = X.meta()
                            src = None
                            if at[0][0] == "call":
                                t2 = f.blocks[at[0][2]]["t"]
                                if (f.callee_def(t2) or {}).get("n") == "meta" and t2["a"]:
                                    rr = [r[1] for r in flow.op_roots(t2["a"][0]) if r[0] == "param"]
                                    src = rr[0] if rr else None
                            elif at[0][1] == "meta":
                                pk = at[0][2][0]
                                src = [a[1] for mono, c in pk for a in mono if a[0] == "p"]
                                src = src[0] if src else None
                            if src is not None:
                                bud = Poly.atom(("f", "log_budget", (Poly.atom(("p", src, ())).key(),)))
                                copied_from = src
            if bud is None:
                continue
            conds = [sc.norm_cond(k, t) for k, t in sc.path_conditions(f, g, path, sym)]
            checked_paths += 1
            if dlt is not None:
                n12 += 1
            good = 0
            for val in pwl.valuations(count=1500):
                ev = pwl.Eval(p, val)
                ev.syms[f.uid] = sym
                try:
                    ok = True
                    if copied_from is not None:
                        for acc in ("log_budget", "log_delta"):
                            ev.val[repr(("f", acc, (Poly.atom(("p", dst, ())).key(),)))] = ev.atom(("f", acc, (Poly.atom(("p", copied_from, ())).key(),)))
                    for c in conds:
                        if c[0] != "cmp":
                            continue
                        x, y = ev.key(c[2]), ev.key(c[3])
                        if not {"Eq": x == y, "Ne": x != y, "Lt": x < y, "Le": x <= y, "Gt": x > y, "Ge": x >= y}[c[1]]:
                            ok = False
                            break
                    if not ok:
                        continue
                    rb = ev.poly(bud)
                    if rb < 0:
                        continue
                    for X, k in reads.items():
                        sx = ev.poly(k)
                        bx = ev.atom(("f", "log_budget", (Poly.atom(("p", X, ())).key(),)))
                        if sx < 0:
                            ok = False
                            break
                        if sx + rb != bx and bad is None:
                            bad = {"operand": f.param_names().get(X), "shift": sx, "result_log_budget": rb, "operand_log_budget": bx}
                    # CK-12: the result does not claim a finer scaling precision than any operand it is computed from (the in-place forms read dst itself)
                    if ok and dlt is not None:
                        rd = ev.poly(dlt)
                        ops = list(reads) + ([dst] if f.name.replace("_default", "").endswith(("_assign", "_assign_unsafe")) and copied_from is None else [])
                        for X in ops:
                            dx = ev.atom(("f", "log_delta", (Poly.atom(("p", X, ())).key(),)))
                            if rd > dx and bad12 is None:
                                bad12 = {"operand": f.param_names().get(X), "result_log_delta": rd, "operand_log_delta": dx}
                    if ok:
                        good += 1
                except pwl.ErrPath:
                    continue
        if not checked_paths:
            continue
        n += 1
        if bad:
            res.bad("CK-11", f.pretty, "shift-budget-balance:%s" % bad["operand"],
                    "%s shifts operand `%s` by %d bits into a result marked log_budget = %d although the operand's log_budget is %d: on that path shift + result budget != operand budget, "
                    "the operand enters the result at the wrong scale while the metadata looks right" % (f.pretty, bad["operand"], bad["shift"], bad["result_log_budget"], bad["operand_log_budget"]),
                    site=f.where(), detail=bad)
        else:
            res.ok("CK-11", {"fn": f.pretty, "paths": checked_paths})
        if "CK-12" in res.rules and n12:
            if bad12:
                res.bad("CK-12", f.pretty, "log-delta-exceeds-operand:%s" % bad12["operand"],
                        "%s stores log_delta = %d while operand `%s` has log_delta = %d: a sum / difference is not more precise than its coarsest operand; with the stored log_budget "
                        "the result claims log_delta + log_budget beyond what its limbs hold (the out-of-place sibling stores the minimum)"
                        % (f.pretty, bad12["result_log_delta"], bad12["operand"], bad12["operand_log_delta"]), site=f.where(), detail=bad12)
            else:
                res.ok("CK-12", {"fn": f.pretty, "paths": n12})
    return n


def ck15(p, res):
    """an operation that returns a new owned ciphertext built from a ciphertext parameter allocates it with that parameter's rank: the function reads `rank()` of the source
    (directly or through `alloc_from_infos(&src)` / a layout built from it); `CKKSCiphertext::alloc` hard-codes rank 1"""
    T2 = T + ("to_ref", "to_mut")
    n = 0
    for f in sorted(p.lib_fns(), key=lambda x: x.uid):
        if f.kind == "Closure" or not f.blocks or not f.uid.startswith("poulpy_ckks::") or f.is_test():
            continue
        ret = f.local_ty(0).get("s", "")
        if "CKKSCiphertext<std::vec::Vec<u8>>" not in ret.replace("alloc::vec::Vec", "std::vec::Vec"):
            continue
        srcs = [l for l in range(1, f.argc + 1) if "CKKSCiphertext" in f.local_ty(l).get("s", "")]
        if not srcs:
            continue
        allocs = [(bi, t) for bi, t in f.calls() if (f.callee_def(t) or {}).get("n") in ("alloc", "alloc_from_infos")
                  and any(k in (f.callee_def(t) or {}).get("p", "") for k in ("CKKSCiphertext", "GLWE"))]
        if not allocs:
            continue            # forwarders
        n += 1
        flow = Flow(f, transparent=T2)
        reads_rank = any((f.callee_def(t) or {}).get("n") == "rank" and t["a"] and any(r[0] == "param" and r[1] in srcs for r in flow.op_roots(t["a"][0])) for _, t in f.calls())
        from_infos = any((f.callee_def(t) or {}).get("n") == "alloc_from_infos" and t["a"] and any(r[0] == "param" and r[1] in srcs for r in flow.op_roots(t["a"][-1])) for _, t in allocs)
        if reads_rank or from_infos:
            res.ok("CK-15", {"fn": f.pretty})
        else:
            res.bad("CK-15", f.pretty, "owned-result-rank",
                    "%s returns a new ciphertext built from its ciphertext parameter and allocates it without consulting that parameter's rank (CKKSCiphertext::alloc is rank 1): for a "
                    "rank-2 source the raw limbs are copied into a rank-1 object and Ok is returned" % f.pretty, site=f.where(allocs[0][1]["l"]))
    return n


def ck14(p, res):
    """never panics on a constant finer than the ciphertext: a limb accessor `X.at_mut(c, i)` whose index is the counter of `enumerate()` over another container (the digits of
    an encoded constant) is bounded by the object - the iterator chain contains `take(..)` / `zip(..)`, or the index is compared with `size()` on a dominating branch"""
    IT = ("into_iter", "iter", "iter_mut", "by_ref", "deref", "deref_mut", "borrow", "borrow_mut", "as_ref", "as_mut")
    n = 0
    for f in sorted(p.fns.values(), key=lambda x: x.uid):
        if not f.blocks or not f.uid.startswith("poulpy_ckks::") or f.is_test():
            continue
        flow = chain = g = None
        for bi, t in f.calls():
            nm = (f.callee_def(t) or {}).get("n")
            if nm not in ("at", "at_mut") or len(t["a"]) != 3:
                continue
            if flow is None:
                flow = Flow(f)
                chain = Flow(f, transparent=IT)
                g = CFG(f)
            for r in flow.op_roots(t["a"][2]):
                if not (r[0] == "call" and (f.callee_def(f.blocks[r[1]]["t"]) or {}).get("n") == "next" and r[2][:2] == ("0", "0")):
                    continue
                names = set()
                stack = [f.blocks[r[1]]["t"]["a"][0]]
                seen = set()
                while stack:
                    o = stack.pop()
                    for q in chain.op_roots(o):
                        if q[0] == "call" and q[1] not in seen:
                            seen.add(q[1])
                            t2 = f.blocks[q[1]]["t"]
                            names.add((f.callee_def(t2) or {}).get("n"))
                            stack += list(t2["a"])
                if "enumerate" not in names:
                    continue
                n += 1
                bounded = bool(names & {"take", "zip", "take_while"})
                if not bounded:
                    # index compared with something on a dominating two-way switch
                    for b in g.reach:
                        tt = f.blocks[b]["t"]
                        if tt and tt["k"] == "Switch" and g.dominates(b, bi) and b != bi:
                            for q in flow.op_roots(tt["o"]):
                                if q[0] == "bin" and f.blocks[q[1]]["s"][q[2]][2].get("op") in ("Lt", "Le", "Gt", "Ge"):
                                    if any(x[0] == "call" and x[1] == r[1] for o in f.blocks[q[1]]["s"][q[2]][2]["o"] for x in flow.op_roots(o)):
                                        bounded = True
                if bounded:
                    res.ok("CK-14", {"fn": f.pretty})
                else:
                    res.bad("CK-14", f.pretty, "enumerate-indexed-limb:%s" % "+".join(sorted(x for x in names if x and x not in ("enumerate", "next"))),
                            "%s addresses limb `i` of its destination with the counter of an `enumerate()` over another container and nothing bounds that iteration by the destination's "
                            "limb count: a constant encoded with more digits than the ciphertext has limbs panics in the accessor" % f.pretty, site=f.where(t["l"]))
    return n


def ck13(p, res):
    """never panics on a plaintext of another radix: an operation of poulpy-ckks that hands the limbs of a znx plaintext parameter (`pt`, `pt_znx`) to a core / HAL operation
    together with a ciphertext is dominated, in the same function, by `ensure_base2k_match` (which returns PlaintextBase2KMismatch); the core operations assert equal radices"""
    T2 = T + ("to_ref", "to_mut", "data", "data_mut", "inner", "inner_mut")
    n = 0
    for f in sorted(p.lib_fns(), key=lambda x: x.uid):
        if f.kind == "Closure" or not f.blocks or not f.uid.startswith("poulpy_ckks::") or f.is_test():
            continue
        pn = f.param_names()
        pts = [l for l, nm in pn.items() if nm.startswith("pt") and "Znx" in f.local_ty(l).get("s", "")]
        if not pts:
            continue
        flow = Flow(f, transparent=T2)
        g = CFG(f)
        for bi, t in f.calls():
            nm = (f.callee_def(t) or {}).get("n", "")
            if not (nm.startswith("glwe_") or nm.startswith("vec_znx")) or nm.endswith("tmp_bytes"):
                continue
            if not any(any(r[0] == "param" and r[1] in pts for r in flow.op_roots(a)) for a in t["a"]):
                continue
            n += 1
            ens = [b for b, t2 in f.calls() if (f.callee_def(t2) or {}).get("n") == "ensure_base2k_match" and g.dominates(b, bi)]
            if ens:
                res.ok("CK-13", {"fn": f.pretty, "call": nm})
            else:
                res.bad("CK-13", f.pretty, "plaintext-radix-unchecked:%s" % nm,
                        "%s hands its znx plaintext to `%s` without `ensure_base2k_match`: for a plaintext of another base2k the core operation's radix assertion panics where the "
                        "sibling operations return PlaintextBase2KMismatch" % (f.pretty, nm), site=f.where(t["l"]))
    return n


def run(res, tier):
    res.level = "other"
    res.explanation = ("Metadata-write and error-path discipline of the CKKS layer decided on MIR: who may write CKKSMeta, budget/precision subtractions guarded by a dominating comparison of the "
                       "same values, key lookups and checked arithmetic never unwrapped, destination metadata defined on every success return of out-of-place operations (interprocedural "
                       "summary), and equality fast paths consistent with the ordering branches that follow them. Slot values, error magnitudes and the numeric invariant "
                       "log_delta + log_budget <= max_k are not decided.")
    res.rule("CK-17", "plaintext conversions: encoders and decoders of the plaintext module name the same precision position of the ZNX object")
    res.rule("CK-16", "level alignment: the operand handed to the in-place rescale ends at the other operand's log_budget on every path")
    res.rule("CK-15", "an operation returning a new owned ciphertext built from a ciphertext parameter allocates it with that parameter's rank")
    res.rule("CK-14", "a limb accessor indexed by the counter of enumerate() over another container is bounded by take / zip / a comparison")
    res.rule("CK-13", "a core / HAL operation that receives a znx plaintext parameter of a CKKS operation is dominated by ensure_base2k_match")
    res.rule("CK-12", "value-preserving operations store a log_delta that does not exceed the log_delta of any operand they read (in-place forms: of dst itself too)")
    res.rule("CK-1", "stores to CKKS `meta` and from_inner(..) occur only in poulpy_ckks::{leveled::default, layouts, leveled::delegates::{composite,encryption}, encoding}")
    res.rule("CK-2", "usize `a - b` on budget/precision values is dominated by a comparison establishing a >= b over the same value numbers")
    res.rule("CK-3", "get_automorphism_key / checked_* / ensure_* results are never unwrapped; the key lookup result reaches an error path")
    res.rule("CK-4", "every `*_into*` operation defines dst.meta.log_delta and dst.meta.log_budget (or delegates dst to a function that does) on every success return")
    res.rule("CK-6", "the parameter derivation of ct x ct multiplication (result metadata, convolution offset) is invariant under exchanging the operands a and b (min/max commutative, helper results symmetric)")
    res.rule("CK-7", "a core operation asserting k.div_ceil(base2k) == x.size() is not handed (x, x.effective_k()) without the call site establishing the relation")
    res.rule("CK-8", "every out-of-place operation consults the destination's capacity (offset_unary / offset_binary / max_k / set_meta_checked) before storing source-derived metadata")
    res.rule("CK-9", "ct x ct multiplication: cnv_offset + res_log_budget == log_budget(a) + log_budget(b) on every non-error valuation (piecewise-linear identity over the extracted expressions)")
    res.rule("CK-10", "the offset returned by ensure_plaintext_alignment is used (shift amount, comparison, return value), not dropped")
    res.rule("CK-11", "value-preserving operations: on every success path, shift(operand) + stored result log_budget == operand log_budget (path-wise piecewise-linear identity)")
    res.rule("CK-5", "an `==` fast path followed by `<`/`<=` branches compares the same pair of quantities")
    res.assumptions = ["poulpy-core shape asserts are outside this property", "metadata on Err paths is not required to be untouched"]
    cfgs = ["avx-dev"] if tier == "quick" else ["avx-dev", "ref-dev"]
    for cfg in cfgs:
        p = facts.load(cfg)
        res.configs.append(p.build_info)
        n1 = ck1(p, res)
        res.floor("CK-1", "metadata write sites", n1, 25)
        n2 = ck2(p, res)
        res.floor("CK-2", "budget subtractions", n2, 10)
        n3 = ck3(p, res)
        res.floor("CK-3", "automorphism key lookups", n3, 2)
        n4 = ck4(p, res)
        res.floor("CK-4", "out-of-place operations", n4, 25)
        # CK-5 is subsumed by CK-11 for the functions CK-11 decides; it has no floor, so that rewriting an `==` fast path away is not an alarm
        n5 = ck5(p, res)
        if n5 == 0:
            res.ok("CK-5", {"note": "no equality fast path followed by ordering branches on this tree"})
        n7 = ck7(p, res)
        res.floor("CK-7", "core size preconditions reached with metadata-derived precision", n7, 6)
        n8 = ck8(p, res)
        res.floor("CK-8", "out-of-place operations with a source ciphertext", n8, 20)
        n9 = ck9(p, res)
        res.floor("CK-9", "ct x ct offset derivations", n9, 2)
        n9p = ck9_pt(p, res)
        res.floor("CK-9", "ct x pt offset derivations", n9p, 2)
        n10 = ck10(p, res)
        res.floor("CK-10", "plaintext alignment queries", n10, 4)
        n15 = ck15(p, res)
        res.floor("CK-15", "operations returning an owned ciphertext built from a parameter", n15, 1)
        n16 = ck16(p, res)
        res.floor("CK-16", "level-alignment operations", n16, 1)
        n17 = ck17(p, res)
        res.floor("CK-17", "encode / decode sites of the plaintext module", n17, 4)
        n14 = ck14(p, res)
        res.floor("CK-14", "enumerate-indexed limb accessors", n14, 4)
        n13 = ck13(p, res)
        res.floor("CK-13", "core calls receiving a znx plaintext", n13, 4)
        n11 = ck11(p, res)
        res.floor("CK-11", "value-preserving operations with shifted operands", n11, 4)
        n6 = ck6(p, res)
        res.floor("CK-6", "ct x ct parameter derivations", n6, 1)
        res.fn_count += n4
