"""C03 / C04 shared: digit-grouped gadget products (thin claims; noise and the gadget arithmetic are not decided).

KS-1   digit loops (`for di in 0..dsize`): the limbs of the operand are selected with step == dsize and offset o, the product is accumulated with limb offset l, and
       o + l == dsize - 1 on every path of the loop body (the first digit is the overwrite product at limb offset 0) - path-wise piecewise-linear identity
SIGN-3 (C03) the Galois-element helpers compute in (Z/2NZ)* with the cyclotomic order
WR-4   (C03/C04) vmp kernels with a limb offset zero-fill the limbs they do not write
SC-3   (shared, not re-run here) accumulators of multi-digit products are zeroed before the first reduced-size product
PACK-1 (C03) the packing butterfly of both implementations, interpreted over the free module {a, b, phi(a), phi(b)} x X^(k t) with coefficients in Z[1/2]
SIGN-4 (C03) Galois elements stored with set_p are reduced modulo the cyclotomic order
RAD-1 / RAD-2 (rad.py; C03 / C04 / C05) cross-radix conversions are decided by the comparison of the radices they convert between; radix-asserting operations are not
       called with operands the dominating guards make different
CMUX-1 (C04) cmux forms: the operand added back after the product is the subtrahend of the difference that was multiplied (res = (t - f) * s + f)
"""
from . import facts, sc, pwl
from .cfg import CFG, Flow
from .sym import Sym, Poly

RAD_PREFIXES = ("poulpy_core::keyswitching", "poulpy_core::automorphism", "poulpy_core::glwe_trace", "poulpy_core::glwe_packing", "poulpy_core::glwe_packer", "poulpy_core::conversion")
SELECT = ("vec_znx_dft_copy", "vec_znx_dft_apply")
VT = ("deref", "deref_mut", "borrow", "borrow_mut", "as_mut", "as_ref", "into", "from", "clone", "to_ref", "to_mut", "data", "data_mut")


class _Unjudged(Exception):
    pass


def _sw_holds(f, ev, sym, cond):
    """a two-way decision on a boolean value (`if x.is_multiple_of(d)`), evaluated under the valuation; raises when the value is not evaluable"""
    (_, _, bb), val = cond
    t = f.blocks[bb]["t"]
    pl = sym.operand(t["o"])
    for a in pl.atoms():
        if a[0] == "call":
            nm = (f.callee_def(f.blocks[a[2]]["t"]) or {}).get("n", "")
            if nm not in ("is_multiple_of", "checked_sub", "clamp", "next_multiple_of"):
                raise _Unjudged()
        elif a[0] == "f" and a[1] not in ("min", "max", "saturating_sub", "div_ceil", "Lt", "Le", "Gt", "Ge", "Eq", "Ne", "BitAnd", "Div", "Rem", "size", "dnum", "dsize", "Not", "is_multiple_of"):
            raise _Unjudged()
    v = ev.poly(pl)
    listed = [x for x, _ in t["ts"]]
    return (v not in listed) if val == "else" else (v == val)


def _group_size(f, g, L, path, sym, sel_t):
    """the `set_size` of the selection's destination inside the digit loop: {"size", "src_size", "rows"} or None"""
    plain = Flow(f, transparent=VT)
    dst = {r for r in plain.op_roots(sel_t["a"][3])}
    src = [r for r in plain.op_roots(sel_t["a"][5]) if r[0] == "param"]
    if not src:
        return None
    out = None
    for b in path:
        t = f.blocks[b]["t"]
        if b in L["body"] and t and t["k"] == "Call" and (f.callee_def(t) or {}).get("n") == "set_size" and len(t["a"]) == 2:
            if {r for r in plain.op_roots(t["a"][0])} & dst:
                out = sym.operand(t["a"][1])
    if out is None:
        return None
    from .rad import _deep_atoms
    src_size = Poly.atom(("f", "size", (Poly.atom(("p", src[0][1], src[0][2])).key(),)))
    # the operand's limb count as the group size itself names it (`a.size()` of the object, `a.data.size()` of its buffer: one quantity)
    named = [a for a in _deep_atoms(out) if a[0] == "f" and a[1] == "size" and any(b[0] == "p" and b[1] == src[0][1] for b in _deep_atoms(Poly(dict(a[2][0]))))]
    if len(set(named)) == 1:
        src_size = Poly.atom(named[0])
    rows = [a for a in _deep_atoms(out) if a[0] == "f" and a[1] == "dnum"]
    return {"size": out, "src_size": src_size, "rows": Poly.atom(rows[0]) if len(rows) == 1 else None}


ks2_all = []


def ks2_report(res):
    """KS-2 verdicts collected by the last run of ks1"""
    n = 0
    for f, k in ks2_all:
        if k["points"] == 0 and k["bad"] is None:
            if k["unjudged"]:
                res.undec("KS-2", "%s: the group size depends on a decision that is not evaluable" % f.pretty)
            continue
        n += 1
        if k["bad"]:
            b = k["bad"]
            res.bad("KS-2", f.pretty, "digit-group-too-short",
                    "%s gives the digit group a size of %s: for an operand of %d limbs, dsize = %d and digit offset %d the copy selects %d limbs (rows available: %s) but the group is cut to %d - "
                    "the remaining limbs of the operand never meet the key" % (f.pretty, b["expr"], b["limbs_of_a"], b["dsize"], b["digit_offset"], b["selected_by_the_copy"], b["rows"], b["size_set"]),
                    site=f.where(), detail=b)
        elif k["points"] < 200:
            res.undec("KS-2", "%s: too few admissible points (%d)" % (f.pretty, k["points"]))
        else:
            res.ok("KS-2", {"fn": f.pretty, "points": k["points"], "law": "group size >= min(ceil((size(a) - offset) / step), rows)"})
    return n


def ks1(p, res, prefixes):
    n = 0
    del ks2_all[:]
    for f in sorted(p.lib_fns(), key=lambda x: x.uid):
        if f.kind == "Closure" or not f.blocks or not f.uid.startswith(prefixes):
            continue
        g = CFG(f)
        sel = []
        sym0 = None
        for bi, t in f.calls():
            if (f.callee_def(t) or {}).get("n") in SELECT and len(t["a"]) >= 3 and g.innermost_loop(bi) is not None:
                if sym0 is None:
                    sym0 = Sym(f, Flow(f))
                st = sym0.operand(t["a"][1])
                if not (st.is_const() and st.const_value() == 1):
                    sel.append((bi, t))
        if not sel:
            continue
        vm = [(bi, t) for bi, t in f.calls() if (f.callee_def(t) or {}).get("n") == "vmp_apply_dft_to_dft" and g.innermost_loop(bi) is not None and len(t["a"]) >= 5]
        if not vm:
            continue
        n += 1
        paths = sc.returning_paths(f, g, cap=800, unroll=1) or []
        bad = None
        ks2 = {"points": 0, "bad": None, "unjudged": 0}
        ks2_all.append((f, ks2))
        checked = 0
        seen = set()
        for path in paths:
            pos = set(path)
            s_on = [(bi, t) for bi, t in sel if bi in pos]
            v_on = [(bi, t) for bi, t in vm if bi in pos]
            if not s_on or not v_on:
                continue
            # one evaluation per combination of (selection site, product site, blocks of the digit loop body traversed): paths that differ elsewhere are equivalent here
            body_all = set()
            for l in g.loops():
                if s_on[0][0] in l["body"] and v_on[0][0] in l["body"]:
                    body_all |= l["body"]
            sig = (tuple(b for b, _ in s_on), tuple(b for b, _ in v_on), tuple(b for b in path if b in body_all))
            if sig in seen:
                continue
            seen.add(sig)
            sym = Sym(f, sc.PathFlow(f, path))
            # the digit loop: the loop containing the selection call that also contains the product; its range gives dsize
            loops = [l for l in g.loops() if s_on[0][0] in l["body"] and v_on[0][0] in l["body"]]
            if not loops:
                continue
            L = loops[0]
            dsz = None
            from .c11 import _range_bounds
            for b2 in sorted(L["body"]):
                t2 = f.blocks[b2]["t"]
                if t2 and t2["k"] == "Call" and (f.callee_def(t2) or {}).get("n") == "next" and g.innermost_loop(b2) is L:
                    rb = _range_bounds(f, Flow(f), sym, t2)
                    if rb is not None:
                        dsz = rb[1]
            if dsz is None:
                continue
            conds = [sc.norm_cond(k, t) for k, t in sc.path_conditions(f, g, path, sym)]
            step = sym.operand(s_on[0][1]["a"][1])
            off = sym.operand(s_on[0][1]["a"][2])
            lim = sym.operand(v_on[0][1]["a"][4])
            checked += 1
            # KS-2: the limb count given to the selection's destination inside the digit loop
            grp = _group_size(f, g, L, path, sym, s_on[0][1])
            sw_conds = [c for c in conds if c[0] and isinstance(c[0], tuple) and c[0][0] == "sw"]
            for val in pwl.valuations(count=1200, hi=9):
                ev = pwl.Eval(p, val)
                ev.syms[f.uid] = sym
                try:
                    D = ev.poly(dsz)
                    if D < 1:
                        continue
                    ok = True
                    for c in conds:
                        if c[0] != "cmp":
                            continue
                        x, y = ev.key(c[2]), ev.key(c[3])
                        if not {"Eq": x == y, "Ne": x != y, "Lt": x < y, "Le": x <= y, "Gt": x > y, "Ge": x >= y}[c[1]]:
                            ok = False
                            break
                    if not ok:
                        continue
                    S, O, Lm = ev.poly(step), ev.poly(off), ev.poly(lim)
                except (pwl.ErrPath, ZeroDivisionError):
                    continue
                if O < 0 or O >= D:
                    continue  # loop variable outside 0..dsize: not a state of the loop
                if (S != D or O + Lm != D - 1) and bad is None:
                    bad = {"dsize": D, "step": S, "offset": O, "limb_offset": Lm}
                if grp is not None and S >= 1:
                    try:
                        sw_ok = all(_sw_holds(f, ev, sym, c) for c in sw_conds)
                        if sw_ok:
                            A, G = ev.poly(grp["src_size"]), ev.poly(grp["size"])
                            R = ev.poly(grp["rows"]) if grp["rows"] is not None else None
                            if A >= 1 and (R is None or R >= 1):
                                avail = -(-(A - O) // S) if A > O else 0
                                want = avail if R is None else min(avail, R)
                                ks2["points"] += 1
                                if G < want and ks2["bad"] is None:
                                    ks2["bad"] = {"limbs_of_a": A, "dsize": D, "digit_offset": O, "rows": R, "selected_by_the_copy": avail, "size_set": G, "expr": repr(grp["size"])}
                    except (pwl.ErrPath, ZeroDivisionError, _Unjudged):
                        ks2["unjudged"] += 1
        # the un-grouped form: one product of all limbs at limb offset 0, outside the digit loop, is the whole gadget product only for dsize == 1
        flat = [(bi, t) for bi, t in f.calls() if (f.callee_def(t) or {}).get("n") == "vmp_apply_dft_to_dft" and g.innermost_loop(bi) is None and len(t["a"]) >= 5]
        dsz_free = None
        if flat and paths:
            # dsize as an expression outside the loop: the range bound of the digit loop evaluated on a path through it
            for path in paths:
                pos = set(path)
                if any(b in pos for b, _ in sel):
                    sy = Sym(f, sc.PathFlow(f, path))
                    for L in g.loops():
                        if any(b in L["body"] for b, _ in sel) and any(b in L["body"] for b, _ in vm):
                            from .c11 import _range_bounds
                            for b2 in sorted(L["body"]):
                                t2 = f.blocks[b2]["t"]
                                if t2 and t2["k"] == "Call" and (f.callee_def(t2) or {}).get("n") == "next" and g.innermost_loop(b2) is L:
                                    rb = _range_bounds(f, Flow(f), sy, t2)
                                    if rb is not None:
                                        dsz_free = rb[1]
                    if dsz_free is not None:
                        break
        if flat and dsz_free is not None:
            seen2 = set()
            for path in paths:
                pos = set(path)
                if not any(b in pos for b, _ in flat) or any(b in pos for b, _ in sel):
                    continue
                sy = Sym(f, sc.PathFlow(f, path))
                cmps = [c for c in (sc.norm_cond(k, t) for k, t in sc.path_conditions(f, g, path, sy)) if c[0] == "cmp"]
                sig = tuple(sorted(repr(c) for c in cmps))
                if sig in seen2:
                    continue
                seen2.add(sig)
                checked += 1
                for val in pwl.valuations(count=1500, hi=7):
                    ev = pwl.Eval(p, val)
                    ev.syms[f.uid] = sy
                    try:
                        if not all({"Eq": x == y, "Ne": x != y, "Lt": x < y, "Le": x <= y, "Gt": x > y, "Ge": x >= y}[c[1]] for c in cmps for x, y in [(ev.key(c[2]), ev.key(c[3]))]):
                            continue
                        D = ev.poly(dsz_free)
                    except (pwl.ErrPath, ZeroDivisionError):
                        continue
                    if D > 1 and bad is None:
                        bad = {"dsize": D, "step": 1, "offset": 0, "limb_offset": 0, "ungrouped": True}
        if bad and bad.get("ungrouped"):
            res.bad("KS-1", f.pretty, "ungrouped-product",
                    "%s: a path with dsize = %d takes the single product of all limbs at limb offset 0 (the dsize == 1 form) instead of the digit loop: the digits are not "
                    "recombined (a one-limb operand is multiplied %d limb(s) too low)" % (f.pretty, bad["dsize"], bad["dsize"] - 1), site=f.where(), detail=bad)
        elif bad:
            res.bad("KS-1", f.pretty, "digit-selection",
                    "%s: digit loop with dsize = %d selects the operand limbs with step %d / offset %d and accumulates the product at limb offset %d; the digits recombine only when "
                    "step == dsize and offset + limb_offset == dsize - 1" % (f.pretty, bad["dsize"], bad["step"], bad["offset"], bad["limb_offset"]), site=f.where(), detail=bad)
        elif checked:
            res.ok("KS-1", {"fn": f.pretty, "paths": checked, "law": "step == dsize, offset + limb_offset == dsize - 1"})
        else:
            res.undec("KS-1", "%s: digit loop not recognised" % f.pretty)
    return n


def cmux1(p, res):
    """res = (x - y) * s + y : the operand added to the big accumulator after the external product is the subtrahend of the difference handed to the product"""
    n = 0
    for f in sorted(p.lib_fns(), key=lambda x: x.uid):
        if f.kind == "Closure" or not f.blocks or not f.name.startswith("cmux") or f.name.endswith("tmp_bytes") or not f.uid.startswith("poulpy_bin_fhe::bdd_arithmetic::eval"):
            continue
        flow = Flow(f, transparent=VT)
        subs = []
        for bi, t in f.calls():
            nm = (f.callee_def(t) or {}).get("n", "")
            if nm == "glwe_sub" and len(t["a"]) >= 4:
                subs.append(("sub", t["a"][2], t["a"][3], t["l"]))          # res = a - b
            elif nm == "glwe_sub_assign" and len(t["a"]) >= 3:
                subs.append(("sub_assign", t["a"][1], t["a"][2], t["l"]))   # res = res - a
        adds = [t for bi, t in f.calls() if (f.callee_def(t) or {}).get("n") == "vec_znx_big_add_small_assign" and len(t["a"]) >= 4]
        if len(subs) != 1 or not adds:
            continue
        n += 1

        def roots(op):
            return {r[1] for r in flow.op_roots(op) if r[0] == "param"}
        minuend, subtrahend = roots(subs[0][1]), roots(subs[0][2])
        added = set()
        for t in adds:
            added |= roots(t["a"][3])
        if added and added == subtrahend and added != minuend:
            res.ok("CMUX-1", {"fn": f.pretty, "form": "(x - y) * s + y"})
        else:
            pn = f.param_names()
            res.bad("CMUX-1", f.pretty, "add-back-operand",
                    "%s multiplies (%s - %s) by the selector and then adds %s: for a selector bit 0 the result is not the second input, for a bit 1 not the first"
                    % (f.pretty, sorted(pn.get(x) for x in minuend), sorted(pn.get(x) for x in subtrahend), sorted(pn.get(x) for x in added)), site=f.where(subs[0][3]))
    return n


PACK_T = ("deref", "deref_mut", "borrow", "borrow_mut", "as_mut", "as_ref", "to_ref", "to_mut", "as_deref_mut", "as_deref", "unwrap", "expect", "into", "from", "clone")


def pack1(p, res):
    """the packing butterfly, decided by interpreting each path of the two implementations (`pack_internal`, `GLWEPacker::combine`) over the free module with basis
    {a, b, phi(a), phi(b)} x X^(k t) and coefficients in Z[1/2]:  rotate multiplies by X^(+-t), rsh(1) halves, the automorphism maps x X^(k t) to (-1)^k phi(x) X^(k t)
    (phi(X^t) = -X^t for the Galois element of the level), add / sub are linear.  The register the path leaves its result in must hold
        both present:  (a + b X^t + phi(a - b X^t)) / 2      lower only:  (a + phi(a)) / 2      upper only:  (b X^t - phi(b X^t)) / 2."""
    from fractions import Fraction
    n = 0
    for f in sorted(p.lib_fns(), key=lambda x: x.uid):
        if f.kind == "Closure" or not f.blocks or not f.uid.startswith(("poulpy_core::glwe_packing", "poulpy_core::glwe_packer")):
            continue
        names = [(f.callee_def(t) or {}).get("n", "") for _, t in f.calls()]
        if not any(x.startswith("glwe_automorphism") and not x.endswith("tmp_bytes") for x in names) or not any(x.startswith("glwe_rotate") and not x.endswith("tmp_bytes") for x in names):
            continue
        n += 1
        g = CFG(f)
        flow = Flow(f, transparent=PACK_T)
        pn = f.param_names()
        inv = {v: k for k, v in pn.items()}
        lo_id = ("param", inv.get("a", inv.get("acc")))
        hi_id = ("param", inv.get("b"))
        if lo_id[1] is None or hi_id[1] is None:
            res.undec("PACK-1", "%s: operands not recognised" % f.pretty)
            continue

        def ident(op):
            rr = flow.op_roots(op)
            ids = set()
            for r in rr:
                if r[0] == "param":
                    ids.add(("param", r[1]))
                elif r[0] == "call" and r[2][:1] == ("0",):
                    ids.add(("tmp", r[1]))
                else:
                    return None
            return list(ids)[0] if len(ids) == 1 else None

        def add(x, y, c=1):
            out = dict(x)
            for k, v in y.items():
                out[k] = out.get(k, 0) + c * v
                if out[k] == 0:
                    del out[k]
            return out

        def scale(x, c):
            return {k: v * c for k, v in x.items()}

        def rot(x, k):
            return {(b, ph, r + k): v for (b, ph, r), v in x.items()}

        def phi(x):
            return {(b, ph + 1, r): v * (-1 if r % 2 else 1) for (b, ph, r), v in x.items()}
        paths = sc.returning_paths(f, g, cap=400, unroll=1) or []
        verdicts = {}
        bad = None
        undec = None
        seen = set()
        for path in paths:
            calls = [(bi, f.blocks[bi]["t"]) for bi in path if f.blocks[bi]["t"] and f.blocks[bi]["t"]["k"] == "Call"]
            ops = [(bi, t, (f.callee_def(t) or {}).get("n", "")) for bi, t in calls]
            ops = [(bi, t, nm) for bi, t, nm in ops if nm.startswith("glwe_")]
            sig = tuple(bi for bi, _, _ in ops)
            if not ops or sig in seen:
                continue
            seen.add(sig)
            sym = Sym(f, sc.PathFlow(f, path))
            reg = {lo_id: {("a", 0, 0): Fraction(1)}, hi_id: {("b", 0, 0): Fraction(1)}}
            read = set()
            last_written = None
            T_atom = None
            ok = True

            def get(i):
                if i in (lo_id, hi_id):
                    read.add(i)
                return reg.get(i)
            for bi, t, nm in ops:
                a = t["a"][1:]

                def rotk(op):
                    nonlocal T_atom
                    pl = sym.operand(op)
                    if len(pl.t) != 1:
                        return None
                    (mono, c), = pl.t.items()
                    if len(mono) != 1 or c not in (1, -1):
                        return None
                    if T_atom is None:
                        T_atom = mono[0]
                    if mono[0] != T_atom:
                        return None
                    return c
                try:
                    if nm == "glwe_rotate_assign":
                        k, r = rotk(a[0]), ident(a[1])
                        reg[r] = rot(get(r), k)
                        w = r
                    elif nm == "glwe_rotate":
                        k, r, x = rotk(a[0]), ident(a[1]), ident(a[2])
                        reg[r] = rot(get(x), k)
                        w = r
                    elif nm == "glwe_rsh":
                        c = sym.operand(a[0]).const_value()
                        r = ident(a[1])
                        reg[r] = scale(get(r), Fraction(1, 2 ** c))
                        w = r
                    elif nm in ("glwe_sub", "glwe_add", "glwe_add_into"):
                        r, x, y = ident(a[0]), ident(a[1]), ident(a[2])
                        reg[r] = add(get(x), get(y), -1 if nm == "glwe_sub" else 1)
                        w = r
                    elif nm in ("glwe_add_assign", "glwe_sub_assign", "glwe_sub_negate_assign"):
                        r, x = ident(a[0]), ident(a[1])
                        if nm == "glwe_add_assign":
                            reg[r] = add(get(r), get(x))
                        elif nm == "glwe_sub_assign":
                            reg[r] = add(get(r), get(x), -1)
                        else:
                            reg[r] = add(get(x), get(r), -1)
                        w = r
                    elif nm in ("glwe_normalize_assign",):
                        w = ident(a[0])
                        get(w)
                    elif nm in ("glwe_copy", "glwe_normalize"):
                        r, x = ident(a[0]), ident(a[1])
                        reg[r] = dict(get(x))
                        w = r
                    elif nm == "glwe_automorphism_assign":
                        r = ident(a[0])
                        reg[r] = phi(get(r))
                        w = r
                    elif nm == "glwe_automorphism":
                        r, x = ident(a[0]), ident(a[1])
                        reg[r] = phi(get(x))
                        w = r
                    elif nm in ("glwe_automorphism_add_assign", "glwe_automorphism_sub_assign", "glwe_automorphism_sub_negate_assign"):
                        r = ident(a[0])
                        v = get(r)
                        reg[r] = {"glwe_automorphism_add_assign": add(phi(v), v), "glwe_automorphism_sub_assign": add(phi(v), v, -1), "glwe_automorphism_sub_negate_assign": add(v, phi(v), -1)}[nm]
                        w = r
                    elif nm in ("glwe_automorphism_add", "glwe_automorphism_sub", "glwe_automorphism_sub_negate"):
                        r, x = ident(a[0]), ident(a[1])
                        v = get(x)
                        reg[r] = {"glwe_automorphism_add": add(phi(v), v), "glwe_automorphism_sub": add(phi(v), v, -1), "glwe_automorphism_sub_negate": add(v, phi(v), -1)}[nm]
                        w = r
                    else:
                        ok = False
                        undec = "operation %s is not interpreted" % nm
                        break
                except (TypeError, KeyError, AttributeError):
                    ok = False
                    undec = "an operand of %s cannot be identified" % nm
                    break
                if w in (lo_id, hi_id):
                    last_written = w
            if not ok or last_written is None:
                continue
            h = Fraction(1, 2)
            if lo_id in read and hi_id in read:
                case, want = "both", {("a", 0, 0): h, ("b", 0, 1): h, ("a", 1, 0): h, ("b", 1, 1): h}
            elif lo_id in read:
                case, want = "lower-only", {("a", 0, 0): h, ("a", 1, 0): h}
            elif hi_id in read:
                case, want = "upper-only", {("b", 0, 1): h, ("b", 1, 1): h}
            else:
                continue
            have = reg[last_written]
            verdicts[case] = have == want
            if have != want and bad is None:
                def show(d):
                    return " + ".join("%s*%s%s%s" % (v, "phi(" * ph, b, ")" * ph) + ("*X^(%dt)" % r if r else "") for (b, ph, r), v in sorted(d.items())) or "0"
                bad = (case, show(have), show(want))
        if bad:
            res.bad("PACK-1", f.pretty, "butterfly:%s" % bad[0],
                    "%s, case %s: the path leaves  %s  in the result where the packing butterfly needs  %s  (phi(X^t) = -X^t): the packed slot is cancelled or the coefficients that "
                    "should vanish survive" % (f.pretty, bad[0], bad[1], bad[2]), site=f.where())
        elif len(verdicts) == 3:
            res.ok("PACK-1", {"fn": f.pretty, "cases": sorted(verdicts)})
        else:
            res.undec("PACK-1", "%s: %s" % (f.pretty, undec or "cases decided: %s" % sorted(verdicts)))
    return n


def aut1(p, res):
    """composition of automorphism keys (`glwe_automorphism_key_automorphism[_assign]`): every row (-pi_p^-1(s) a + s, a) is first mapped by pi_p - the Galois element the key itself
    carries (`X.p()`) - to a ciphertext under s, key-switched, and mapped back by pi_p^-1 (`galois_element_inv` of the same element).  With the two exchanged the row is mapped to
    a ciphertext under pi_p^-2(s) before the key-switch: garbage unless p^2 = 1 (the only case the tests use).  Decided by dominance: an automorphism that dominates the key-switch
    takes `p()`, one that the key-switch dominates takes the inverse."""
    n = 0
    for f in sorted(p.lib_fns(), key=lambda x: x.uid):
        if f.kind == "Closure" or f.is_test() or not f.uid.startswith("poulpy_core::automorphism") or "tmp_bytes" in f.name:
            continue
        ks = [bi for bi, t in f.calls() if (f.callee_def(t) or {}).get("n", "").startswith("glwe_keyswitch")]
        au = [(bi, t) for bi, t in f.calls() if (f.callee_def(t) or {}).get("n") in ("vec_znx_automorphism", "vec_znx_automorphism_assign")]
        if not ks or not au:
            continue
        flow = Flow(f, transparent=("into", "from", "clone", "as_i64"))
        g = CFG(f)
        dom = g.dom()

        def kind(op):
            ks_ = set()
            for r in flow.op_roots(op):
                if r[0] == "call":
                    nm = (f.callee_def(f.blocks[r[1]]["t"]) or {}).get("n")
                    ks_.add({"p": "own", "galois_element_inv": "inverse"}.get(nm, "other"))
                else:
                    ks_.add("other")
            return ks_.pop() if len(ks_) == 1 else "other"
        # order inside one iteration: reachability with the back edges removed
        # (only of the loops that contain the key-switch: an inner loop over columns is left through its header)
        shared = {l["header"] for l in g.loops() if any(kb in l["body"] for kb in ks)}
        fwd = {b: [s2 for s2 in g.succ[b] if not (s2 in dom.get(b, ()) and s2 in shared)] for b in g.reach}

        def reaches(x, ys):
            st, seen = [x], set()
            while st:
                b = st.pop()
                if b in seen:
                    continue
                seen.add(b)
                if b in ys and b != x:
                    return True
                st.extend(fwd.get(b, ()))
            return False
        pos_of = {}
        for bi, t in au:
            before, after = reaches(bi, set(ks)), any(reaches(kb, {bi}) for kb in ks)
            pos_of[bi] = "before" if before and not after else ("after" if after and not before else "?")
        if "before" not in pos_of.values() or "after" not in pos_of.values():
            continue  # not a bracketed key-switch (e.g. the ciphertext automorphism: key-switch, then the map itself)
        n += 1
        bad = None
        sites = []
        for bi, t in au:
            k = kind(t["a"][1])
            pos = pos_of[bi]
            sites.append((pos, k))
            if k == "other" or pos == "?":
                continue
            if (pos == "before" and k != "own") or (pos == "after" and k != "inverse"):
                bad = bad or (pos, k, t["l"])
        if bad:
            res.bad("AUT-1", f.pretty, "automorphism-side:%s:%s" % (bad[0], bad[1]),
                    "%s applies the %s Galois element %s its key-switch: the rows of an automorphism key for p are brought under s by pi_p (the element the key carries) and taken back by "
                    "pi_p^-1 afterwards - exchanged, the composition is wrong for every p with p^2 != 1" % (f.pretty, {"own": "key's own", "inverse": "inverse"}[bad[1]], bad[0]), site=f.where(bad[2]))
        elif any(k == "other" or pos == "?" for pos, k in sites):
            res.undec("AUT-1", "%s: an automorphism exponent / position is not recognised (%s)" % (f.pretty, sites))
        else:
            res.ok("AUT-1", {"fn": f.pretty, "sites": sites})
    return n


def sign4(p, res):
    """products / sums of Galois elements are reduced in Z/2NZ: a `%` whose dividend is built from the stored Galois element of a key (`p()`) or a parameter named `p` and
    whose result is stored as a Galois element (`set_p`) divides by `cyclotomic_order()` (or 2 * n()), never by the ring degree"""
    from .c01 import pwl_atoms
    n = 0
    for f in sorted(p.lib_fns(), key=lambda x: x.uid):
        if f.kind == "Closure" or not f.blocks or not f.uid.startswith(("poulpy_core", "poulpy_bin_fhe", "poulpy_ckks")) or "::test_suite::" in f.uid:
            continue
        sets = [(bi, t) for bi, t in f.calls() if (f.callee_def(t) or {}).get("n") == "set_p" and len(t["a"]) == 2]
        if not sets:
            continue
        flow = Flow(f)
        sym = None
        for bi, t in sets:
            for r in flow.op_roots(t["a"][1]):
                if r[0] != "bin":
                    continue
                st = f.blocks[r[1]]["s"][r[2]][2]
                if st.get("op") != "Rem":
                    continue
                if sym is None:
                    sym = Sym(f, flow)
                n += 1
                div = sym.operand(st["o"][1])
                names = {a[1] for a in pwl_atoms(div) if a[0] == "f"}
                for a in pwl_atoms(div):
                    if a[0] == "call" and a[1] == f.uid:
                        names.add((f.callee_def(f.blocks[a[2]]["t"]) or {}).get("n"))
                two_n = any(c == 2 and any(a[0] == "f" and a[1] == "n" for a in mono) for mono, c in div.t.items())
                if "cyclotomic_order" in names or two_n:
                    res.ok("SIGN-4", {"fn": f.pretty, "modulus": repr(div)})
                else:
                    res.bad("SIGN-4", f.pretty, "galois-element-modulus",
                            "%s stores a Galois element reduced modulo `%r`: Galois elements live in (Z/2NZ)*, a product reduced modulo the ring degree names another automorphism "
                            "(p and p + N differ by the sign of odd powers)" % (f.pretty, div), site=f.where(t["l"]))
    return n


def run(res, tier):
    res.level = "other"
    res.explanation = ("Only structural clauses of C03 are decided: the digit loop of the gadget product of the key-switching family selects the operand limbs with step == dsize and an offset "
                       "that, added to the limb offset at which the digit's product is accumulated, gives dsize - 1 on every path (piecewise-linear identity); the Galois-element helpers compute "
                       "in (Z/2NZ)* with the cyclotomic order; vmp kernels with a limb offset zero-fill what they do not write. Noise, the gadget arithmetic, trace / packing / extraction and "
                       "the independence of the result from the gadget shape beyond these clauses are not decided.")
    res.rule("KS-1", "digit loops: step == dsize and offset + limb_offset == dsize - 1 on every path")
    res.rule("KS-2", "digit loops: the limb count given to a digit group is at least the number of limbs its strided copy selects, up to the rows of the key")
    res.rule("AUT-1", "composition of automorphism keys: the automorphism before the key-switch takes the key's own Galois element, the one after it the inverse")
    res.rule("SIGN-3", "the Galois-element helpers use the ring degree only as 2 * n() / cyclotomic_order()")
    res.rule("WR-4", "raw-slice vmp kernels taking limb_offset: the zero fill starts one stride after the last written limb")
    res.rule("PACK-1", "packing butterflies (pack_internal, GLWEPacker::combine): every path computes (a + b X^t + phi(a - b X^t)) / 2, (a + phi(a)) / 2 or (b X^t - phi(b X^t)) / 2")
    res.rule("SIGN-4", "a Galois element computed with `%` and stored with set_p is reduced modulo cyclotomic_order() / 2 * n()")
    res.rule("RAD-3", "min / max of the limb counts of two objects only where their radices are known equal")
    res.rule("ROW-1", "row accessors X.at(row, ..) / X.at_mut(row, ..) in a row loop: the loop bound stays within X.dnum() under the comparisons that dominate the access")
    res.rule("RAD-4", "the two arms of a radix-equality decision fill every common object from the same columns of the operands that exist before the decision")
    res.rule("UNIT-1", "comparisons, min and max between limb counts, key row counts and bit precisions (limbs = rows * dsize, bits = limbs * base2k) relate quantities of the same unit")
    res.rule("RAD-1", "a cross-radix conversion skipped / taken on a radix comparison is guarded by the comparison of exactly its input and output radices")
    res.rule("RAD-2", "no call of an operation asserting equal radices of two arguments sits on a branch whose guards imply that they differ")
    res.assumptions = ["vec_znx_dft_copy / vec_znx_dft_apply select limbs offset, offset + step, ...; vmp accumulates at limb_offset (C07)", "zeroed accumulators of multi-digit products: SC-3 under C12"]
    cfgs = ["avx-dev"] if tier == "quick" else ["avx-dev", "ref-dev"]
    for cfg in cfgs:
        p = facts.load(cfg)
        res.configs.append(p.build_info)
        n = ks1(p, res, ("poulpy_core::keyswitching",))
        res.floor("KS-1", "digit loops of the key-switching family", n, 1)
        n2 = ks2_report(res)
        res.floor("KS-2", "digit groups sized inside a digit loop", n2, 1)
        na = aut1(p, res)
        res.floor("AUT-1", "automorphism-key compositions", na, 2)
        from .c09 import sign3
        n3 = sign3(p, res)
        res.floor("SIGN-3", "Galois-element helpers", n3, 2)
        from .c11 import wr4
        n4 = wr4(p, res)
        res.floor("WR-4", "limb_offset kernels", n4, 2)
        npk = pack1(p, res)
        res.floor("PACK-1", "packing butterfly implementations", npk, 2)
        ns4 = sign4(p, res)
        res.floor("SIGN-4", "stored Galois-element reductions", ns4, 2)
        from . import rad
        nr1 = rad.rad1(p, res, RAD_PREFIXES)
        res.floor("RAD-1", "guarded radix conversions of the key-switching family", nr1, 14)
        nr2 = rad.rad2(p, res, RAD_PREFIXES)
        res.floor("RAD-2", "calls of radix-asserting operations", nr2, 16)
        nr3 = rad.rad3(p, res, RAD_PREFIXES + ("poulpy_core::api::conversion",))
        res.floor("RAD-3", "limb counts of two objects combined", nr3, 1)
        nrow = rad.row1(p, res, RAD_PREFIXES + ("poulpy_core::api::keyswitching", "poulpy_core::api::automorphism"))
        nu = rad.unit1(p, res, RAD_PREFIXES + ("poulpy_core::api::keyswitching", "poulpy_core::api::automorphism", "poulpy_core::api::conversion"))
        res.floor("UNIT-1", "comparisons / min / max between quantities of known units", nu, 11)
        nr4 = rad.rad4(p, res, RAD_PREFIXES + ("poulpy_core::api::conversion",))
        res.floor("RAD-4", "objects filled in both arms of a radix decision", nr4, 1)
        res.floor("ROW-1", "row accessors in row loops", nrow, 18)
        res.fn_count += n + n3
