"""C07 — DFT-domain products: the limb bookkeeping only (thin claim; the arithmetic of the transforms and of the CRT is not decided).

Clauses of the statement that are visible in the shape of the code:
  "truncated to the requested limbs", "transform-domain add/sub/copy/limb-select act limb-wise":
WR-1/WR-2 on the DFT-domain shape functions (vec_znx_dft, svp, vmp, convolution of both families): every limb of the selected result column is produced (zero fill of
          limbs a (step, offset) selection or a shorter operand does not reach), accessors use the operand's own column
WR-4   vector-matrix products with a limb offset zero-fill from exactly one stride after the last written limb
WR-7   block extraction for the convolution: rows extracted + rows zero-filled = rows of the destination block
MS-8   block-extraction kernels read a number of rows bounded by the limbs of the source view
WR-9   in-place limb-wise loops (`res[j + r] op= a[j + s]`) run over the whole overlap of the two limb windows (no limb the result can hold is dropped, none is indexed past)
VMP-1  the single-column product kernel is applied to a prepared matrix only when the processed column is stored unpaired (ncols == truncated column count on the path)
BK-9   same-name shape functions of the FFT64 and NTT120 families bound their work by the same quantities
BK-8   the AVX kernels of wrapping integer products use a full-width multiply
"""
from . import facts
from .c11 import wr1, wr2, wr2b, wr2c, wr4, wr7, wr9

C07_FILES = ("reference/fft64/vec_znx_dft.rs", "reference/fft64/svp.rs", "reference/fft64/vmp.rs", "reference/fft64/convolution.rs",
             "reference/ntt120/vec_znx_dft.rs", "reference/ntt120/svp.rs", "reference/ntt120/vmp.rs", "reference/ntt120/convolution.rs")


def in_c07(f):
    return any(f.file.endswith(x) for x in C07_FILES)


def vmp1(p, res):
    """prepared matrices store their columns in pairs; a trailing column is stored unpaired only when it is the last of an odd number of columns.  A single-column product
    kernel reads rows at the unpaired stride, so in every apply core it may be applied only when the truncated column count equals the stored column count:
    on every path that reaches a `*1col*` kernel call, the path's comparisons imply  ncols == min(ncols, ...)  (the truncated count the column loops run to)."""
    from . import sc, pwl
    from .cfg import CFG, Flow
    from .sym import Sym, Poly
    from .c01 import pwl_atoms
    n = 0
    for f in sorted(p.lib_fns(), key=lambda x: x.uid):
        if f.kind == "Closure" or not f.blocks or not f.uid.startswith(("poulpy_cpu_ref::reference", "poulpy_cpu_avx")):
            continue
        pn = {v: k for k, v in f.param_names().items()}
        if "ncols" not in pn:
            continue
        ones = [(bi, t) for bi, t in f.calls() if "1col" in (f.callee_def(t) or {}).get("n", "")]
        if not ones:
            continue
        n += 1
        g = CFG(f)
        NC = Poly.atom(("p", pn["ncols"], ()))
        sym0 = Sym(f, Flow(f))
        # the truncated column count: a min(..) over the stored count
        cms = set()
        for blk in f.blocks:
            t = blk["t"]
            if t and t["k"] == "Call" and (f.callee_def(t) or {}).get("n") == "min" and len(t["a"]) == 2 and NC.key() in (sym0.operand(t["a"][0]).key(), sym0.operand(t["a"][1]).key()):
                cms.add(sym0.local(t["d"][0]).key() if len(t["d"]) == 1 else None)
        cms.discard(None)
        if len(cms) != 1:
            res.undec("VMP-1", "%s: the truncated column count min(ncols, ..) is not unique" % f.pretty)
            continue
        CM = Poly(dict(list(cms)[0]))
        paths = sc.returning_paths(f, g, cap=600, unroll=1) or []
        bad = None
        und = None
        checked = 0
        seen = set()
        for path in paths:
            pos = set(path)
            on = [(bi, t) for bi, t in ones if bi in pos]
            if not on:
                continue
            sym = Sym(f, sc.PathFlow(f, path))
            conds = [sc.norm_cond(k, t) for k, t in sc.path_conditions(f, g, path, sym)]
            cmps = [c for c in conds if c[0] == "cmp"]
            sig = tuple(sorted(repr(c) for c in cmps))
            if sig in seen:
                continue
            seen.add(sig)
            checked += 1
            fail = None
            pts = 0
            for val in pwl.valuations(count=1500, hi=9):
                ev = pwl.Eval(p, val)
                ev.syms[f.uid] = sym
                try:
                    ok = True
                    for c in cmps:
                        x, y = ev.key(c[2]), ev.key(c[3])
                        if not {"Eq": x == y, "Ne": x != y, "Lt": x < y, "Le": x <= y, "Gt": x > y, "Ge": x >= y}[c[1]]:
                            ok = False
                            break
                    if not ok:
                        continue
                    a, b = ev.poly(NC), ev.poly(CM)
                except (pwl.ErrPath, ZeroDivisionError):
                    continue
                pts += 1
                if a != b and fail is None:
                    fail = {"ncols": a, "col_max": b}
            if fail:
                # an uninterpreted condition that relates the two counts could still make the path infeasible
                other = [c for c in conds if c[0] != "cmp"]
                bad = bad or (fail, on[0][1])
        if bad:
            res.bad("VMP-1", f.pretty, "unpaired-kernel-on-paired-column",
                    "%s applies the single-column kernel `%s` on a path where the stored column count (%d) differs from the truncated count (%d): the last processed column is then the "
                    "first half of a stored pair and its rows lie at the paired stride" % (f.pretty, (f.callee_def(bad[1]) or {}).get("n"), bad[0]["ncols"], bad[0]["col_max"]),
                    site=f.where(bad[1]["l"]), detail=bad[0])
        elif checked:
            res.ok("VMP-1", {"fn": f.pretty, "paths": checked, "law": "single-column kernel only when ncols == min(ncols, res_size + limb_offset)"})
        else:
            res.undec("VMP-1", "%s: no path reaches the single-column kernel" % f.pretty)
    return n


def fft1(p, res):
    """the FFT64 transform picks its strategy (breadth-first passes up to a size, recursive splitting above) in several places - the twiddle-table builder, the table filler,
    the executor's dispatch, the recursive executor, reference and AVX - and each of them compares the transform size with the cut-over constant on its own.  The table is laid
    out for the strategy its builder chose: every site of one direction (forward / inverse) has to compare with the same constant, otherwise sizes between two thresholds are
    executed by one strategy over the table of the other."""
    from collections import defaultdict
    from .cfg import Flow
    sites = defaultdict(list)
    for f in sorted(p.lib_fns(), key=lambda x: x.uid):
        if f.is_test() or not f.blocks or "fft64::reim::" not in f.uid:
            continue
        flow = None
        for blk in f.blocks:
            if blk["c"]:
                continue
            for s in blk["s"]:
                if not (s[0] == "A" and s[2]["k"] == "Bin" and s[2]["op"] in ("Le", "Lt", "Gt", "Ge")):
                    continue
                a, b = s[2]["o"]
                for x, y, flip in ((a, b, False), (b, a, True)):
                    if y[0] == "k" and isinstance(y[1].get("v"), int) and y[1]["v"] > 16:
                        flow = flow or Flow(f)
                        if any(r[0] == "param" and not r[2] and f.local_ty(r[1])["s"] == "usize" for r in flow.op_roots(x)):
                            op = s[2]["op"]
                            if flip:
                                op = {"Le": "Ge", "Lt": "Gt", "Gt": "Lt", "Ge": "Le"}[op]
                            thr = y[1]["v"] if op in ("Le", "Gt") else y[1]["v"] - 1
                            sites["inverse" if "ifft" in f.uid.split("fft64::reim::")[1] else "forward"].append((f, thr, s[3]))
    n = 0
    for d, lst in sorted(sites.items()):
        vals = defaultdict(list)
        for f, thr, line in lst:
            vals[thr].append((f, line))
        major = max(vals, key=lambda v: len(vals[v]))
        for thr, fl in sorted(vals.items()):
            for f, line in fl:
                n += 1
                if thr != major:
                    res.bad("FFT-1", f.pretty, "cut-over:%s" % d, "%s switches strategy at transform size %d while %d other sites of the %s transform (table builder, filler, executors) "
                            "switch at %d: sizes in between run one strategy over the twiddle table laid out for the other" % (f.pretty, thr, len(vals[major]), d, major), site=f.where(line))
                else:
                    res.ok("FFT-1", {"fn": f.pretty, "direction": d, "cut_over": thr} if n % 3 == 1 else None)
    return n


def run(res, tier):
    res.level = "other"
    res.explanation = ("Only the limb bookkeeping of C07 is decided, on MIR of the DFT-domain shape functions of both families: overwrite-type operations (dft_apply with its (step, offset) "
                       "selection, idft, dft add / sub / copy / zero, svp, vmp) hand every limb of the selected result column to a kernel or zero it, accessors use the operand's own column, "
                       "vmp with a limb offset zero-fills from exactly one stride after the last written limb, the block extraction of the convolution covers every row of its destination "
                       "block and reads no more rows than the source has limbs, the two families bound their work by the same quantities, and wrapping integer products use a full-width "
                       "multiply on AVX. Floating-point error, lazy-reduction budgets, CRT reconstruction and the butterflies are not decided.")
    res.rule("WR-1", "overwrite-type DFT-domain shape functions cover every limb of the result column for every ordering of the operand sizes")
    res.rule("WR-2", "every accessor on operand X of the C07 files uses column X_col")
    res.rule("WR-4", "raw-slice vmp kernels taking limb_offset: the zero fill starts one stride after the last written limb")
    res.rule("WR-7", "block extraction into an output: rows extracted + rows zero-filled = rows of the destination block")
    res.rule("MS-8", "block-extraction kernels read a number of rows bounded by the limbs of the source view")
    res.rule("BK-9", "same-name shape functions of reference::fft64 and reference::ntt120 compare a parameter against bounds that depend on the same parameters")
    res.rule("WR-9", "in-place limb-wise loops run over the whole overlap of the two limb windows: trip count == max(min(size(res) - r, size(a) - s), 0)")
    res.rule("VMP-1", "vector-matrix apply cores: the single-column kernel is reached only on paths whose comparisons imply ncols == truncated column count (the column is stored unpaired)")
    res.rule("FFT-1", "every site of the FFT64 transform that compares the transform size with the breadth-first / recursive cut-over uses the same constant per direction")
    res.rule("BK-8", "where the reference kernel uses i64::wrapping_mul the AVX kernel does not multiply with _mm256_mul_epi32")
    res.assumptions = ["kernels compute the transform / product on the limbs they are given (floating-point and modular arithmetic not decided)"]
    cfgs = ["avx-dev"] if tier == "quick" else ["avx-dev", "ref-dev"]
    for cfg in cfgs:
        p = facts.load(cfg)
        res.configs.append(p.build_info)
        n_ow, cov = wr1(p, res, restrict=in_c07)
        res.floor("WR-1", "C07 overwrite-type shape functions", n_ow, 14)
        n2, sites = wr2(p, res, restrict=in_c07)
        res.floor("WR-2", "C07 shape functions with column accessors", n2, 30)
        n2c = wr2c(p, res)
        res.floor("WR-2", "raw column offsets", n2c, 2)
        n2b = wr2b(p, res)
        res.floor("WR-2", "raw-slice writers of a result column", n2b, 1)
        n4 = wr4(p, res)
        res.floor("WR-4", "limb_offset kernels", n4, 2)
        n7 = wr7(p, res)
        res.floor("WR-7", "block extraction sites", n7, 2)
        from .c17 import ms8
        n8 = ms8(p, res)
        res.floor("MS-8", "block-extraction kernels", n8, 4)
        n9w = wr9(p, res, restrict=in_c07)
        res.floor("WR-9", "in-place limb-wise loops of the C07 files", n9w, 6)
        nv = vmp1(p, res)
        res.floor("VMP-1", "vmp apply cores", nv, 2)
        nf = fft1(p, res)
        res.floor("FFT-1", "strategy cut-over comparisons", nf, 8)
        from .c10 import bk9, bk8
        n9 = bk9(p, res)
        res.floor("BK-9", "family shape functions with parameter bounds", n9, 1)
        if cfg.startswith("avx"):
            nb = bk8(p, res)
            res.floor("BK-8", "wrapping kernels", nb, 2)
        else:
            res.ok("BK-8", {"note": "AVX crate not part of this configuration"})
        res.fn_count += n_ow + n2
