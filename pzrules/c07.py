"""C07 — DFT-domain products: the limb bookkeeping only (thin claim; the arithmetic of the transforms and of the CRT is not decided).

Clauses of the statement that are visible in the shape of the code:
  "truncated to the requested limbs", "transform-domain add/sub/copy/limb-select act limb-wise":
WR-1/WR-2 on the DFT-domain shape functions (vec_znx_dft, svp, vmp, convolution of both families): every limb of the selected result column is produced (zero fill of
          limbs a (step, offset) selection or a shorter operand does not reach), accessors use the operand's own column
WR-4   vector-matrix products with a limb offset zero-fill from exactly one stride after the last written limb
WR-7   block extraction for the convolution: rows extracted + rows zero-filled = rows of the destination block
MS-8   block-extraction kernels read a number of rows bounded by the limbs of the source view
BK-9   same-name shape functions of the FFT64 and NTT120 families bound their work by the same quantities
BK-8   the AVX kernels of wrapping integer products use a full-width multiply
"""
from . import facts
from .c11 import wr1, wr2, wr2b, wr2c, wr4, wr7

C07_FILES = ("reference/fft64/vec_znx_dft.rs", "reference/fft64/svp.rs", "reference/fft64/vmp.rs", "reference/fft64/convolution.rs",
             "reference/ntt120/vec_znx_dft.rs", "reference/ntt120/svp.rs", "reference/ntt120/vmp.rs", "reference/ntt120/convolution.rs")


def in_c07(f):
    return any(f.file.endswith(x) for x in C07_FILES)


def run(res, tier):
    res.level = "other"
    res.explanation = ("Only the limb bookkeeping of C07 is decided, on MIR of the DFT-domain shape functions of both families: overwrite-type operations (dft_apply with its (step, offset) "
                       "selection, idft, dft add / sub / copy / zero, svp, vmp) hand every limb of the selected result column to a kernel or zero it, accessors use the operand's own column, "
                       "vmp with a limb offset zero-fills from exactly one stride after the last written limb, the block extraction of the convolution covers every row of its destination "
                       "block and reads no more rows than the source has limbs, the two families bound their work by the same quantities, and wrapping integer products use a full-width "
                       "multiply on AVX. Floating-point error, lazy-reduction budgets, CRT reconstruction and the butterflies are not decided.")
    res.rule("WR-1", "overwrite-type DFT-domain shape functions cover every limb of the result column for every ordering of the operand sizes")
    res.rule("WR-2", "every accessor on operand X of the C07 files uses column X_col")
    res.rule("WR-4", "raw-slice vmp kernels taking limb_offset: the zero fill starts one stride after the last written limb")
    res.rule("WR-7", "block extraction into an output: rows extracted + rows zero-filled = rows of the destination block")
    res.rule("MS-8", "block-extraction kernels read a number of rows bounded by the limbs of the source view")
    res.rule("BK-9", "same-name shape functions of reference::fft64 and reference::ntt120 compare a parameter against bounds that depend on the same parameters")
    res.rule("BK-8", "where the reference kernel uses i64::wrapping_mul the AVX kernel does not multiply with _mm256_mul_epi32")
    res.assumptions = ["kernels compute the transform / product on the limbs they are given (floating-point and modular arithmetic not decided)"]
    cfgs = ["avx-dev"] if tier == "quick" else ["avx-dev", "ref-dev"]
    for cfg in cfgs:
        p = facts.load(cfg)
        res.configs.append(p.build_info)
        n_ow, cov = wr1(p, res, restrict=in_c07)
        res.floor("WR-1", "C07 overwrite-type shape functions", n_ow, 14)
        n2, sites = wr2(p, res, restrict=in_c07)
        res.floor("WR-2", "C07 shape functions with column accessors", n2, 30)
        n2c = wr2c(p, res)
        res.floor("WR-2", "raw column offsets", n2c, 2)
        n2b = wr2b(p, res)
        res.floor("WR-2", "raw-slice writers of a result column", n2b, 1)
        n4 = wr4(p, res)
        res.floor("WR-4", "limb_offset kernels", n4, 2)
        n7 = wr7(p, res)
        res.floor("WR-7", "block extraction sites", n7, 2)
        from .c17 import ms8
        n8 = ms8(p, res)
        res.floor("MS-8", "block-extraction kernels", n8, 4)
        from .c10 import bk9, bk8
        n9 = bk9(p, res)
        res.floor("BK-9", "family shape functions with parameter bounds", n9, 1)
        if cfg.startswith("avx"):
            nb = bk8(p, res)
            res.floor("BK-8", "wrapping kernels", nb, 2)
        else:
            res.ok("BK-8", {"note": "AVX crate not part of this configuration"})
        res.fn_count += n_ow + n2
