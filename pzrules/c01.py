"""C01 — encrypt-then-decrypt returns the message up to the configured bounded error (thin claim: where the error is put and that it is truncated; magnitudes are not decided).

ERR-1 `NoiseInfos::target_limb_and_scale(base2k)` returns (limb, 2^s) with  (limb + 1) * base2k - s == k  and  0 <= s < base2k  for every precision k >= 1 and radix: an error
      of magnitude e stored on that limb after scaling by 2^s is e * 2^-k on the torus (piecewise-linear identity over the expressions extracted from MIR)
ERR-2 every Gaussian sampling shape function asks for the placement with its own radix parameter, writes the limb the placement names and scales sigma and bound with the
      factor the same placement returned
ERR-3 every scalar sampler stores a value derived from a sample that passed the rejection test `|sample| > bound` (false arm) against its own `bound` parameter, and the
      sample is not redefined between the test and the store: every stored error is at most `bound` (times the scale) in magnitude
ERR-4 the `ceil(log2(bound)) < 64` guard of the sampling shape functions is applied to the bound times the placement's scale (the magnitude that is stored as an i64)
POS-1 an encryption that takes a GLWE / LWE plaintext compares the plaintext's radix with the ciphertext's before moving limbs (entry or a routine it hands the plaintext to)
RAD-3 (rad.py) limb counts of two objects are combined by min / max only where their radices are known equal
RND-1 / RND-9 (shared with C06) noise is injected on every path of every encryption; sigma and bound carry the same scale
RAD-2 (shared) no call of a radix-asserting operation with operands the guards make different
Not decided: the magnitude of the decryption error (1-norms of secrets, rounding), the plaintext position arithmetic of the normalisations (C08), the mask products (C07/C09).
"""
from . import facts, pwl
from .cfg import CFG, Flow
from .sym import Sym, Poly


def err1(p, res):
    n = 0
    for f in sorted(p.lib_fns(), key=lambda x: x.uid):
        if f.name != "target_limb_and_scale" or f.kind == "Closure" or not f.blocks:
            continue
        n += 1
        flow = Flow(f)
        sym = Sym(f, flow)
        limb = sym.local(0, ("0",))
        # the scale: exp2 / powi of an integer expression
        expo = None
        for r in flow.roots(0, ("1",)):
            if r[0] == "call":
                t = f.blocks[r[1]]["t"]
                if (f.callee_def(t) or {}).get("n") in ("exp2",) and len(t["a"]) == 1:
                    o = t["a"][0]
                    # the exponent is an integer expression converted to f64
                    if o[0] in ("c", "m") and len(o[1]) == 1:
                        for df in flow.defs.get(o[1][0], []):
                            if df[0] != "call" and df[4]["k"] == "Cast" and df[4].get("ck") == "IntToFloat":
                                o = df[4]["o"][0]
                    expo = sym.operand(o)
        pn = {v: k for k, v in f.param_names().items()}
        if expo is None or "base2k" not in pn:
            res.undec("ERR-1", "%s: the scale is not 2^(integer expression)" % f.pretty)
            continue
        B = Poly.atom(("p", pn["base2k"], ()))
        ks = [a for a in pwl_atoms(limb) | pwl_atoms(expo) if a[0] == "p" and a[1] == pn.get("self") and a[2] == ("k",)]
        if len(ks) != 1:
            res.undec("ERR-1", "%s: the precision field is not read" % f.pretty)
            continue
        K = Poly.atom(ks[0])
        bad = None
        pts = 0
        for val in pwl.valuations(count=4000, hi=70):
            ev = pwl.Eval(p, val)
            ev.syms[f.uid] = sym
            try:
                b, k = ev.poly(B), ev.poly(K)
                if b < 1 or k < 1:
                    continue
                L, s = ev.poly(limb), ev.poly(expo)
            except pwl.ErrPath:
                continue
            pts += 1
            if ((L + 1) * b - s != k or not (0 <= s < b) or L < 0) and bad is None:
                bad = {"k": k, "base2k": b, "limb": L, "scale_log2": s}
        if bad:
            res.bad("ERR-1", f.pretty, "placement-law",
                    "%s: for precision k = %d and radix 2^%d the error is put on limb %d with scale 2^%d: torus position 2^-%d (wanted 2^-%d), scale %s one limb"
                    % (f.pretty, bad["k"], bad["base2k"], bad["limb"], bad["scale_log2"], (bad["limb"] + 1) * bad["base2k"] - bad["scale_log2"], bad["k"],
                       "within" if 0 <= bad["scale_log2"] < bad["base2k"] else "NOT within"), site=f.where(), detail=bad)
        elif pts < 500:
            res.undec("ERR-1", "%s: too few admissible points (%d)" % (f.pretty, pts))
        else:
            res.ok("ERR-1", {"fn": f.pretty, "limb": repr(limb), "scale_log2": repr(expo), "points": pts, "law": "(limb + 1) * base2k - s == k, 0 <= s < base2k"})
    return n


def pwl_atoms(pl, depth=0):
    out = set()
    for a in pl.atoms():
        out.add(a)
        if a[0] == "f" and depth < 5:
            for k in a[2]:
                try:
                    out |= pwl_atoms(Poly(dict(k)), depth + 1)
                except (TypeError, ValueError):
                    pass
    return out


ACCESS = ("at_mut", "at")


def err2(p, res):
    """sampling shape functions: placement asked with the function's own radix; the limb written is the placement's; sigma / bound scaled with the placement's factor"""
    n = 0
    for f in sorted(p.lib_fns(), key=lambda x: x.uid):
        if f.kind == "Closure" or not f.blocks or not f.uid.startswith(("poulpy_cpu_ref", "poulpy_cpu_avx", "poulpy_hal")):
            continue
        pl = [(bi, t) for bi, t in f.calls() if (f.callee_def(t) or {}).get("n") == "target_limb_and_scale"]
        if not pl:
            continue
        n += 1
        flow = Flow(f)
        sym = Sym(f, flow)
        pn = {v: k for k, v in f.param_names().items()}
        bad = []
        if len(pl) != 1:
            res.undec("ERR-2", "%s: %d placement calls" % (f.pretty, len(pl)))
            continue
        bi0, t0 = pl[0]
        if "base2k" in pn:
            rr = {r[1] for r in flow.op_roots(t0["a"][1]) if r[0] == "param"}
            if rr != {pn["base2k"]}:
                bad.append(("placement-radix", "asks for the noise placement with another radix than its own `base2k` parameter", t0["l"]))
        # the sampler call: receives a slice from an accessor indexed by the placement's limb, and sigma/bound products containing the placement's scale
        sampler = None
        for bi, t in f.calls():
            tg = [p.fn(u) for u in p.targets(f, t) if p.fn(u) is not None]
            if not tg:
                continue
            q = {v: k for k, v in tg[0].param_names().items()}
            if "sigma" in q and "bound" in q and q["sigma"] - 1 < len(t["a"]) and q["bound"] - 1 < len(t["a"]):
                sampler = (bi, t, q)
        if sampler is None:
            # inline form: Normal::new(_, sigma) in the function, rejection loop in a closure over a limb slice
            news = [(bi, t) for bi, t in f.calls() if (f.callee_def(t) or {}).get("n") == "new" and "Normal" in (f.callee_def(t) or {}).get("p", "") and len(t["a"]) == 2]
            accs = [(bi, t) for bi, t in f.calls() if (f.callee_def(t) or {}).get("n") in ACCESS and len(t["a"]) == 3]
            if len(news) != 1 or len(accs) != 1:
                res.undec("ERR-2", "%s: no sampler call with sigma / bound parameters and no inline Normal::new over one limb accessor" % f.pretty)
                continue
            sig = sym.operand(news[0][1]["a"][1])
            rl = flow.op_roots(accs[0][1]["a"][2])
            if not (len(rl) == 1 and any(x[0] == "call" and x[1] == bi0 and x[2][:1] == ("0",) for x in rl)):
                bad.append(("limb-not-from-placement", "writes the noise to a limb that is not the one `target_limb_and_scale` returned", accs[0][1]["l"]))
            if not any(a[0] == "call" and a[1] == f.uid and a[2] == bi0 and tuple(a[3:4]) == (("1",),) for a in pwl_atoms(sig)):
                bad.append(("sigma-unscaled", "samples with a standard deviation without the scale factor of the placement (%r)" % sig, news[0][1]["l"]))
            if bad:
                for kind, msg, line in bad:
                    res.bad("ERR-2", f.pretty, kind, "%s %s" % (f.pretty, msg), site=f.where(line))
            else:
                res.ok("ERR-2", {"fn": f.pretty, "form": "inline sampler (bound scale: RND-9)"})
            continue
        bi, t, q = sampler
        # limb argument of the accessor feeding the sampler's slice
        limb_ok = None
        for a in t["a"]:
            for r in flow.op_roots(a):
                if r[0] == "call":
                    t2 = f.blocks[r[1]]["t"]
                    if (f.callee_def(t2) or {}).get("n") in ACCESS and len(t2["a"]) == 3:
                        rl = flow.op_roots(t2["a"][2])
                        limb_ok = any(x[0] == "call" and x[1] == bi0 and x[2][:1] == ("0",) for x in rl) and len(rl) == 1
        if limb_ok is None:
            res.undec("ERR-2", "%s: the sampler's slice is not a limb accessor" % f.pretty)
            continue
        if not limb_ok:
            bad.append(("limb-not-from-placement", "writes the noise to a limb that is not the one `target_limb_and_scale` returned", t["l"]))
        for nm in ("sigma", "bound"):
            v = sym.operand(t["a"][q[nm] - 1])
            if not any(a[0] == "call" and a[1] == f.uid and a[2] == bi0 and tuple(a[3:4]) == (("1",),) for a in pwl_atoms(v)):
                bad.append(("%s-unscaled" % nm, "hands `%s` to the sampler without the scale factor of the placement (%r)" % (nm, v), t["l"]))
        if bad:
            for kind, msg, line in bad:
                res.bad("ERR-2", f.pretty, kind, "%s %s" % (f.pretty, msg), site=f.where(line))
        else:
            res.ok("ERR-2", {"fn": f.pretty})
    return n


def err4(p, res):
    """the magnitude guard of a Gaussian sampling shape function (`ceil(log2(x)) < 64`) is applied to the bound the sampler really truncates at - the bound times the placement's
    scale - not to the unscaled bound: a sample is stored as an i64"""
    n = 0
    for f in sorted(p.lib_fns(), key=lambda x: x.uid):
        if f.kind == "Closure" or not f.blocks or not f.uid.startswith(("poulpy_cpu_ref", "poulpy_cpu_avx", "poulpy_hal")):
            continue
        pl = [(bi, t) for bi, t in f.calls() if (f.callee_def(t) or {}).get("n") == "target_limb_and_scale"]
        logs = [(bi, t) for bi, t in f.calls() if (f.callee_def(t) or {}).get("n") == "log2" and len(t["a"]) == 1]
        if len(pl) != 1 or not logs:
            continue
        flow = Flow(f)
        sym = Sym(f, flow)
        bi0 = pl[0][0]
        # guards: comparisons with an integer constant whose other side derives from a log2 call
        g = CFG(f)
        cr = g.can_return()
        guards = []
        for b in sorted(g.reach):
            tt = f.blocks[b]["t"]
            if not tt or tt["k"] != "Switch":
                continue
            arms = [x for _, x in tt["ts"]] + [tt["else"]]
            if all(x in cr for x in arms):
                continue
            for r in flow.op_roots(tt["o"]):
                if r[0] != "bin":
                    continue
                st = f.blocks[r[1]]["s"][r[2]][2]
                if st.get("op") not in ("Lt", "Le", "Gt", "Ge"):
                    continue
                for o in st["o"]:
                    srcs = _log_sources(f, flow, o)
                    for lb in srcs:
                        guards.append((b, lb))
        if not guards:
            continue
        n += 1
        bad = None
        for b, lb in guards:
            arg = f.blocks[lb]["t"]["a"][0]
            v = sym.operand(arg)
            if not any(a[0] == "call" and a[1] == f.uid and a[2] == bi0 and tuple(a[3:4]) == (("1",),) for a in pwl_atoms(v)):
                bad = (v, f.blocks[lb]["t"]["l"])
        if bad:
            res.bad("ERR-4", f.pretty, "guard-on-unscaled-bound",
                    "%s guards the magnitude of `%r` but truncates its samples at that bound times the scale of the noise position (up to 2^(base2k-1)): for a position inside a limb the "
                    "stored i64 sample can overflow although the guard passed" % (f.pretty, bad[0]), site=f.where(bad[1]))
        else:
            res.ok("ERR-4", {"fn": f.pretty})
    return n


def _log_sources(f, flow, op, depth=0):
    """blocks of `log2` calls the operand derives from (through ceil / casts / arithmetic)"""
    out = set()
    if depth > 6 or op[0] not in ("c", "m"):
        return out
    for r in flow.op_roots(op):
        if r[0] == "call":
            t = f.blocks[r[1]]["t"]
            nm = (f.callee_def(t) or {}).get("n")
            if nm == "log2":
                out.add(r[1])
            elif nm in ("ceil", "floor", "round", "abs"):
                for a in t["a"]:
                    out |= _log_sources(f, flow, a, depth + 1)
        elif r[0] == "bin":
            for a in f.blocks[r[1]]["s"][r[2]][2]["o"]:
                out |= _log_sources(f, flow, a, depth + 1)
        elif r[0] == "other" and r[1] >= 0:
            st = f.blocks[r[1]]["s"][r[2]][2]
            if st["k"] == "Cast":
                out |= _log_sources(f, flow, st["o"][0], depth + 1)
    return out


def err3(p, res):
    """scalar samplers: the stored value derives from a sample that passed `|s| > bound` == false, bound being the sampler's own parameter"""
    from .c20 import cap_subst_for
    n = 0
    for f in sorted(p.lib_fns(), key=lambda x: x.uid):
        if f.kind == "Closure" or not f.blocks or not f.uid.startswith(("poulpy_cpu_ref", "poulpy_cpu_avx", "poulpy_hal")):
            continue
        pn = {v: k for k, v in f.param_names().items()}
        if not ({"bound", "sigma", "noise_infos"} & set(pn)) and not any((f.callee_def(t) or {}).get("n") == "new" and "Normal" in (f.callee_def(t) or {}).get("p", "") for _, t in f.calls()):
            continue            # not an error sampler (secret-key distributions draw from finite choice tables)
        bodies = [f] + list(p.closures_of(f))
        samp = [b for b in bodies if any((b.callee_def(t) or {}).get("n") == "sample" for _, t in b.calls())]
        if not samp:
            continue
        fsym = Sym(f, Flow(f))
        for b in samp:
            n += 1
            g = CFG(b)
            flow = Flow(b)
            sym = Sym(b, flow, cap_subst=cap_subst_for(f, fsym, b.uid)) if b is not f else fsym
            sample_locals = {t["d"][0] for _, t in b.calls() if (b.callee_def(t) or {}).get("n") == "sample" and len(t["d"]) == 1}
            # close over copies: locals assigned (Use) from a sample local
            changed = True
            while changed:
                changed = False
                for blk in b.blocks:
                    for st in blk["s"]:
                        if st[0] == "A" and len(st[1]) == 1 and st[2]["k"] == "Use" and st[2]["o"][0][0] in ("c", "m") and len(st[2]["o"][0][1]) == 1 \
                                and st[2]["o"][0][1][0] in sample_locals and st[1][0] not in sample_locals:
                            sample_locals.add(st[1][0])
                            changed = True
            # rejection tests: switch on Gt/Ge/Lt/Le(abs(S), B)
            tests = []
            for bj in sorted(g.reach):
                tt = b.blocks[bj]["t"]
                if not tt or tt["k"] != "Switch":
                    continue
                for r in flow.op_roots(tt["o"]):
                    if r[0] != "bin":
                        continue
                    st = b.blocks[r[1]]["s"][r[2]][2]
                    if st.get("op") not in ("Gt", "Ge", "Lt", "Le"):
                        continue
                    sides = []
                    for o in st["o"]:
                        is_abs = None
                        for q in flow.op_roots(o):
                            if q[0] == "call":
                                t2 = b.blocks[q[1]]["t"]
                                if (b.callee_def(t2) or {}).get("n") == "abs" and t2["a"]:
                                    is_abs = t2["a"][0]
                        sides.append((o, is_abs))
                    for (o1, a1), (o2, a2), flip in ((sides[0], sides[1], False), (sides[1], sides[0], True)):
                        if a1 is None:
                            continue
                        op = st["op"] if not flip else {"Gt": "Lt", "Lt": "Gt", "Ge": "Le", "Le": "Ge"}[st["op"]]
                        # abs(S) op B is true  <=>  reject  (for Gt / Ge);  accept arm = the false arm
                        accept_when_true = op in ("Lt", "Le")
                        arms = [(v, x) for v, x in tt["ts"]] + [("else", tt["else"])]
                        acc = [x for v, x in arms if ((v != 0) == accept_when_true)]
                        tests.append((bj, a1, sym.operand(o2), acc))
            stores = []
            for bi, blk in enumerate(b.blocks):
                for st in blk["s"]:
                    if st[0] == "A" and len(st[1]) > 1 and "*" in st[1][1:] and bi in g.reach:
                        stores.append((bi, st))
            stores = [(bi, st) for bi, st in stores if _derives_from(b, flow, st[2], sample_locals)]
            # a store through a call destination: `*r = r.wrapping_add(sample as ..)`
            for bi, t in b.calls():
                if len(t["d"]) > 1 and "*" in t["d"][1:] and bi in g.reach and _derives_from(b, flow, {"o": t["a"]}, sample_locals):
                    stores.append((t["t"] if t.get("t") is not None else bi, ["A", t["d"], {"o": t["a"]}, t["l"]]))
            if not stores:
                res.undec("ERR-3", "%s: no store of a sampled value" % b.pretty)
                continue
            def bound_like(pl):
                """the compared value is the sampler's `bound` parameter or a product with the `bound` field of a parameter"""
                return any(a[0] == "p" and ((a[1] == pn.get("bound") and not a[2]) or (a[2] and a[2][-1] == "bound")) for a in pwl_atoms(pl))
            bad = None
            # the other way to respect the bound: the sample is clamped to [-bound, bound] (another distribution - C06's business - but never above the bound)
            clamped = any((b.callee_def(t) or {}).get("n") == "clamp" and len(t["a"]) == 3 and bound_like(sym.operand(t["a"][2])) and _derives_from(b, flow, {"o": t["a"][:1]}, sample_locals)
                          for _, t in b.calls())
            for bi, st in stores:
                good = clamped
                for bj, s_op, bnd, acc in tests:
                    s_loc = s_op[1][0] if s_op[0] in ("c", "m") else None
                    if s_loc not in sample_locals or not bound_like(bnd):
                        continue
                    if not any(g.dominates(a, bi) and len(g.pred[a]) == 1 for a in acc):
                        continue
                    # no redefinition of a sample local on the accepted side
                    redefined = False
                    for bk in g.reach:
                        if not any(g.dominates(a, bk) for a in acc):
                            continue
                        tk = b.blocks[bk]["t"]
                        if tk and tk["k"] == "Call" and (b.callee_def(tk) or {}).get("n") == "sample":
                            redefined = True
                    if not redefined:
                        good = True
                if not good:
                    bad = (bi, st)
            if bad:
                res.bad("ERR-3", b.pretty, "unchecked-sample",
                        "%s stores a sampled value that did not pass the rejection test against the sampler's own `bound` parameter (no `|sample| > bound` test whose accepting arm "
                        "dominates the store, or the sample is drawn again after the test): the error can exceed the configured truncation bound" % b.pretty, site=b.where(bad[1][3] if len(bad[1]) > 3 else None))
            else:
                res.ok("ERR-3", {"fn": b.pretty, "stores": len(stores), "tests": len(tests)})
    return n


def _derives_from(b, flow, rv, locs, depth=0):
    """the stored rvalue depends (through arithmetic, casts, round) on one of the sample locals"""
    seen = set()

    def dep(op, d):
        if d > 8 or op[0] not in ("c", "m"):
            return False
        l = op[1][0]
        if l in locs:
            return True
        if (l, d) in seen:
            return False
        seen.add((l, d))
        for df in flow.defs.get(l, []):
            if df[0] == "call":
                t = df[2]
                if (b.callee_def(t) or {}).get("n") != "sample" and len(t["a"]) <= 3 and any(dep(a, d + 1) for a in t["a"]):
                    return True
            else:
                if any(dep(o, d + 1) for o in df[4].get("o", [])):
                    return True
        return False
    return any(dep(o, 0) for o in rv.get("o", []))


PT_T = ("to_ref", "to_mut", "deref", "deref_mut", "borrow", "as_ref", "as_mut", "into", "from", "clone", "data", "data_mut", "unwrap", "expect", "as_usize", "as_u32")


def _reaches_param(f, flow, op, pl, depth=0):
    """the operand is (or is an aggregate - tuple / Option - built from) the object rooted at parameter pl"""
    for r in flow.op_roots(op):
        if r[0] == "param" and r[1] == pl:
            return True
        if r[0] == "agg" and depth < 3:
            st = f.blocks[r[1]]["s"][r[2]][2]
            if any(_reaches_param(f, flow, o, pl, depth + 1) for o in st.get("o", [])):
                return True
    return False


def _pt_radix_compared(p, f, pl, depth=0):
    """f (or a library callee it hands its parameter `pl` to, two levels) compares `base2k` of the object rooted at parameter pl with another value (eq / ne / assert_eq)"""
    flow = Flow(f, transparent=PT_T)
    mine = set()
    for bi, t in f.calls():
        if (f.callee_def(t) or {}).get("n") == "base2k" and t["a"]:
            if any(r[0] == "param" and r[1] == pl for r in flow.op_roots(t["a"][0])):
                mine.add(bi)
    if mine:
        def from_mine(op):
            return any(r[0] == "call" and r[1] in mine for r in flow.op_roots(op))
        for bi, t in f.calls():
            if (f.callee_def(t) or {}).get("n") in ("eq", "ne") and len(t["a"]) == 2 and (from_mine(t["a"][0]) != from_mine(t["a"][1])):
                return True
        for blk in f.blocks:
            for st in blk["s"]:
                if st[0] == "A" and st[2]["k"] == "Bin" and st[2].get("op") in ("Eq", "Ne") and (from_mine(st[2]["o"][0]) != from_mine(st[2]["o"][1])):
                    return True
    if depth >= 2:
        return False
    for bi, t in f.calls():
        for i, a in enumerate(t["a"]):
            if not _reaches_param(f, flow, a, pl):
                continue
            for u in p.targets(f, t):
                g = p.fn(u)
                if g is None or not g.blocks or not g.uid.startswith("poulpy_core::") or g.uid == f.uid:
                    continue
                if i + 1 <= g.argc and _pt_radix_compared(p, g, i + 1, depth + 1):
                    return True
    return False


def _pt_view(p, f, pl, depth=0):
    """type of the view `to_ref()` builds from the object rooted at parameter pl, in f or in a routine f hands it to (closures of f included)"""
    bodies = [f] + list(p.closures_of(f))
    for b in bodies:
        flow = Flow(b, transparent=PT_T)
        for bi, t in b.calls():
            if (b.callee_def(t) or {}).get("n") == "to_ref" and t["a"] and len(t["d"]) == 1:
                rr = flow.op_roots(t["a"][0])
                if (b is f and any(r[0] == "param" and r[1] == pl for r in rr)) or (b is not f and any(r[0] == "param" for r in rr) and "Plaintext" in b.local_ty(t["d"][0]).get("s", "")):
                    ty = b.local_ty(t["d"][0]).get("s", "")
                    if "Plaintext" in ty or b is f:
                        return ty
    if depth >= 2:
        return None
    flow = Flow(f, transparent=PT_T)
    for bi, t in f.calls():
        for i, a in enumerate(t["a"]):
            if _reaches_param(f, flow, a, pl):
                for u in p.targets(f, t):
                    g = p.fn(u)
                    if g is not None and g.blocks and g.uid.startswith("poulpy_core::") and g.uid != f.uid and i + 1 <= g.argc:
                        v = _pt_view(p, g, i + 1, depth + 1)
                        if v:
                            return v
    return None


def dec1(p, res):
    """decryption: the accumulators in which the phase `b + <a, s>` is formed (big / DFT temporaries taken from scratch, the LWE phase temporary) have at least as
    many limbs as the ciphertext for every shape.  The accumulated limbs are not normalised: the limbs left out contribute about rank * N * 2^(base2k - 1) units
    of the first dropped limb, i.e. rank * N / 2^(base2k * g + 1) units of the last plaintext limb with g guard limbs - unbounded in the ring degree for any
    number of guard limbs that does not depend on it.  A limb count that mentions the ring degree is left undecided."""
    n = 0
    cache = {}
    VIEWS = ("to_ref", "to_mut", "data", "data_mut", "deref", "as_ref", "borrow")
    for f in sorted(p.lib_fns(), key=lambda x: x.uid):
        if f.kind == "Closure" or f.is_test() or not f.uid.startswith("poulpy_core::decryption") or "tmp_bytes" in f.name:
            continue
        takes = []
        bodies = [f] + list(p.closures_of(f))
        for body in bodies:
            for bi, t in body.calls():
                nm = (body.callee_def(t) or {}).get("n", "")
                if nm in ("take_vec_znx_big", "take_vec_znx_dft", "take_vec_znx") and len(t["a"]) >= 3:
                    takes.append((body, bi, t, nm))
        if not takes:
            continue
        # the ciphertext: the parameter whose data is added to / transformed into the accumulators
        flow = Flow(f, transparent=VIEWS)
        ct = set()
        for body in bodies:
            bflow = flow if body is f else Flow(body, transparent=VIEWS)
            for bi, t in body.calls():
                nm = (body.callee_def(t) or {}).get("n", "")
                src = None
                if nm == "vec_znx_big_add_small_assign" and len(t["a"]) >= 4:
                    src = t["a"][3]
                elif nm == "vec_znx_dft_apply" and len(t["a"]) >= 6:
                    src = t["a"][5]
                if src is None:
                    continue
                for r in bflow.op_roots(src):
                    if r[0] == "param" and body is f:
                        ct.add(r[1])
                    elif r[0] == "upvar" or (r[0] == "param" and body is not f):
                        pass
        if len(ct) != 1:
            # closures read the ciphertext through captures: fall back to the first non-self parameter (the ciphertext by the API's convention), checked by name
            pn = f.param_names()
            ct = {l for l, nm in pn.items() if nm == "res"}
        if len(ct) != 1:
            res.undec("DEC-1", "%s: ciphertext parameter not identified" % f.pretty)
            continue
        ctp = sorted(ct)[0]
        want = Poly.atom(("f", "size", (Poly.atom(("p", ctp, ())).key(),)))
        for body, bi, t, nm in takes:
            n += 1
            if body is f:
                sym, w_poly = Sym(f, Flow(f)), want
            else:
                from .c14 import chain_sym, _rename_params
                sym, w_poly = chain_sym(p, body, cache), _rename_params(want, f.uid)
            sz = sym.operand(t["a"][-1])
            atoms = pwl_atoms(sz)
            if any(a[0] == "f" and a[1] in ("n", "log_n", "ilog2", "log2") for a in atoms) or any(a[0] == "p" and a[2][-1:] == ("n",) for a in atoms):
                res.undec("DEC-1", "%s: the limb count of %s depends on the ring degree (%r)" % (f.pretty, nm, sz))
                continue
            bad = None
            pts = 0
            for val in pwl.valuations(count=1500, hi=24):
                ev = pwl.Eval(p, val)
                try:
                    a, w = ev.poly(sz), ev.poly(w_poly)
                except pwl.ErrPath:
                    continue
                pts += 1
                if a < w and bad is None:
                    bad = {"accumulator_limbs": a, "ciphertext_limbs": w}
            if bad:
                res.bad("DEC-1", f.pretty, "phase-accumulator-narrower-than-ciphertext:%s" % nm,
                        "%s forms the phase in a %s of %r limbs: for a ciphertext of %d limbs it has %d - the limbs left out are not normalised and carry about rank * N * 2^(base2k - 1) "
                        "units each into the limbs kept, more than the configured error for small radices / large rings" % (f.pretty, nm[len("take_"):], sz, bad["ciphertext_limbs"], bad["accumulator_limbs"]),
                        site=f.where(t["l"]), detail=bad)
            elif pts < 200:
                res.undec("DEC-1", "%s: too few points for %r" % (f.pretty, sz))
            else:
                res.ok("DEC-1", {"fn": f.pretty, "take": nm, "limbs": repr(sz), "ciphertext": f.param_names().get(ctp), "points": pts})
    return n


def pos1(p, res):
    """an encryption that is handed a (GLWE / LWE) plaintext object moves its limbs into a buffer of the ciphertext's radix: the plaintext's radix has to be compared with the
    ciphertext's (or with the radix parameter of the internal routine) somewhere on the way - by the entry or by a routine it hands the plaintext to"""
    n = 0
    for f in sorted(p.lib_fns(), key=lambda x: x.uid):
        if f.kind == "Closure" or not f.blocks or not f.uid.startswith("poulpy_core::encryption") or f.name.endswith("tmp_bytes") or "internal" in f.name:
            continue
        pn = {v: k for k, v in f.param_names().items()}
        if "pt" not in pn:
            continue
        # a radix-carrying plaintext: its view type is a *Plaintext (matrix encryptions take a scalar polynomial, which has no radix)
        view = _pt_view(p, f, pn["pt"])
        if view is None or "Plaintext" not in view:
            continue
        n += 1
        if _pt_radix_compared(p, f, pn["pt"]):
            res.ok("POS-1", {"fn": f.pretty, "plaintext": view})
        else:
            res.bad("POS-1", f.pretty, "plaintext-radix-not-compared",
                    "%s moves the limbs of its plaintext into a buffer of the ciphertext's radix and neither it nor the routines it hands the plaintext to compare the two radices: a "
                    "plaintext of another base2k is encrypted at another torus position without any error" % f.pretty, site=f.where())
    return n


def run(res, tier):
    res.level = "other"
    res.explanation = ("Only the placement and truncation of the fresh error are decided: the placement function puts an error of precision k on the limb and with the scale that make it "
                       "e * 2^-k on the torus for every k and radix (piecewise-linear identity); every Gaussian sampling shape function uses that placement with its own radix, writes "
                       "the limb it names and scales sigma and bound alike; every scalar sampler stores only samples that passed the rejection test against its bound. With C06's "
                       "call discipline (noise injected once on every path of every encryption) these are necessary conditions of 'error at most the configured bound at the "
                       "encryption precision'. The size of the decryption error, the plaintext position arithmetic and the mask products are not decided.")
    res.rule("ERR-1", "NoiseInfos::target_limb_and_scale: (limb + 1) * base2k - log2(scale) == k and 0 <= log2(scale) < base2k for every k >= 1 and radix")
    res.rule("ERR-2", "Gaussian sampling shape functions: placement asked with the own radix, noise written to the placement's limb, sigma and bound scaled by the placement's factor")
    res.rule("ERR-3", "scalar samplers store only samples that passed `|sample| > bound` == false against their own bound parameter")
    res.rule("ERR-4", "the magnitude guard of a Gaussian sampling shape function is applied to the scaled bound the samples are truncated at")
    res.rule("RND-9", "sigma and bound of every Gaussian sampling site carry the same scale factor (shared with C06)")
    res.rule("RAD-3", "encryption / decryption: min / max of the limb counts of two objects only where their radices are known equal")
    res.rule("DEC-1", "decryption forms the phase in accumulators (big / DFT temporaries) with at least the ciphertext's limb count for every shape")
    res.rule("POS-1", "encryptions taking a GLWE / LWE plaintext compare its radix with the ciphertext's (entry or a routine the plaintext is handed to)")
    res.assumptions = ["rand_distr::Normal samples N(0, sigma); f64 rounding of the sample adds at most 1/2", "every encryption injects the noise exactly once: RND-1 / RND-7 under C06"]
    cfgs = ["avx-dev"] if tier == "quick" else ["avx-dev", "ref-dev"]
    for cfg in cfgs:
        p = facts.load(cfg)
        res.configs.append(p.build_info)
        n1 = err1(p, res)
        res.floor("ERR-1", "placement functions", n1, 1)
        n2 = err2(p, res)
        res.floor("ERR-2", "Gaussian sampling shape functions", n2, 3)
        n3 = err3(p, res)
        res.floor("ERR-3", "scalar samplers", n3, 5)
        n4 = err4(p, res)
        res.floor("ERR-4", "guarded Gaussian sampling shape functions", n4, 4)
        from .c06 import rnd9
        n9 = rnd9(p, res)
        res.floor("RND-9", "Gaussian sampling sites", n9, 6)
        from . import rad
        nr3 = rad.rad3(p, res, ("poulpy_core::encryption", "poulpy_core::decryption"))
        res.floor("RAD-3", "limb counts of two objects combined", nr3, 1)
        np1 = pos1(p, res)
        res.floor("POS-1", "encryptions taking a radix-carrying plaintext", np1, 4)
        nd1 = dec1(p, res)
        res.floor("DEC-1", "phase accumulators of the decryption routines", nd1, 2)
        res.fn_count += n1 + n2 + n3
