"""C14 — blind rotation evaluates the lookup table at the encrypted index (thin claim: the skip guards of the accumulator update only).

ROT-1 the CGGI accumulator update adds  X^e * u[J] - u[I]  to accumulator I for every mask coefficient (u = accumulator x key).  An implementation may skip the update when the
      rotation X^e is the identity only if the two operands are the same polynomial (J == I): for the extended accumulator (several interleaved polynomials) the update with
      J != I moves data between polynomials and is not zero for X^e = 1.  Decided on the closure chain: an update whose execution is decided by a comparison of (an expression of)
      the exponent with zero has J and I symbolically equal.
Not decided: the modulus switch of the LWE sample, the table encoding (drift, replication), the rotation arithmetic, noise.
"""
from . import facts
from .cfg import CFG, Flow
from .sym import Sym, Poly
from .c20 import closure_creation, cap_subst_for
from .rad import dominating_cmps, _deep_atoms


def _rename_params(pl, owner):
    def ren(a):
        if a[0] == "p":
            return ("cp", owner) + tuple(a[1:])
        if a[0] == "f":
            return ("f", a[1], tuple(tuple(sorted(((tuple(ren(x) for x in mono), c) for mono, c in k), key=repr)) for k in a[2]))
        return a
    out = {}
    for mono, c in pl.t.items():
        m = tuple(sorted((ren(x) for x in mono), key=repr))
        out[m] = out.get(m, 0) + c
    return Poly(out)


def chain_sym(p, f, cache):
    if f.uid in cache:
        return cache[f.uid]
    par = p.fn(f.parent) if f.kind == "Closure" and f.parent else None
    if par is None:
        s = Sym(f, Flow(f))
    else:
        caps = cap_subst_for(par, chain_sym(p, par, cache), f.uid)
        # a parameter of the parent closure seen from the child is not the child's parameter of the same number
        caps = {k: _rename_params(v, par.uid) for k, v in caps.items()}
        s = Sym(f, Flow(f), cap_subst=caps)
    cache[f.uid] = s
    return s


def _indexed(f, flow, sym, op):
    """operand `&container[idx]` -> (container expression, index expression) in chain terms"""
    for r in flow.op_roots(op):
        if r[0] == "call":
            t = f.blocks[r[1]]["t"]
            if (f.callee_def(t) or {}).get("n") in ("index", "index_mut") and len(t["a"]) == 2:
                return sym.operand(t["a"][0]), sym.operand(t["a"][1])
    return None


class _Named:
    def __init__(self, s):
        self.s = s

    def __repr__(self):
        return self.s


def _indexed_chain(p, cache, f, flow, sym, op, depth=0):
    """like _indexed, following a captured reference (`let x = &table[e]; .. |k| use(x)`) to the closure that built it; index expressions come back in unique-parameter form"""
    r = _indexed(f, flow, sym, op)
    if r is not None:
        return _rename_params(r[0], f.uid), _rename_params(r[1], f.uid)
    if depth > 4 or f.kind != "Closure" or not f.parent:
        return None
    par = p.fn(f.parent)
    cc = closure_creation(par, f.uid) if par is not None else None
    if cc is None:
        return None
    for q in flow.op_roots(op):
        if q[0] == "param" and q[1] == 1 and q[2] and q[2][0].isdigit() and int(q[2][0]) < len(cc[1][2]["o"]):
            T = ("deref", "deref_mut", "borrow", "borrow_mut", "as_mut", "as_ref")
            return _indexed_chain(p, cache, par, Flow(par, transparent=T), chain_sym(p, par, cache), cc[1][2]["o"][int(q[2][0])], depth + 1)
    return None


def rot1(p, res):
    n = 0
    cache = {}
    T = ("deref", "deref_mut", "borrow", "borrow_mut", "as_mut", "as_ref")
    for f in sorted(p.fns.values(), key=lambda x: x.uid):
        if not f.blocks or not f.uid.startswith("poulpy_bin_fhe::blind_rotation"):
            continue
        svp = [(bi, t) for bi, t in f.calls() if (f.callee_def(t) or {}).get("n") == "svp_apply_dft_to_dft" and len(t["a"]) == 7]
        subs = [(bi, t) for bi, t in f.calls() if (f.callee_def(t) or {}).get("n") == "vec_znx_dft_sub_assign" and len(t["a"]) == 5]
        if len(svp) != 1 or len(subs) != 1:
            continue
        n += 1
        sym = chain_sym(p, f, cache)
        flow = Flow(f, transparent=T)
        rot = _indexed(f, flow, sym, svp[0][1]["a"][3])
        u_j = _indexed(f, flow, sym, svp[0][1]["a"][5])
        u_i = _indexed(f, flow, sym, subs[0][1]["a"][3])
        # a single accumulator (no interleaving): operands are not indexed at all
        if u_j is None and u_i is None:
            same = sym.operand(svp[0][1]["a"][5]).key() == sym.operand(subs[0][1]["a"][3]).key()
            if same:
                res.ok("ROT-1", {"fn": f.pretty, "form": "single accumulator: X^e * u - u"})
            else:
                res.undec("ROT-1", "%s: operands of the update not recognised" % f.pretty)
            continue
        if rot is None or u_j is None or u_i is None or u_j[0].key() != u_i[0].key():
            res.undec("ROT-1", "%s: operands of the update not recognised" % f.pretty)
            continue
        rot = (rot[0], _rename_params(rot[1], f.uid))
        e_atoms = _deep_atoms(rot[1])
        # guards on the exponent anywhere up the closure chain
        guarded = None
        g_fn, at_block = f, svp[0][0]
        while g_fn is not None:
            gs = chain_sym(p, g_fn, cache)
            cmps = dominating_cmps(g_fn, CFG(g_fn), Flow(g_fn), gs, at_block)
            for op, x, y in cmps:
                x, y = _rename_params(x, g_fn.uid), _rename_params(y, g_fn.uid)
                if op != "Ne":
                    continue
                for u, v in ((x, y), (y, x)):
                    # a test of the exponent itself (possibly reduced: `(e) & (2N - 1)`), not of another part of the mask coefficient
                    if v.is_const() and v.const_value() == 0 and (u.key() == rot[1].key() or repr(rot[1]) in repr(u)):
                        guarded = (g_fn, repr(u))
            par = p.fn(g_fn.parent) if g_fn.kind == "Closure" and g_fn.parent else None
            if par is None:
                break
            cc = closure_creation(par, g_fn.uid)
            if cc is None:
                break
            g_fn, at_block = par, cc[0]
        if guarded is None:
            res.ok("ROT-1", {"fn": f.pretty, "form": "update not skipped"})
        elif u_j[1].key() == u_i[1].key():
            res.ok("ROT-1", {"fn": f.pretty, "form": "skipped when `%s` == 0; both operands are polynomial `%r`" % (guarded[1], u_j[1])})
        else:
            def nm(pl):
                at = [a for a in pl.atoms()]
                if len(at) == 1 and at[0][0] == "call" and len(at[0]) > 3:
                    return "%r.%s" % (pl, ".".join(str(x) for x in at[0][3]))
                return repr(pl)
            u_j, u_i = (u_j[0], _Named(nm(u_j[1]))), (u_i[0], _Named(nm(u_i[1])))
            res.bad("ROT-1", f.pretty, "skip-of-a-move",
                    "%s: the update  acc[i] += X^e * u[%r] - u[%r]  is skipped when `%s` == 0 (rotation by the identity), but its two operands are different interleaved "
                    "polynomials: the skipped term u[%r] - u[%r] is not zero - mask coefficients whose per-polynomial rotation is the identity give a wrong accumulator"
                    % (f.pretty, u_j[1], u_i[1], guarded[1], u_j[1], u_i[1]), site=f.where(svp[0][1]["l"]))
    return n


# ------------------------------------------------------------------ EXT-1
IT_T = ("into_iter", "by_ref", "deref", "deref_mut", "borrow", "borrow_mut", "iter", "into", "from")


def _range_of(f, flow, sym, op):
    """operand that is (an iterator over) a literal range `lo..hi` -> (lo, hi)"""
    for r in flow.op_roots(op):
        if r[0] == "agg":
            rv = f.blocks[r[1]]["s"][r[2]][2]
            if rv.get("ak") == "Adt" and rv.get("fields") and "start" in rv["fields"] and "end" in rv["fields"]:
                return sym.operand(rv["o"][rv["fields"].index("start")]), sym.operand(rv["o"][rv["fields"].index("end")])
    return None


def _loop_var(p, cache, a):
    """a loop-variable atom -> list of (lo, hi) ranges it runs over, one per zip component it belongs to, as ('zip', next-site, component, [(lo, hi), (lo, hi)]) or
    ('range', site, 0, [(lo, hi)]); None when the atom is not a recognised loop variable"""
    if a[0] == "call" and len(a) > 3:
        g = p.fn(a[1])
        if g is None:
            return None
        t = g.blocks[a[2]]["t"]
        if (g.callee_def(t) or {}).get("n") != "next":
            return None
        flow = Flow(g, transparent=IT_T)
        sym = chain_sym(p, g, cache)
        for r in flow.op_roots(t["a"][0]):
            if r[0] == "call":
                t2 = g.blocks[r[1]]["t"]
                if (g.callee_def(t2) or {}).get("n") == "zip" and len(t2["a"]) == 2:
                    r0, r1 = _range_of(g, flow, sym, t2["a"][0]), _range_of(g, flow, sym, t2["a"][1])
                    if r0 and r1 and a[3][:1] == ("0",) and a[3][1:2] in (("0",), ("1",)):
                        return ("zip", (a[1], a[2]), int(a[3][1]), [tuple(_rename_params(x, g.uid) for x in r0), tuple(_rename_params(x, g.uid) for x in r1)])
        rg = _range_of(g, flow, sym, t["a"][0])
        if rg and a[3] == ("0",):
            return ("range", (a[1], a[2]), 0, [tuple(_rename_params(x, g.uid) for x in rg)])
        return None
    if a[0] == "cp" and len(a) >= 3 and a[2] == 2:
        # the argument of a closure handed to `(lo..hi).for_each(..)`
        c = p.fn(a[1])
        par = p.fn(c.parent) if c is not None and c.parent else None
        if par is None:
            return None
        cc = closure_creation(par, c.uid)
        if cc is None:
            return None
        clos_local = cc[1][1][0]
        flow = Flow(par, transparent=IT_T)
        sym = chain_sym(p, par, cache)
        for bi, t in par.calls():
            if (par.callee_def(t) or {}).get("n") == "for_each" and len(t["a"]) == 2 and t["a"][1][0] in ("c", "m") and t["a"][1][1][0] == clos_local:
                rg = _range_of(par, flow, sym, t["a"][0])
                if rg:
                    return ("range", (par.uid, bi), 0, [tuple(_rename_params(x, par.uid) for x in rg)])
    return None


def ext1(p, res):
    """interleaved polynomials of the extended blind rotation: a rotation by  pos = hi * ext + lo  of the extended ring acts on the ext interleaved polynomials as
        destination i  <-  X^(hi + [i < lo]) * source ((i - lo) mod ext),        every destination 0 <= i < ext exactly once.
    The move sites of each variant (`vec_znx_rotate(e, acc[i], lut[j])` for the initial rotation, the update `acc[i] += X^e u[j] - u[i]`) are collected along the closure chain
    with their index expressions, the ranges / zips of ranges their loop variables run over and the comparisons that decide them; the (i, j, e) triples are enumerated from the
    extracted expressions for small values of (ext, 2N, pos) and compared with the law."""
    from . import pwl
    n = 0
    cache = {}
    T = ("deref", "deref_mut", "borrow", "borrow_mut", "as_mut", "as_ref")
    roots = sorted((f for f in p.lib_fns() if f.kind != "Closure" and f.blocks and f.uid.startswith("poulpy_bin_fhe::blind_rotation")), key=lambda x: x.uid)
    for root in roots:
        fam = [root] + sorted((c for c in p.fns.values() if c.uid.startswith(root.uid + "::") and c.blocks), key=lambda x: x.uid)
        sites = []
        unparsed = []
        for f in fam:
            sym = chain_sym(p, f, cache)
            flow = Flow(f, transparent=T)
            svp = [(bi, t) for bi, t in f.calls() if (f.callee_def(t) or {}).get("n") == "svp_apply_dft_to_dft" and len(t["a"]) == 7]
            adds = [(bi, t) for bi, t in f.calls() if (f.callee_def(t) or {}).get("n") == "vec_znx_dft_add_assign" and len(t["a"]) == 5]
            if len(svp) == 1 and len(adds) == 1:
                e, j, i = (_indexed_chain(p, cache, f, flow, sym, svp[0][1]["a"][3]), _indexed_chain(p, cache, f, flow, sym, svp[0][1]["a"][5]),
                           _indexed_chain(p, cache, f, flow, sym, adds[0][1]["a"][1]))
                if e and j and i:
                    sites.append({"fn": f, "bb": svp[0][0], "kind": "update", "i": i[1], "j": j[1], "e": e[1], "line": svp[0][1]["l"]})
                else:
                    unparsed.append((f, svp[0][1]["l"]))
            for bi, t in f.calls():
                if (f.callee_def(t) or {}).get("n") == "vec_znx_rotate" and len(t["a"]) == 6:
                    i, j = _indexed_chain(p, cache, f, flow, sym, t["a"][2]), _indexed_chain(p, cache, f, flow, sym, t["a"][4])
                    if i and j:
                        sites.append({"fn": f, "bb": bi, "kind": "rotate", "i": i[1], "j": j[1], "e": _rename_params(sym.operand(t["a"][1]), f.uid), "line": t["l"]})
        # the split form: the exponent contains Div(pos, ext)
        groups = {}
        for st in sites:
            div = [a for a in _deep_atoms(st["e"]) if a[0] == "f" and a[1] == "Div"]
            div = list({repr(a): a for a in div}.values())
            if len(div) != 1:
                if div:
                    unparsed.append((st["fn"], st["line"]))
                continue
            pos, ext = Poly(dict(div[0][2][0])), Poly(dict(div[0][2][1]))
            if len(pos.t) != 1 or len(ext.t) != 1:
                continue
            groups.setdefault((st["kind"], pos.key(), ext.key()), []).append(st)
        for (kind, pk, ek), grp in sorted(groups.items(), key=lambda x: repr(x[0])):
            n += 1
            pos, ext = Poly(dict(pk)), Poly(dict(ek))
            pos_atom, ext_atom = list(pos.t)[0][0], list(ext.t)[0][0]
            # loop variables and guards of every site
            prepared = []
            undec = None
            for st in grp:
                lvs = {}
                for a in _deep_atoms(st["i"]) | _deep_atoms(st["j"]) | _deep_atoms(st["e"]):
                    lv = _loop_var(p, cache, a)
                    if lv is not None:
                        lvs[a] = lv
                guards = []
                g_fn, at_block = st["fn"], st["bb"]
                while g_fn is not None:
                    gs = chain_sym(p, g_fn, cache)
                    guards += [(op, _rename_params(x, g_fn.uid), _rename_params(y, g_fn.uid)) for op, x, y in dominating_cmps(g_fn, CFG(g_fn), Flow(g_fn), gs, at_block)]
                    par = p.fn(g_fn.parent) if g_fn.kind == "Closure" and g_fn.parent else None
                    if par is None:
                        break
                    cc = closure_creation(par, g_fn.uid)
                    if cc is None:
                        break
                    g_fn, at_block = par, cc[0]
                # only guards that speak about the split (mention pos)
                guards = [gd for gd in guards if pos_atom in (_deep_atoms(gd[1]) | _deep_atoms(gd[2]))]
                if not any(a in lvs for a in _deep_atoms(st["i"])):
                    undec = "the destination index of a move site is not a loop variable"
                prepared.append((st, lvs, guards))
            if kind == "update" and unparsed:
                undec = "a move site whose operands cannot be extracted exists beside the recognised ones (%s)" % unparsed[0][0].where(unparsed[0][1])
            if undec:
                res.undec("EXT-1", "%s (%s sites): %s" % (root.pretty, kind, undec))
                continue
            # masks `x & (M - 1)`: M has to be a power of two in the valuation
            mask_atoms = set()
            for st, lvs, guards in prepared:
                for a in _deep_atoms(st["e"]):
                    if a[0] == "f" and a[1] == "BitAnd" and a != pos_atom:
                        m = Poly(dict(a[2][1])) + Poly.const(1)
                        if len(m.t) == 1 and list(m.t)[0] != ():
                            mono, c = list(m.t.items())[0]
                            if len(mono) == 1 and c in (1, 2) and mono[0] != ext_atom:
                                mask_atoms.add((mono[0], c))
            bad = None
            pts = 0
            for E in (2, 4, 8):
                for N2 in (4, 8):
                    for posv in range(0, N2 * E):
                        H, L = posv // E, posv % E
                        got = {}
                        err = None
                        for st, lvs, guards in prepared:
                            base = {repr(pos_atom): posv, repr(ext_atom): E}
                            for ma, c in mask_atoms:
                                base[repr(ma)] = N2 // c
                            # iteration spaces: one counter per loop site (zip components advance together)
                            loops = {}
                            for a, lv in lvs.items():
                                loops.setdefault(lv[1], []).append((a, lv))
                            spaces = []
                            okl = True
                            for site, members in sorted(loops.items(), key=repr):
                                rngs = members[0][1][3]
                                ev0 = pwl.Eval(p, dict(base, __fresh__=lambda k: 1))
                                try:
                                    bounds = [(ev0.poly(lo), ev0.poly(hi)) for lo, hi in rngs]
                                except pwl.ErrPath:
                                    okl = False
                                    break
                                trip = min(max(hi - lo, 0) for lo, hi in bounds)
                                spaces.append((members, bounds, trip))
                            if not okl:
                                err = "a loop bound cannot be evaluated"
                                break

                            def rec(k, env):
                                if k == len(spaces):
                                    ev = pwl.Eval(p, dict(base, **env, __fresh__=lambda kk: 1))
                                    try:
                                        if not all({"Eq": x == y, "Ne": x != y, "Lt": x < y, "Le": x <= y, "Gt": x > y, "Ge": x >= y}[op]
                                                   for op, a_, b_ in guards for x, y in [(ev.poly(a_), ev.poly(b_))]):
                                            return
                                        yield ev.poly(st["i"]), ev.poly(st["j"]), ev.poly(st["e"])
                                    except pwl.ErrPath:
                                        return
                                    return
                                members, bounds, trip = spaces[k]
                                for tt in range(trip):
                                    e2 = dict(env)
                                    for a, lv in members:
                                        e2[repr(a)] = bounds[lv[2]][0] + tt
                                    yield from rec(k + 1, e2)
                            for i_, j_, e_ in rec(0, {}):
                                got.setdefault(i_, []).append((j_, e_, st))
                        if err:
                            continue
                        pts += 1
                        for i_ in range(E):
                            hits = got.get(i_, [])
                            want_j, want_e = (i_ - L) % E, (H + (1 if i_ < L else 0)) % N2
                            if not hits and kind == "update" and want_j == i_ and want_e == 0:
                                continue            # X^0 * u[i] - u[i]: the update adds nothing and may be skipped
                            if len(hits) != 1:
                                bad = bad or ({"ext": E, "two_n": N2, "pos": posv, "dst": i_, "moves": len(hits)}, "destination polynomial %d receives %d moves (exactly one expected)" % (i_, len(hits)), grp[0])
                            elif hits[0][0] != want_j or hits[0][1] % N2 != want_e:
                                bad = bad or ({"ext": E, "two_n": N2, "pos": posv, "dst": i_, "src": hits[0][0], "exp": hits[0][1]},
                                              "destination polynomial %d receives X^%d * source %d where the split pos = %d * ext + %d needs X^%d * source %d"
                                              % (i_, hits[0][1] % N2, hits[0][0], H, L, want_e, want_j), hits[0][2])
                        extra = [k for k in got if k < 0 or k >= E]
                        if extra and not bad:
                            bad = ({"ext": E, "pos": posv, "dst": extra[0]}, "a move addresses destination polynomial %d outside [0, ext)" % extra[0], grp[0])
            if bad:
                res.bad("EXT-1", root.pretty, "%s:interleaved-move" % kind,
                        "%s (%s sites), ext = %d, 2N = %d, pos = %d: %s" % (root.pretty, kind, bad[0].get("ext"), bad[0].get("two_n", 0), bad[0].get("pos"), bad[1]),
                        site=bad[2]["fn"].where(bad[2]["line"]), detail=bad[0])
            elif pts >= 50:
                res.ok("EXT-1", {"fn": root.pretty, "kind": kind, "sites": len(grp), "valuations": pts, "law": "dst i <- X^(hi + [i < lo]) * src ((i - lo) mod ext), each i once"})
            else:
                res.undec("EXT-1", "%s (%s sites): too few valuations could be evaluated (%d)" % (root.pretty, kind, pts))
    return n


def ext2(p, res):
    """rotation of an extended lookup table in place: each interleaved polynomial is rotated (`vec_znx_rotate_assign(e, data[i])` in `(lo..hi).for_each`) and the vector of
    polynomials is permuted (`data.rotate_right(l)` / `rotate_left`).  The sequence of operations of the function is replayed on the abstract state  slot -> (source polynomial,
    exponent)  for small (ext, 2N, pos); the final state must be  slot d = X^(hi + [d < lo]) * source ((d - lo) mod ext)  for pos = hi * ext + lo."""
    from . import pwl, sc
    n = 0
    cache = {}
    T = ("deref", "deref_mut", "borrow", "borrow_mut", "as_mut", "as_ref")
    for f in sorted(p.lib_fns(), key=lambda x: x.uid):
        if f.kind == "Closure" or not f.blocks or not f.uid.startswith("poulpy_bin_fhe::blind_rotation"):
            continue
        perms = [(bi, t) for bi, t in f.calls() if (f.callee_def(t) or {}).get("n") in ("rotate_right", "rotate_left") and len(t["a"]) == 2]
        if not perms:
            continue
        sym = chain_sym(p, f, cache)
        plain = Flow(f, transparent=IT_T)
        # for_each(range, closure) sites whose closure rotates data[i] in place
        loops = {}
        for bi, t in f.calls():
            if (f.callee_def(t) or {}).get("n") != "for_each" or len(t["a"]) != 2:
                continue
            rg = _range_of(f, plain, sym, t["a"][0])
            cl = None
            for r in Flow(f).op_roots(t["a"][1]):
                if r[0] == "agg":
                    st = f.blocks[r[1]]["s"][r[2]][2]
                    if st.get("ak") == "Closure":
                        cl = p.fn(f.duid(st["clos"]))
            if rg is None or cl is None:
                continue
            csym = chain_sym(p, cl, cache)
            cflow = Flow(cl, transparent=T)
            rots = [(b2, t2) for b2, t2 in cl.calls() if (cl.callee_def(t2) or {}).get("n") == "vec_znx_rotate_assign" and len(t2["a"]) >= 4]
            if len(rots) != 1:
                continue
            ix = _indexed(cl, cflow, csym, rots[0][1]["a"][2])
            if ix is None:
                continue
            loops[bi] = {"range": tuple(_rename_params(x, f.uid) for x in rg), "i": _rename_params(ix[1], cl.uid), "e": _rename_params(csym.operand(rots[0][1]["a"][1]), cl.uid),
                         "var": ("cp", cl.uid, 2), "line": rots[0][1]["l"], "fn": cl}
        if not loops:
            continue
        n += 1
        div = None
        for lp in loops.values():
            for a in _deep_atoms(lp["e"]):
                if a[0] == "f" and a[1] == "Div":
                    div = a
        if div is None:
            res.undec("EXT-2", "%s: the rotation amount is not split as pos / ext" % f.pretty)
            continue
        pos, ext = Poly(dict(div[2][0])), Poly(dict(div[2][1]))
        if len(pos.t) != 1 or len(ext.t) != 1:
            res.undec("EXT-2", "%s: the split is not a quotient of two quantities" % f.pretty)
            continue
        pos_atom, ext_atom = list(pos.t)[0][0], list(ext.t)[0][0]
        paths = sc.returning_paths(f, CFG(f), cap=64, unroll=1) or []
        bad = None
        pts = 0
        seqs = set()
        for path in paths:
            seq = tuple(b for b in path if b in loops or any(b == pb for pb, _ in perms))
            seqs.add(seq)
        for seq in sorted(seqs):
            for E in (2, 4, 8):
                for N2 in (4, 8):
                    for posv in range(N2 * E):
                        H, L = posv // E, posv % E
                        base = {repr(pos_atom): posv, repr(ext_atom): E}
                        state = [(s_, 0) for s_ in range(E)]
                        ok = True
                        try:
                            for b in seq:
                                if b in loops:
                                    lp = loops[b]
                                    ev0 = pwl.Eval(p, dict(base, __fresh__=lambda k: 1))
                                    lo, hi = ev0.poly(lp["range"][0]), ev0.poly(lp["range"][1])
                                    for iv in range(lo, hi):
                                        ev = pwl.Eval(p, dict(base, __fresh__=lambda k: 1))
                                        ev.val[repr(lp["var"] + ((),))] = iv
                                        ev.val[repr(lp["var"])] = iv
                                        idx, amt = ev.poly(lp["i"]), ev.poly(lp["e"])
                                        if not 0 <= idx < E:
                                            ok = False
                                            bad = bad or ({"ext": E, "pos": posv}, "slot %d outside [0, ext) is rotated" % idx, lp)
                                            break
                                        state[idx] = (state[idx][0], state[idx][1] + amt)
                                else:
                                    t = f.blocks[b]["t"]
                                    ev0 = pwl.Eval(p, dict(base, __fresh__=lambda k: 1))
                                    amt = ev0.poly(_rename_params(sym.operand(t["a"][1]), f.uid)) % E
                                    if (f.callee_def(t) or {}).get("n") == "rotate_right":
                                        state = [state[(d - amt) % E] for d in range(E)]
                                    else:
                                        state = [state[(d + amt) % E] for d in range(E)]
                        except pwl.ErrPath:
                            continue
                        if not ok:
                            continue
                        pts += 1
                        for d in range(E):
                            want = ((d - L) % E, (H + (1 if d < L else 0)) % N2)
                            have = (state[d][0], state[d][1] % N2)
                            if have != want and bad is None:
                                bad = ({"ext": E, "two_n": N2, "pos": posv, "slot": d}, "slot %d ends as X^%d * polynomial %d where pos = %d * ext + %d needs X^%d * polynomial %d"
                                       % (d, have[1], have[0], H, L, want[1], want[0]), list(loops.values())[0])
        if bad:
            res.bad("EXT-2", f.pretty, "table-rotation",
                    "%s, ext = %d, pos = %d: %s" % (f.pretty, bad[0].get("ext"), bad[0].get("pos"), bad[1]), site=bad[2]["fn"].where(bad[2]["line"]), detail=bad[0])
        elif pts >= 50:
            res.ok("EXT-2", {"fn": f.pretty, "loops": len(loops), "valuations": pts, "law": "slot d = X^(hi + [d < lo]) * source ((d - lo) mod ext)"})
        else:
            res.undec("EXT-2", "%s: too few valuations could be evaluated (%d)" % (f.pretty, pts))
    return n


def lut1(p, res):
    """table encoding: every entry of f is replicated over a run of `step` coefficients and the table is then rotated left by half a run, so that the entry selected is the one
    nearest to the encrypted index.  In `lookup_table_set`: the width W of the runs written by the replication loop (`lut[start..end].fill(..)`, W = end - start), the value D
    stored in the table's `drift` field and the exponent of the final rotation satisfy D == floor(W / 2) and exponent == -D for every run width (evaluated on the extracted
    expressions; the run width is a free variable)."""
    from . import pwl
    n = 0
    for f in sorted(p.lib_fns(), key=lambda x: x.uid):
        if f.name != "lookup_table_set" or not f.blocks or f.is_test():
            continue
        n += 1
        flow = Flow(f)
        sym = Sym(f, flow)
        D = None
        for blk in f.blocks:
            for st in blk["s"]:
                if st[0] == "A" and any(isinstance(e, list) and e[0] == "f" and e[-1] == "drift" for e in st[1][1:]) and st[2]["k"] == "Use":
                    D = sym.operand(st[2]["o"][0])
        W = None
        for bi, t in f.calls():
            if (f.callee_def(t) or {}).get("n") != "fill" or not t["a"]:
                continue
            for r in flow.op_roots(t["a"][0]):
                if r[0] == "call" and (f.callee_def(f.blocks[r[1]]["t"]) or {}).get("n") == "index_mut":
                    for r2 in flow.op_roots(f.blocks[r[1]]["t"]["a"][1]):
                        if r2[0] == "agg":
                            rv = f.blocks[r2[1]]["s"][r2[2]][2]
                            if rv.get("fields") == ["start", "end"]:
                                W = sym.operand(rv["o"][1]) - sym.operand(rv["o"][0])
        R = None
        for bi, t in f.calls():
            if (f.callee_def(t) or {}).get("n") == "rotate" and len(t["a"]) == 3:
                R = sym.operand(t["a"][2])
        if D is None or W is None or R is None:
            res.undec("LUT-1", "%s: run width / drift store / final rotation not recognised" % f.pretty)
            continue
        bad = None
        pts = 0
        # two calls of the same accessor on the same receiver (`res.extension_factor()` twice) are one quantity
        groups = {}
        for pl in (D, W, R):
            for a in _deep_atoms(pl):
                if a[0] == "call" and a[1] == f.uid:
                    t = f.blocks[a[2]]["t"]
                    groups.setdefault(((f.callee_def(t) or {}).get("u"), tuple(repr(sym.operand(x)) for x in t["a"])), []).append(a)
        for val in pwl.valuations(count=1500, hi=40):
            ev = pwl.Eval(p, val)
            ev.syms[f.uid] = sym
            for k, ats in groups.items():
                if len(ats) > 1:
                    v0 = ev.free_var(ats[0])
                    for a in ats[1:]:
                        ev.val[repr(a)] = v0
            try:
                w, d, r = ev.poly(W), ev.poly(D), ev.poly(R)
            except (pwl.ErrPath, ZeroDivisionError):
                continue
            if w < 1:
                continue
            pts += 1
            if (d != w // 2 or r != -d) and bad is None:
                bad = {"run_width": w, "drift": d, "rotation": r}
        if bad:
            res.bad("LUT-1", f.pretty, "half-step-drift", "%s: for runs of %d coefficients the table is rotated by %d and records a drift of %d (drift = %r): the table has to be centred by "
                    "floor(run / 2) = %d, otherwise indices within half a run below an entry read the previous one" % (f.pretty, bad["run_width"], bad["rotation"], bad["drift"], D, bad["run_width"] // 2),
                    site=f.where(), detail=bad)
        elif pts < 300:
            res.undec("LUT-1", "%s: too few points" % f.pretty)
        else:
            res.ok("LUT-1", {"fn": f.pretty, "run": repr(W), "drift": repr(D), "rotation": repr(R), "points": pts})
    return n


def lut2(p, res):
    """table encoding: an entry is written on limb `k.div_ceil(base2k) - 1` multiplied by a scale that left-aligns its k bits on the limbs used:
    scale == 2^(k.div_ceil(base2k) * base2k - k), in particular 1 when k is a multiple of base2k.  Decided path by path on the value handed to the replication `fill`, with the entry
    set to 1 and (k, base2k) on a grid; boolean decisions (`k.is_multiple_of(base2k)`) are evaluated, paths with other decisions are left unjudged."""
    from . import pwl, sc
    from .c03 import _sw_holds, _Unjudged
    n = 0
    for f in sorted(p.lib_fns(), key=lambda x: x.uid):
        if f.name != "lookup_table_set" or not f.blocks or f.is_test():
            continue
        n += 1
        g = CFG(f)
        fills = [bi for bi, t in f.calls() if (f.callee_def(t) or {}).get("n") == "fill" and len(t["a"]) == 2 and g.innermost_loop(bi) is not None]
        paths = sc.returning_paths(f, g, cap=256) or []
        pn = {v: k for k, v in f.param_names().items()}
        if not fills or not paths or "k" not in pn:
            res.undec("LUT-2", "%s: replication fill / paths / precision parameter not found" % f.pretty)
            continue
        K = Poly.atom(("p", pn["k"], ()))
        bad = None
        pts = 0
        unj = 0
        seen = set()
        for path in paths:
            if fills[0] not in path:
                continue
            sym = Sym(f, sc.PathFlow(f, path))
            sym.at = (path.index(fills[0]), 1 << 21)
            val_pl = sym.operand(f.blocks[fills[0]]["t"]["a"][1])
            sym.at = None
            sig = repr(val_pl)
            if sig in seen:
                continue
            seen.add(sig)
            conds = [sc.norm_cond(k_, t_) for k_, t_ in sc.path_conditions(f, g, path, sym)]
            sw = [c_ for c_ in conds if c_[0] and isinstance(c_[0], tuple) and c_[0][0] == "sw"]
            b2k = [a for a in _deep_atoms(val_pl) | set().union(*[_deep_atoms(sym.operand(f.blocks[c_[0][2]]["t"]["o"])) for c_ in sw] or [set()])
                   if (a[0] == "p" and a[2][-1:] == ("base2k",)) or (a[0] == "f" and a[1] == "base2k")]
            entry = [a for a in val_pl.atoms() if a[0] in ("call", "op", "phi") or (a[0] == "p" and a[1] != pn["k"] and not (a[2][-1:] == ("base2k",)))]
            if len(set(b2k)) != 1:
                unj += 1
                continue
            for kv in range(1, 41):
                for bv in range(2, 21):
                    ev = pwl.Eval(p, {"__fresh__": lambda key: 1})
                    ev.syms[f.uid] = sym
                    ev.val[repr(K.atoms().__iter__().__next__())] = kv
                    ev.val[repr(b2k[0])] = bv
                    try:
                        if not all(_sw_holds(f, ev, sym, c_) for c_ in sw):
                            continue
                        ok = True
                        for c_ in conds:
                            if c_[0] == "cmp":
                                x, y = ev.key(c_[2]), ev.key(c_[3])
                                if not {"Eq": x == y, "Ne": x != y, "Lt": x < y, "Le": x <= y, "Gt": x > y, "Ge": x >= y}[c_[1]]:
                                    ok = False
                                    break
                        if not ok:
                            continue
                        v = ev.poly(val_pl)
                    except (_Unjudged, pwl.ErrPath, ZeroDivisionError):
                        unj += 1
                        continue
                    pts += 1
                    want = 1 << (-(-kv // bv) * bv - kv)
                    if v != want and bad is None:
                        bad = {"k": kv, "base2k": bv, "scale": v, "want": want, "expr": repr(val_pl)}
        if bad:
            res.bad("LUT-2", f.pretty, "entry-scale", "%s: for k = %d message bits and radix 2^%d an entry is written with scale %d (value %s for an entry of 1) where left-aligning it on its "
                    "limbs takes 2^(limbs * base2k - k) = %d: the table is shifted by whole limbs (for k == base2k it leaves the top of the torus and reads as zero)"
                    % (f.pretty, bad["k"], bad["base2k"], bad["scale"], bad["expr"], bad["want"]), site=f.where(), detail=bad)
        elif pts < 300:
            res.undec("LUT-2", "%s: too few judged points (%d, %d unjudged)" % (f.pretty, pts, unj))
        else:
            res.ok("LUT-2", {"fn": f.pretty, "points": pts})
    return n


def run(res, tier):
    res.level = "other"
    res.explanation = ("Only the skip guards of the CGGI accumulator update are decided: an update acc[i] += X^e * u[j] - u[i] whose execution depends on a comparison of the exponent with "
                       "zero has j == i symbolically (on the closure chain of the three execute variants). The modulus switch, the table encoding, the rotation arithmetic and the "
                       "noise are not decided.")
    res.rule("EXT-1", "extended blind rotation: destination polynomial i receives X^(hi + [i < lo]) * source ((i - lo) mod ext), every destination exactly once, for every split pos = hi * ext + lo")
    res.rule("EXT-2", "in-place rotation of an extended lookup table: replaying the per-polynomial rotations and the permutation leaves slot d = X^(hi + [d < lo]) * source ((d - lo) mod ext)")
    res.rule("LUT-2", "table encoding: an entry is scaled by 2^(limbs * base2k - k), 1 when k is a multiple of the radix")
    res.rule("LUT-1", "table encoding: the drift recorded and applied by lookup_table_set is half the width of the replicated runs")
    res.rule("ROT-1", "an accumulator update skipped on `exponent == 0` has identical operand polynomials (X^e * u[j] - u[i] vanishes for e = 0 only when j == i)")
    res.assumptions = ["svp_apply_dft_to_dft(x_pow_a[e], u) multiplies u by X^e; x_pow_a[0] is the constant 1"]
    cfgs = ["avx-dev"] if tier == "quick" else ["avx-dev", "ref-dev"]
    for cfg in cfgs:
        p = facts.load(cfg)
        res.configs.append(p.build_info)
        n = rot1(p, res)
        res.floor("ROT-1", "accumulator updates of the blind rotation", n, 2)
        ne = ext1(p, res)
        res.floor("EXT-1", "groups of interleaved move sites", ne, 2)
        n2 = ext2(p, res)
        res.floor("EXT-2", "in-place rotations of an extended table", n2, 1)
        nl = lut1(p, res)
        res.floor("LUT-1", "table encoders", nl, 1)
        nl2 = lut2(p, res)
        res.floor("LUT-2", "table encoders (entry scale)", nl2, 1)
        res.fn_count += n
