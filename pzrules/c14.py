"""C14 — blind rotation evaluates the lookup table at the encrypted index (thin claim: the skip guards of the accumulator update only).

ROT-1 the CGGI accumulator update adds  X^e * u[J] - u[I]  to accumulator I for every mask coefficient (u = accumulator x key).  An implementation may skip the update when the
      rotation X^e is the identity only if the two operands are the same polynomial (J == I): for the extended accumulator (several interleaved polynomials) the update with
      J != I moves data between polynomials and is not zero for X^e = 1.  Decided on the closure chain: an update whose execution is decided by a comparison of (an expression of)
      the exponent with zero has J and I symbolically equal.
Not decided: the modulus switch of the LWE sample, the table encoding (drift, replication), the rotation arithmetic, noise.
"""
from . import facts
from .cfg import CFG, Flow
from .sym import Sym, Poly
from .c20 import closure_creation, cap_subst_for
from .rad import dominating_cmps, _deep_atoms


def chain_sym(p, f, cache):
    if f.uid in cache:
        return cache[f.uid]
    par = p.fn(f.parent) if f.kind == "Closure" and f.parent else None
    if par is None:
        s = Sym(f, Flow(f))
    else:
        s = Sym(f, Flow(f), cap_subst=cap_subst_for(par, chain_sym(p, par, cache), f.uid))
    cache[f.uid] = s
    return s


def _indexed(f, flow, sym, op):
    """operand `&container[idx]` -> (container expression, index expression) in chain terms"""
    for r in flow.op_roots(op):
        if r[0] == "call":
            t = f.blocks[r[1]]["t"]
            if (f.callee_def(t) or {}).get("n") in ("index", "index_mut") and len(t["a"]) == 2:
                return sym.operand(t["a"][0]), sym.operand(t["a"][1])
    return None


class _Named:
    def __init__(self, s):
        self.s = s

    def __repr__(self):
        return self.s


def rot1(p, res):
    n = 0
    cache = {}
    T = ("deref", "deref_mut", "borrow", "borrow_mut", "as_mut", "as_ref")
    for f in sorted(p.fns.values(), key=lambda x: x.uid):
        if not f.blocks or not f.uid.startswith("poulpy_bin_fhe::blind_rotation"):
            continue
        svp = [(bi, t) for bi, t in f.calls() if (f.callee_def(t) or {}).get("n") == "svp_apply_dft_to_dft" and len(t["a"]) == 7]
        subs = [(bi, t) for bi, t in f.calls() if (f.callee_def(t) or {}).get("n") == "vec_znx_dft_sub_assign" and len(t["a"]) == 5]
        if len(svp) != 1 or len(subs) != 1:
            continue
        n += 1
        sym = chain_sym(p, f, cache)
        flow = Flow(f, transparent=T)
        rot = _indexed(f, flow, sym, svp[0][1]["a"][3])
        u_j = _indexed(f, flow, sym, svp[0][1]["a"][5])
        u_i = _indexed(f, flow, sym, subs[0][1]["a"][3])
        # a single accumulator (no interleaving): operands are not indexed at all
        if u_j is None and u_i is None:
            same = sym.operand(svp[0][1]["a"][5]).key() == sym.operand(subs[0][1]["a"][3]).key()
            if same:
                res.ok("ROT-1", {"fn": f.pretty, "form": "single accumulator: X^e * u - u"})
            else:
                res.undec("ROT-1", "%s: operands of the update not recognised" % f.pretty)
            continue
        if rot is None or u_j is None or u_i is None or u_j[0].key() != u_i[0].key():
            res.undec("ROT-1", "%s: operands of the update not recognised" % f.pretty)
            continue
        e_atoms = _deep_atoms(rot[1])
        # guards on the exponent anywhere up the closure chain
        guarded = None
        g_fn, at_block = f, svp[0][0]
        while g_fn is not None:
            gs = chain_sym(p, g_fn, cache)
            cmps = dominating_cmps(g_fn, CFG(g_fn), Flow(g_fn), gs, at_block)
            for op, x, y in cmps:
                if op != "Ne":
                    continue
                for u, v in ((x, y), (y, x)):
                    # a test of the exponent itself (possibly reduced: `(e) & (2N - 1)`), not of another part of the mask coefficient
                    if v.is_const() and v.const_value() == 0 and (u.key() == rot[1].key() or repr(rot[1]) in repr(u)):
                        guarded = (g_fn, repr(u))
            par = p.fn(g_fn.parent) if g_fn.kind == "Closure" and g_fn.parent else None
            if par is None:
                break
            cc = closure_creation(par, g_fn.uid)
            if cc is None:
                break
            g_fn, at_block = par, cc[0]
        if guarded is None:
            res.ok("ROT-1", {"fn": f.pretty, "form": "update not skipped"})
        elif u_j[1].key() == u_i[1].key():
            res.ok("ROT-1", {"fn": f.pretty, "form": "skipped when `%s` == 0; both operands are polynomial `%r`" % (guarded[1], u_j[1])})
        else:
            def nm(pl):
                at = [a for a in pl.atoms()]
                if len(at) == 1 and at[0][0] == "call" and len(at[0]) > 3:
                    return "%r.%s" % (pl, ".".join(str(x) for x in at[0][3]))
                return repr(pl)
            u_j, u_i = (u_j[0], _Named(nm(u_j[1]))), (u_i[0], _Named(nm(u_i[1])))
            res.bad("ROT-1", f.pretty, "skip-of-a-move",
                    "%s: the update  acc[i] += X^e * u[%r] - u[%r]  is skipped when `%s` == 0 (rotation by the identity), but its two operands are different interleaved "
                    "polynomials: the skipped term u[%r] - u[%r] is not zero - mask coefficients whose per-polynomial rotation is the identity give a wrong accumulator"
                    % (f.pretty, u_j[1], u_i[1], guarded[1], u_j[1], u_i[1]), site=f.where(svp[0][1]["l"]))
    return n


def run(res, tier):
    res.level = "other"
    res.explanation = ("Only the skip guards of the CGGI accumulator update are decided: an update acc[i] += X^e * u[j] - u[i] whose execution depends on a comparison of the exponent with "
                       "zero has j == i symbolically (on the closure chain of the three execute variants). The modulus switch, the table encoding, the rotation arithmetic and the "
                       "noise are not decided.")
    res.rule("ROT-1", "an accumulator update skipped on `exponent == 0` has identical operand polynomials (X^e * u[j] - u[i] vanishes for e = 0 only when j == i)")
    res.assumptions = ["svp_apply_dft_to_dft(x_pow_a[e], u) multiplies u by X^e; x_pow_a[0] is the constant 1"]
    cfgs = ["avx-dev"] if tier == "quick" else ["avx-dev", "ref-dev"]
    for cfg in cfgs:
        p = facts.load(cfg)
        res.configs.append(p.build_info)
        n = rot1(p, res)
        res.floor("ROT-1", "accumulator updates of the blind rotation", n, 4)
        res.fn_count += n
