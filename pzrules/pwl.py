"""Decision of piecewise-linear identities between integer expressions extracted from MIR.

The expressions of the CKKS metadata algebra are built from +, -, min, max, saturating_sub and checked_sub over a handful of
non-negative quantities (log_budget / log_delta / max_k of the operands).  Such an expression is linear on each cell of the
arrangement cut out by the comparisons it contains (coefficients in {-1, 0, 1}); two of them agree everywhere iff they agree
on one interior integer point of every cell and on the cell boundaries.  `Eval` evaluates the *extracted expression* (never the
program) on a box of small integer valuations that contains points of every cell and boundary, and reports the ordering classes
covered so that a caller can fail closed when a class has no admissible (non-error) point.

Unknown atoms (loop minima, opaque calls) are free variables: an identity must hold for all of their values.
"""
import itertools
import random

from .cfg import Flow
from .sym import Sym, Poly

OPTION_TRANSPARENT = ("ok_or_else", "ok_or", "map_err", "unwrap", "expect", "unwrap_or_default", "branch", "from_output", "into", "from", "as_usize", "as_u32", "context")


class ErrPath(Exception):
    """the extracted expression takes its error exit for this valuation (checked_sub underflow)"""


class Eval:
    def __init__(self, p, valuation):
        self.p = p
        self.val = valuation  # canonical atom -> int (filled lazily through `fresh`)
        self.syms = {}
        self.free = []

    def sym_of(self, fn, subst=None):
        if subst is None and fn.uid in self.syms:
            return self.syms[fn.uid]
        s = Sym(fn, Flow(fn), param_subst=subst or {})
        self.syms[fn.uid] = s
        return s

    def free_var(self, a):
        k = repr(a)
        if k not in self.val:
            self.val[k] = self.val["__fresh__"](k)
        return self.val[k]

    def poly(self, pl):
        tot = 0
        for mono, c in pl.t.items():
            v = c
            for a in mono:
                v *= self.atom(a)
            tot += v
        return tot

    def key(self, k):
        return self.poly(Poly(dict(k)))

    def atom(self, a):
        kind = a[0]
        if kind in ("f", "call", "cp"):
            k0 = repr(a)
            if k0 in self.val:            # a caller fixed the value of this sub-expression
                return self.val[k0]
        if kind == "f":
            name, args = a[1], a[2]
            if name in ("min", "max") and len(args) == 2:
                x, y = self.key(args[0]), self.key(args[1])
                return min(x, y) if name == "min" else max(x, y)
            if name in ("Shr", "Shl", "ShrUnchecked", "ShlUnchecked") and len(args) == 2:
                x, y = self.key(args[0]), self.key(args[1])
                if x < 0 or y < 0 or y > 62:
                    raise ErrPath()
                return x >> y if name.startswith("Shr") else x << y
            if name == "abs_diff" and len(args) == 2:
                return abs(self.key(args[0]) - self.key(args[1]))
            if name == "saturating_sub" and len(args) == 2:
                return max(self.key(args[0]) - self.key(args[1]), 0)
            if name == "div_ceil" and len(args) == 2:
                x, y = self.key(args[0]), self.key(args[1])
                if y <= 0 or x < 0:
                    raise ErrPath()
                return -(-x // y)
            if name in ("Lt", "Le", "Gt", "Ge", "Eq", "Ne") and len(args) == 2:
                x, y = self.key(args[0]), self.key(args[1])
                return int({"Lt": x < y, "Le": x <= y, "Gt": x > y, "Ge": x >= y, "Eq": x == y, "Ne": x != y}[name])
            if name == "is_multiple_of" and len(args) == 2:
                x, m = self.key(args[0]), self.key(args[1])
                if x < 0 or m < 0:
                    raise ErrPath()
                return int(x == 0 if m == 0 else x % m == 0)
            if name == "Not" and len(args) == 1:
                x = self.key(args[0])
                if x not in (0, 1):
                    raise ErrPath()
                return 1 - x
            if name == "BitAnd" and len(args) == 2:
                x, y = self.key(args[0]), self.key(args[1])
                if x < 0 or y < 0:
                    raise ErrPath()
                return x & y
            if name in ("Div", "Rem") and len(args) == 2:
                x, y = self.key(args[0]), self.key(args[1])
                if y <= 0 or x < 0:
                    raise ErrPath()
                return x // y if name == "Div" else x % y
            if name == "effective_k" and len(args) == 1:
                # CKKSInfos::effective_k is a provided method: log_delta + log_budget (checked by the caller of this module)
                return self.atom(("f", "log_delta", args)) + self.atom(("f", "log_budget", args))
            return self.free_var(a)
        if kind == "call":
            fn = self.p.fns.get(a[1])
            if fn is None:
                return self.free_var(a)
            t = fn.blocks[a[2]]["t"]
            d = fn.callee_def(t) or {}
            nm = d.get("n", "")
            sym = self.sym_of(fn)
            if len(a) > 3 and a[3] != ("0",):
                # anything but the payload of the success variant (Ok / Some / Continue)
                return self.free_var(a)
            if nm == "checked_sub" and len(t["a"]) == 2:
                x, y = self.poly(sym.operand(t["a"][0])), self.poly(sym.operand(t["a"][1]))
                if x < y:
                    raise ErrPath()
                return x - y
            if nm == "clamp" and len(t["a"]) == 3:
                x, lo, hi = (self.poly(sym.operand(o)) for o in t["a"])
                if lo > hi:
                    raise ErrPath()
                return min(max(x, lo), hi)
            if nm == "next_multiple_of" and len(t["a"]) == 2:
                x, m = self.poly(sym.operand(t["a"][0])), self.poly(sym.operand(t["a"][1]))
                if m <= 0:
                    raise ErrPath()
                return -(-x // m) * m
            if nm == "abs_diff" and len(t["a"]) == 2:
                return abs(self.poly(sym.operand(t["a"][0])) - self.poly(sym.operand(t["a"][1])))
            if nm == "is_multiple_of" and len(t["a"]) == 2:
                x, m = self.poly(sym.operand(t["a"][0])), self.poly(sym.operand(t["a"][1]))
                if x < 0 or m < 0:
                    raise ErrPath()
                return int(x == 0 if m == 0 else x % m == 0)
            if nm in OPTION_TRANSPARENT and t["a"]:
                return self.poly(sym.operand(t["a"][0]))
            tg = [u for u in self.p.targets(fn, t) if u in self.p.fns and self.p.fns[u].blocks and u.startswith("poulpy_ckks::")]
            if len(tg) == 1:
                callee = self.p.fns[tg[0]]
                subst = {}
                for i, arg in enumerate(t["a"]):
                    subst[(i + 1, ())] = sym.operand(arg)
                saved = self.syms.get(callee.uid)
                cs = self.sym_of(callee, subst)
                try:
                    return self.poly(cs.local(0))
                finally:
                    if saved is not None:
                        self.syms[callee.uid] = saved
                    else:
                        self.syms.pop(callee.uid, None)
            return self.free_var(a)
        return self.free_var(a)


def valuations(seed=12345, count=6000, hi=24):
    """small non-negative integer valuations; every free atom gets an independent value"""
    rnd = random.Random(seed)
    for i in range(count):
        r = random.Random(rnd.random())
        span = (3, 6, hi)[i % 3]
        yield {"__fresh__": (lambda k, r=r, span=span: r.randint(0, span))}
