"""Human-readable dump of a body's MIR-lite (development aid, also used by `pzv explain`)."""


def fmt_place(fn, p):
    s = "_%d" % p[0]
    n = fn.local_name(p[0])
    if n:
        s += "{%s}" % n
    for x in p[1:]:
        if x == "*":
            s = "(*%s)" % s
        elif isinstance(x, list):
            if x[0] == "f":
                s += ".%s" % x[2]
            elif x[0] == "i":
                s += "[_%d]" % x[1]
            elif x[0] == "ci":
                s += "[#%d%s]" % (x[1], "^" if x[2] else "")
            elif x[0] == "sub":
                s += "[%d..%d%s]" % (x[1], x[2], "^" if x[3] else "")
            elif x[0] == "dc":
                s = "(%s as %s)" % (s, x[2])
        else:
            s += "<%s>" % x
    return s


def fmt_op(fn, op):
    if op[0] in ("c", "m"):
        return ("move " if op[0] == "m" else "") + fmt_place(fn, op[1])
    if op[0] == "k":
        c = op[1]
        if "fn" in c:
            return "fn:" + fn.d(c["fn"]["d"])["p"]
        if "v" in c:
            return "const %s" % c["v"]
        if "static" in c:
            return "static:" + fn.duid(c["static"])
        return "const<%s>" % c.get("s", "?")[:60]
    return str(op)


def fmt_rv(fn, rv):
    k = rv["k"]
    if k == "Use":
        return fmt_op(fn, rv["o"][0])
    if k == "Ref":
        return ("&mut " if rv["m"] else "&") + fmt_place(fn, rv["p"])
    if k == "RawPtr":
        return ("&raw mut " if rv["m"] else "&raw const ") + fmt_place(fn, rv["p"])
    if k == "Cast":
        return "%s as %s (%s)" % (fmt_op(fn, rv["o"][0]), fn.tys(rv["ty"]), rv["ck"])
    if k == "Bin":
        return "%s(%s, %s)" % (rv["op"], fmt_op(fn, rv["o"][0]), fmt_op(fn, rv["o"][1]))
    if k == "Un":
        return "%s(%s)" % (rv["op"], fmt_op(fn, rv["o"][0]))
    if k == "Disc":
        return "discriminant(%s)" % fmt_place(fn, rv["p"])
    if k == "Agg":
        ak = rv["ak"]
        head = ak
        if ak == "Adt":
            head = fn.d(rv["adt"])["p"] + "::" + rv["variant"]
        elif ak == "Closure":
            head = "closure:" + fn.duid(rv["clos"])
        return "%s{%s}" % (head, ", ".join(fmt_op(fn, o) for o in rv["o"]))
    if k == "Repeat":
        return "[%s; %s]" % (fmt_op(fn, rv["o"][0]), rv["n"])
    return "%s %s" % (k, rv.get("s", ""))


def fmt_term(fn, t):
    if t is None:
        return "<none>"
    k = t["k"]
    if k == "Call":
        if "f" in t:
            f = t["f"]
            name = fn.d(f["d"])["p"]
            if "r" in f:
                name += "  => " + fn.duid(f["r"])
            ta = ",".join(fn.tys(x) if isinstance(x, int) else str(x) for x in f["ta"])
            name += "  <%s>" % ta
        else:
            name = "indirect " + fmt_op(fn, t["fo"])
        return "%s = call %s(%s) -> bb%s  [l%s]" % (
            fmt_place(fn, t["d"]), name, ", ".join(fmt_op(fn, a) for a in t["a"]), t["t"], t["l"])
    if k == "Switch":
        return "switch %s %s else bb%s [l%s]" % (fmt_op(fn, t["o"]), ["%s->bb%s" % (v, b) for v, b in t["ts"]], t["else"], t["l"])
    if k == "Assert":
        return "assert(%s == %s, %s) -> bb%s [l%s]" % (fmt_op(fn, t["o"]), t["exp"], t["msg"], t["t"], t["l"])
    if k == "Goto":
        return "goto bb%s" % t["t"]
    if k == "Drop":
        return "drop(%s) -> bb%s" % (fmt_place(fn, t["p"]), t["t"])
    return k


def dump_fn(fn, out=print):
    out("fn %s" % fn.uid)
    out("   %s  (%s)  argc=%d  vis=%s unsafe=%s tf=%s" % (fn.pretty, fn.where(), fn.argc, fn.vis, fn.unsafe, fn.tf))
    for i, l in enumerate(fn.raw["locals"]):
        n = fn.local_name(i)
        out("   let _%d%s: %s" % (i, "{%s}" % n if n else "", fn.tys(l)))
    for bi, b in enumerate(fn.blocks):
        out(" bb%d%s:" % (bi, " (cleanup)" if b["c"] else ""))
        for s in b["s"]:
            if s[0] == "A":
                out("    %s = %s   [l%s]" % (fmt_place(fn, s[1]), fmt_rv(fn, s[2]), s[3]))
            elif s[0] == "SD":
                out("    discriminant(%s) = %s" % (fmt_place(fn, s[1]), s[2]))
            elif s[0] == "CNO":
                out("    copy_nonoverlapping(%s -> %s, %s)" % (fmt_op(fn, s[1]), fmt_op(fn, s[2]), fmt_op(fn, s[3])))
        out("    %s" % fmt_term(fn, b["t"]))
    for i, p in enumerate(fn.promoted):
        out(" promoted[%d]:" % i)
        for s in p:
            out("    %s = %s" % (fmt_place(fn, s[1]), fmt_rv(fn, s[2])))
