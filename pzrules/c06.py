"""C06 — fresh ciphertexts carry the configured randomness (call discipline; statistics not decided).

RND-1 must-inject: every routine that draws a mask / error stream injects noise on every returning path
RND-2 stream roles: mask streams feed masks only; documented parameter names get their role; NoiseInfos and radix origins
RND-3 no loop-invariant Source::new inside a loop
RND-4 no other entropy source
RND-5 HashMap iteration order neutralised
RND-6 noise radix = ciphertext radix in the kernels
"""
from collections import defaultdict

from . import facts
from .cfg import CFG, Flow
from .sym import Sym

TRANSPARENT = ("deref", "deref_mut", "borrow", "borrow_mut", "as_mut", "as_ref", "into", "from", "clone", "by_ref")
NOISE_SINKS = ("poulpy_hal::api::vec_znx::VecZnxAddNormal::vec_znx_add_normal", "poulpy_hal::api::vec_znx_big::VecZnxBigAddNormal::vec_znx_big_add_normal",
               "poulpy_hal::api::vec_znx::VecZnxFillNormal::vec_znx_fill_normal")
MASK_SINKS = ("poulpy_hal::api::vec_znx::VecZnxFillUniform::vec_znx_fill_uniform",)
SECRET_SINK_NAMES = ("fill_ternary_hw", "fill_ternary_prob", "fill_binary_hw", "fill_binary_prob", "fill_binary_block")
NAME_ROLE = {"source_xe": "error", "source_xa": "mask", "seed_xa": "mask", "source_xu": "secret"}
ENTROPY = ("rand::rng", "rand::random", "rand::thread_rng", "rand::rngs::thread::", "rand::rngs::OsRng", "rand::rngs::SysRng", "getrandom::", "std::time::SystemTime::now",
           "std::time::Instant::now", "std::hash::RandomState::new", "std::collections::hash_map::RandomState::new", "rand::make_rng", "rand_core::os::", "std::process::id", "std::thread::current")


def is_source_ty(s):
    return "source::Source" in s


def is_seed_ty(s):
    return s.replace("&", "").replace("mut ", "").strip() == "[u8; 32]"


class RoleEngine:
    def __init__(self, p):
        self.p = p
        self.fns = {}
        for f in p.lib_fns():
            if not f.uid.startswith("poulpy_"):
                continue
            tys = [f.local_ty(l)["s"] for l in range(len(f.raw["locals"]))]
            if any(is_source_ty(s) or is_seed_ty(s) for s in tys):
                self.fns[f.uid] = f
        self.flow = {}
        self.roles = defaultdict(lambda: defaultdict(set))  # fn uid -> origin -> roles
        self.sites = defaultdict(list)  # fn uid -> list of (origins, kind, data)
        self.derive = defaultdict(list)  # fn uid -> list of (derived origin, parent origins)
        self.sink_sites = []  # (fn, bb, role)
        self._prepare()

    def origins(self, f, flow, op):
        out = set()
        for r in flow.op_roots(op):
            if r[0] == "param":
                if f.kind == "Closure" and r[1] == 1:
                    if r[2]:
                        out.add(("cap", r[2][0]))
                else:
                    out.add(("param", r[1]))
            elif r[0] == "call":
                t = f.blocks[r[1]]["t"]
                d = f.callee_def(t) or {}
                n = d.get("n")
                if d.get("u", "").startswith("poulpy_hal::source::") and n in ("new", "branch", "new_seed"):
                    out.add((n, r[1]))
                else:
                    out.add(("callres", r[1]))
            elif r[0] == "const":
                out.add(("const", r[2][:40] if isinstance(r[2], str) else str(r[2])))
            elif r[0] == "agg":
                out.add(("agg", r[1], r[2]))
        return out

    def _prepare(self):
        p = self.p
        for uid, f in self.fns.items():
            flow = Flow(f, transparent=TRANSPARENT)
            self.flow[uid] = flow
            for bi, t in f.calls():
                d = f.callee_def(t)
                if not d:
                    continue
                cu = d["u"]
                n = d.get("n", "")
                # derivations
                if cu.startswith("poulpy_hal::source::") and n in ("new", "branch", "new_seed") and t["a"]:
                    self.derive[uid].append(((n, bi), self.origins(f, flow, t["a"][0])))
                    continue
                for ai, a in enumerate(t["a"]):
                    if a[0] not in ("c", "m"):
                        if a[0] == "k":
                            continue
                    if a[0] in ("c", "m"):
                        ts = f.local_ty(a[1][0])["s"]
                        if not (is_source_ty(ts) or is_seed_ty(ts)):
                            continue
                    og = self.origins(f, flow, a)
                    if not og:
                        continue
                    role = None
                    if cu in NOISE_SINKS:
                        role = "error"
                    elif cu in MASK_SINKS:
                        role = "mask"
                    elif n in SECRET_SINK_NAMES and cu.startswith("poulpy_hal::layouts::scalar_znx"):
                        role = "secret"
                    if role:
                        self.sites[uid].append((og, "sink", role, bi))
                        self.sink_sites.append((f, bi, role, og))
                    else:
                        tg = [x for x in p.targets(f, t) if x in self.fns]
                        if tg:
                            self.sites[uid].append((og, "call", (tg, ai + 1), bi))
            # closures created here: captures
            for bi, blk in enumerate(f.blocks):
                if blk["c"]:
                    continue
                for s in blk["s"]:
                    if s[0] == "A" and s[2]["k"] == "Agg" and s[2].get("ak") == "Closure":
                        cu = f.duid(s[2]["clos"])
                        if cu in self.fns:
                            for k, o in enumerate(s[2]["o"]):
                                og = self.origins(f, flow, o)
                                if og:
                                    self.sites[uid].append((og, "closure", (cu, str(k)), bi))

    def solve(self):
        changed = True
        rounds = 0
        while changed and rounds < 60:
            changed = False
            rounds += 1
            for uid in self.fns:
                R = self.roles[uid]
                for og, kind, data, bi in self.sites[uid]:
                    if kind == "sink":
                        new = {data}
                    elif kind == "call":
                        tg, pi = data
                        new = set()
                        for t in tg:
                            new |= self.roles[t].get(("param", pi), set())
                    else:
                        cu, k = data
                        new = set(self.roles[cu].get(("cap", k), set()))
                    for o in og:
                        if not new <= R[o]:
                            R[o] |= new
                            changed = True
                for der, parents in self.derive[uid]:
                    new = R.get(der, set())
                    for o in parents:
                        if not new <= R[o]:
                            R[o] |= new
                            changed = True
        return rounds


def noise_injecting(p, eng):
    """fixpoint: set of function uids that call a noise sink (or an injecting callee/closure) on every returning path"""
    inj = set()
    cfgs = {}
    cand = {}
    for f in p.lib_fns():
        if not f.uid.startswith("poulpy_"):
            continue
        cand[f.uid] = f
    changed = True
    info = {}
    while changed:
        changed = False
        for uid, f in cand.items():
            if uid in inj:
                continue
            g = cfgs.get(uid)
            if g is None:
                g = cfgs[uid] = CFG(f)
            if not g.returns:
                continue
            pd = g.pdom(True)
            must = pd.get(0, frozenset())
            for bi in must:
                if bi < 0:
                    continue
                t = f.blocks[bi]["t"]
                if not t or t["k"] != "Call":
                    continue
                d = f.callee_def(t)
                if not d:
                    continue
                ok = False
                if d["u"] in NOISE_SINKS:
                    ok = True
                else:
                    tg = p.targets(f, t)
                    tg = [x for x in tg if x in cand]
                    if tg and all(x in inj for x in tg):
                        ok = True
                    for cu in f.callee_closures(t):
                        if cu in inj:
                            ok = True
                if ok:
                    inj.add(uid)
                    info[uid] = bi
                    changed = True
                    break
    return inj, info, cfgs


ACCESSORS = ("at_mut", "at", "raw_mut", "raw", "index_mut", "index", "deref_mut", "deref", "as_mut", "as_ref", "data_mut", "data", "to_mut", "iter_mut", "get_mut",
             "get_unchecked_mut", "borrow_mut", "as_mut_ptr", "as_mut_slice", "limb_u64_mut", "split_at_mut", "into", "from", "clone", "by_ref")
OVERWRITE_OPS = {"vec_znx_zero", "vec_znx_normalize", "vec_znx_add_into", "vec_znx_add_scalar_into", "vec_znx_sub", "vec_znx_sub_scalar", "vec_znx_negate", "vec_znx_rsh",
                 "vec_znx_lsh", "vec_znx_rotate", "vec_znx_automorphism", "vec_znx_mul_xp_minus_one", "vec_znx_switch_ring", "vec_znx_copy", "vec_znx_fill_uniform",
                 "vec_znx_fill_normal", "vec_znx_big_from_small", "vec_znx_big_add_into", "vec_znx_big_add_small_into", "vec_znx_big_sub", "vec_znx_big_sub_small_a",
                 "vec_znx_big_sub_small_b", "vec_znx_big_negate", "vec_znx_big_normalize", "vec_znx_big_automorphism", "vec_znx_idft_apply", "vec_znx_idft_apply_tmpa",
                 "vec_znx_dft_apply", "vec_znx_dft_add_into", "vec_znx_dft_sub", "vec_znx_dft_copy", "vec_znx_dft_zero"}
PLAIN_FILL = {"zero", "fill", "copy_from_slice", "clone_from_slice", "fill_with", "zero_at"}


def overwrites_of(p, f, target_is, start_blocks, depth=0):
    """plain overwrites of a buffer inside body f.  target_is(roots) decides whether a root set denotes the buffer.
    start_blocks: only blocks reachable from these (None = whole body).  Returns list of (fn, line, what)."""
    out = []
    if depth > 3:
        return out
    g = CFG(f)
    flow = Flow(f, transparent=ACCESSORS)
    if start_blocks is None:
        region = set(g.reach)
    else:
        region = set()
        st = []
        for b in start_blocks:
            st.extend(g.succ[b])
        while st:
            x = st.pop()
            if x in region:
                continue
            region.add(x)
            st.extend(g.succ[x])
    for bi in sorted(region):
        blk = f.blocks[bi]
        for si, s in enumerate(blk["s"]):
            if s[0] == "CNO":
                if s[2][0] in ("c", "m") and target_is(flow.op_roots(s[2])):
                    out.append((f, s[4], "copy_nonoverlapping into the noise buffer"))
                continue
            if s[0] != "A":
                continue
            pl, rv = s[1], s[2]
            if "*" in pl[1:] and len(pl) >= 2:
                if target_is(flow.roots(pl[0])):
                    # read-modify-write?
                    rmw = False
                    if rv["k"] == "Use":
                        for r in flow.op_roots(rv["o"][0]):
                            if r[0] == "bin":
                                st2 = f.blocks[r[1]]["s"][r[2]][2]
                                for o in st2["o"]:
                                    if o[0] in ("c", "m") and "*" in o[1][1:] and target_is(flow.roots(o[1][0])):
                                        rmw = True
                    elif rv["k"] == "Bin":
                        for o in rv["o"]:
                            if o[0] in ("c", "m") and "*" in o[1][1:] and target_is(flow.roots(o[1][0])):
                                rmw = True
                    if not rmw:
                        out.append((f, s[3], "plain store into the noise buffer"))
            if rv["k"] == "Agg" and rv.get("ak") == "Closure":
                cu = f.duid(rv["clos"])
                cf = p.fn(cu)
                if cf is None:
                    continue
                for k, o in enumerate(rv["o"]):
                    if o[0] in ("c", "m") and target_is(flow.op_roots(o)):
                        ks = str(k)
                        out += overwrites_of(p, cf, lambda rr, ks=ks: any(r[0] == "param" and r[1] == 1 and r[2][:1] == (ks,) for r in rr), None, depth + 1)
        t = blk["t"]
        if t and t["k"] == "Call":
            d = f.callee_def(t) or {}
            n = d.get("n", "")
            if n in PLAIN_FILL and t["a"] and target_is(flow.op_roots(t["a"][0])):
                out.append((f, t["l"], "%s() on the noise buffer" % n))
            if n in OVERWRITE_OPS and len(t["a"]) > 1 and target_is(flow.op_roots(t["a"][1])):
                out.append((f, t["l"], "%s overwrites the noise buffer" % n))
    return out


def rnd7(p, res, eng, kernels):
    for ku in kernels:
        f = p.fn(ku)
        flow = Flow(f, transparent=ACCESSORS)
        n_sites = 0
        for ff, bi, role, og in eng.sink_sites:
            if ff.uid != ku or role != "error":
                continue
            n_sites += 1
            t = f.blocks[bi]["t"]
            buf_roots = {r for r in flow.op_roots(t["a"][2]) if r[0] in ("call", "param")}
            keys = {(r[0], r[1]) for r in buf_roots}
            if not keys:
                res.undec("RND-7", "%s: noise buffer origin not resolved" % f.pretty)
                continue
            ow = overwrites_of(p, f, lambda rr, keys=keys: any((r[0], r[1]) in keys for r in rr), [bi])
            # the consuming normalisation of the very buffer as *input* is not an overwrite; vec_znx_normalize(res <- buf) has buf as operand 5
            if ow:
                g, line, what = ow[0]
                res.bad("RND-7", f.pretty, "noise-overwritten", "%s: %s after the error was added to it (%d site(s)): the injected noise is discarded for the affected limbs" % (f.pretty, what, len(ow)),
                        site=g.where(line))
            else:
                res.ok("RND-7", {"kernel": f.pretty, "noise_site": f.where(t["l"]), "later_overwrites": 0})
        if n_sites == 0:
            res.bad("RND-7", f.pretty, "anchor-lost:noise-site", "no noise site found in kernel")


WHOLE_IT = ("iter_mut", "chunks_mut", "fill", "copy_from_slice", "clone_from_slice")
PART_IT = ("chunks_exact_mut", "chunks_exact", "as_chunks_mut", "rchunks_exact_mut", "array_chunks_mut")
DROP_IT = ("skip", "take", "step_by", "skip_while", "take_while", "filter", "zip")


def rnd10(p, res):
    """sampling kernels over a coefficient slice (`fn(.., res: &mut [i64], .., source: &mut Source)`): every returning path hands the whole slice to a traversal that visits
    each element - `iter_mut` not narrowed by skip / take / step_by / zip, or a fixed-width chunk traversal whose remainder is consumed as well.  A path that ends after a
    fixed-width traversal alone leaves the last `len % width` coefficients of the mask (or of the error) at whatever the buffer held."""
    from . import sc
    n = 0
    for f in sorted(p.lib_fns(), key=lambda x: x.uid):
        if f.kind == "Closure" or f.is_test() or not f.uid.startswith(("poulpy_cpu_ref::reference", "poulpy_cpu_avx")):
            continue
        pn = f.param_names()
        tys = {l: f.local_ty(l)["s"] for l in pn}
        dst = [l for l in pn if tys[l] == "&mut [i64]"]
        if len(dst) != 1 or not any(t.endswith("source::Source") for t in tys.values()):
            continue
        n += 1
        g = CFG(f)
        paths = sc.returning_paths(f, g, cap=128)
        if not paths:
            res.undec("RND-10", "%s: paths not enumerable" % f.pretty)
            continue
        flow = Flow(f)

        def kind_of(bi):
            """whole | part:<width> | narrowed | None for the call at block bi when its receiver is the destination slice"""
            t = f.blocks[bi]["t"]
            nm = (f.callee_def(t) or {}).get("n", "")
            if not t["a"] or nm not in WHOLE_IT + PART_IT:
                return None
            if not any(r[0] == "param" and r[1] == dst[0] and not r[2] for r in flow.op_roots(t["a"][0])):
                return None
            if nm in WHOLE_IT:
                return "whole"
            w = t["a"][1] if len(t["a"]) > 1 else None
            if w is not None and w[0] == "k" and w[1].get("v") == 1:
                return "whole"
            return "part"

        def narrowed(bi):
            """the traversal started at bi flows through an adaptor that drops elements"""
            for bj, t in f.calls():
                if (f.callee_def(t) or {}).get("n") in DROP_IT and t["a"] and any(r == ("call", bi, ()) for r in flow.op_roots(t["a"][0])):
                    return (f.callee_def(t) or {}).get("n")
            return None

        bad = None
        for path in paths:
            whole = part = rem = False
            why = "returns without traversing `%s`" % pn[dst[0]]
            for b in path:
                t = f.blocks[b]["t"]
                if not t or t["k"] != "Call":
                    continue
                nm = (f.callee_def(t) or {}).get("n", "")
                if nm in ("into_remainder", "remainder"):
                    rem = True
                k = kind_of(b)
                if k == "whole":
                    d = narrowed(b)
                    if d:
                        why = "traverses `%s` through `%s`, which drops elements" % (pn[dst[0]], d)
                    else:
                        whole = True
                elif k == "part":
                    part = True
                    why = "traverses `%s` in fixed-width chunks and never touches the remainder" % pn[dst[0]]
            if not (whole or (part and rem)):
                bad = why
                break
        if bad:
            res.bad("RND-10", f.pretty, "slice-not-covered", "%s %s on a returning path: the coefficients left out keep the previous content of the buffer instead of a fresh sample" % (f.pretty, bad), site=f.where())
        else:
            res.ok("RND-10", {"kernel": f.pretty, "paths": len(paths)})
    return n



def rnd8(p, res):
    """fixed-Hamming-weight samplers (`fill_*_hw`): the first `hw` slots are set before the shuffle and must all be non-zero, otherwise the weight of the secret / of the
    public-key ephemeral is a random variable (a binary sampler that stores `next_u32() & 1` has weight Binomial(hw, 1/2), weight 0 with probability 2^-hw)"""
    from .sym import Poly
    n = 0
    for f in sorted(p.lib_fns(), key=lambda x: x.uid):
        if f.kind == "Closure" or not f.uid.startswith("poulpy_hal::layouts::scalar_znx") or not (f.name.startswith("fill_") and f.name.endswith("_hw")):
            continue
        n += 1
        verdict = None
        detail = None
        # (a) slots set by a closure `|x| *x = expr`
        for cl in p.closures_of(f):
            sym = Sym(cl, Flow(cl))
            for blk in cl.blocks:
                for st in blk["s"]:
                    if st[0] == "A" and len(st[1]) == 2 and st[1][1] == "*" and 1 < st[1][0] <= cl.argc and st[2]["k"] in ("Use", "Cast"):
                        v = sym.operand(st[2]["o"][0])
                        bits = [a for a in v.atoms() if a[0] == "f" and a[1] == "BitAnd"]
                        others = [a for a in v.atoms() if a not in bits]
                        if others or len(bits) > 1:
                            continue
                        zero_for = []
                        for b in (0, 1):
                            tot = 0
                            for mono, c in v.t.items():
                                val = c
                                for a in mono:
                                    val *= b
                                tot += val
                            if tot == 0:
                                zero_for.append(b)
                        verdict = not zero_for
                        detail = "slot value = %r with the random bit in {0, 1}: zero for bit = %s" % (v, zero_for)
        # (b) slots set by `fill(c)` on a prefix slice
        if verdict is None:
            sym = Sym(f, Flow(f))
            for bi, t in f.calls():
                if (f.callee_def(t) or {}).get("n") == "fill" and len(t["a"]) == 2:
                    c = sym.operand(t["a"][1])
                    if c.is_const() and c.const_value() not in (None, 0):
                        verdict = True
                        detail = "slots filled with the constant %s" % c.const_value()
        if verdict is None:
            res.undec("RND-8", "%s: slot initialisation not recognised" % f.pretty)
        elif verdict:
            res.ok("RND-8", {"fn": f.pretty, "slots": detail})
        else:
            res.bad("RND-8", f.pretty, "weight-slot-may-be-zero",
                    "%s documents a fixed Hamming weight but %s - the sampled weight is random (for hw = 1 the result is all-zero half of the time: a public-key encryption whose "
                    "ephemeral secret is zero is the bare error)" % (f.pretty, detail), site=f.where())
    return n


def rnd9(p, res):
    """the Gaussian samplers scale sigma and the truncation bound alike: the standard deviation handed to `Normal::new` (or to a sampler's `sigma` parameter) and the bound of
    the rejection loop (or the `bound` parameter) carry the same scale factor - the value `NoiseInfos::target_limb_and_scale` returns for a noise position inside a limb"""
    from .c20 import cap_subst_for
    from .sym import Poly
    n = 0

    def scale_atoms(pl, depth=0):
        out = set()
        for a in pl.atoms():
            if a[0] == "call":
                out.add(a[:3])
            elif a[0] == "f" and depth < 4:
                for k in a[2]:
                    try:
                        out |= scale_atoms(Poly(dict(k)), depth + 1)
                    except (TypeError, ValueError):
                        pass
        return out
    for f in sorted(p.lib_fns(), key=lambda x: x.uid):
        if f.kind == "Closure" or not f.uid.startswith(("poulpy_cpu_ref", "poulpy_cpu_avx", "poulpy_hal", "poulpy_core")) or not f.blocks:
            continue
        sym = None
        # (a) Normal::new(mean, sigma) + rejection comparison in a closure of the same function
        news = [(bi, t) for bi, t in f.calls() if (f.callee_def(t) or {}).get("n") == "new" and "Normal" in (f.callee_def(t) or {}).get("p", "") and len(t["a"]) == 2]
        if news:
            sym = Sym(f, Flow(f))
            sig = sym.operand(news[0][1]["a"][1])
            bounds = []
            for cl in p.closures_of(f):
                cs = Sym(cl, Flow(cl), cap_subst=cap_subst_for(f, sym, cl.uid))
                for blk in cl.blocks:
                    for st in blk["s"]:
                        if st[0] == "A" and st[2]["k"] == "Bin" and st[2]["op"] in ("Gt", "Ge", "Lt", "Le"):
                            x, y = cs.operand(st[2]["o"][0]), cs.operand(st[2]["o"][1])
                            for u, v in ((x, y), (y, x)):
                                if any(a[0] == "f" and a[1] == "abs" for a in u.atoms()):
                                    bounds.append(v)
            for b in bounds:
                n += 1
                if scale_atoms(sig) == scale_atoms(b):
                    res.ok("RND-9", {"fn": f.pretty, "sigma": repr(sig), "bound": repr(b)})
                else:
                    res.bad("RND-9", f.pretty, "sigma-bound-scaled-differently",
                            "%s samples with standard deviation `%r` and truncates at `%r`: one of the two lost the scale factor of the noise position - for a position that is not a "
                            "multiple of the radix the error has another standard deviation than configured" % (f.pretty, sig, b), site=f.where(news[0][1]["l"]))
        # (b) call sites of samplers with `sigma` and `bound` parameters
        for bi, t in f.calls():
            d = f.callee_def(t) or {}
            tg = [p.fn(u) for u in p.targets(f, t) if p.fn(u) is not None]
            if not tg:
                continue
            pn = {v: k for k, v in tg[0].param_names().items()}
            if "sigma" not in pn or "bound" not in pn or pn["sigma"] - 1 >= len(t["a"]) or pn["bound"] - 1 >= len(t["a"]):
                continue
            if sym is None:
                sym = Sym(f, Flow(f))
            sig, b = sym.operand(t["a"][pn["sigma"] - 1]), sym.operand(t["a"][pn["bound"] - 1])
            n += 1
            if scale_atoms(sig) == scale_atoms(b):
                res.ok("RND-9")
            else:
                res.bad("RND-9", f.pretty, "sigma-bound-scaled-differently:%s" % tg[0].name,
                        "%s calls %s with sigma `%r` and bound `%r`: one of the two lost the scale factor of the noise position" % (f.pretty, tg[0].name, sig, b), site=f.where(t["l"]))
    return n


def run(res, tier):
    res.level = "other"
    res.explanation = ("Call discipline behind C06, decided on MIR with an interprocedural role inference over `&mut Source` / seed values: every routine whose streams reach a mask or "
                       "noise sink injects noise on every returning path (do-while abstraction of row/column loops); mask streams feed masks only; parameters carrying the documented "
                       "names source_xe / source_xa / seed_xa / source_xu get exactly that role; the NoiseInfos and radix handed to the sinks come from the caller's enc_infos / "
                       "ciphertext radix; no constant or loop-invariant seeds; no other entropy; map iteration order neutralised. The statistical clauses (sigma, uniformity) are not decided.")
    res.rule("RND-1", "every function with a Source/seed parameter of role mask or error calls a noise sink (or a noise-injecting callee/closure) on every returning path; result-writing normalisations inside kernels are dominated by a noise sink in the same loop")
    res.rule("RND-2", "(a) mask role exclusive; (b) named parameters have their documented role; (c) NoiseInfos originates from enc_infos.noise_infos(); (d) no constant seeds; (e) sink radix is the ciphertext radix")
    res.rule("RND-3", "no Source::new with a loop-invariant seed inside a loop or a per-row closure")
    res.rule("RND-4", "no entropy source other than Source in library code")
    res.rule("RND-6", "in every noise kernel the radix handed to the noise sink, the mask sink and the result normalisation is one and the same value")
    res.rule("RND-7", "after the noise sink has added the error to a buffer, nothing plainly overwrites that buffer (store that is not read-modify-write, zero/fill/copy, overwrite-type HAL op, including inside later closures) before it is consumed")
    res.rule("RND-8", "fixed-Hamming-weight samplers set each of their hw slots to a value that is non-zero for every value of the random bit")
    res.rule("RND-10", "sampling kernels over a coefficient slice traverse the whole slice on every returning path (no narrowed iterator, fixed-width chunks only with their remainder)")
    res.rule("WR-1", "the limb-level sampling functions (`*sampling.rs`) that overwrite a column write every limb of it (limb coverage of C11, restricted to the samplers)")
    res.rule("RND-9", "sigma and truncation bound of every Gaussian sampling site carry the same scale factor")
    res.rule("RND-5", "HashMap iteration flows into an order-insensitive consumer or is sorted before use")
    res.assumptions = ["noise/mask sink implementations (sampling kernels) are as documented (C01/C10 territory)", "do-while abstraction: an encryption over zero rows/columns writes no cell"]
    cfgs = ["avx-dev"] if tier == "quick" else ["avx-dev", "ref-dev", "avx-nodbg"]
    for cfg in cfgs:
        p = facts.load(cfg)
        res.configs.append(p.build_info)
        eng = RoleEngine(p)
        rounds = eng.solve()
        res.extra["role_fixpoint_rounds"] = rounds
        res.fn_count += len(eng.fns)
        inj, inj_info, cfgs_cache = noise_injecting(p, eng)
        n9 = rnd9(p, res)
        res.floor("RND-9", "Gaussian sampling sites (sigma, bound)", n9, 4)
        n8 = rnd8(p, res)
        res.floor("RND-8", "fixed-weight samplers", n8, 2)
        n10 = rnd10(p, res)
        res.floor("RND-10", "slice sampling kernels", n10, 4)
        from .c11 import wr1
        nw, _ = wr1(p, res, restrict=lambda f: f.file.endswith("sampling.rs"))
        res.floor("WR-1", "sampling shape functions", nw, 2)

        # ---------------- RND-1
        n1 = 0
        failing = {}
        for uid, f in sorted(eng.fns.items()):
            R = eng.roles[uid]
            relevant = set()
            for o, rs in R.items():
                if o[0] == "param" and (rs & {"mask", "error"}):
                    relevant.add(o)
            if not relevant or f.kind == "Closure":
                continue
            # decompression helpers have no stream parameters; sampling primitives (the sinks' own implementations) are below the HAL
            if not f.uid.startswith(("poulpy_core", "poulpy_bin_fhe", "poulpy_ckks", "poulpy_cpu_ref", "poulpy_cpu_avx")):
                continue
            n1 += 1
            if uid in inj:
                res.ok("RND-1", {"fn": f.pretty, "noise_call_block": inj_info[uid]} if n1 % 25 == 1 else None)
            else:
                g = cfgs_cache.get(uid) or CFG(f)
                if not g.returns:
                    res.ok("RND-1")
                    continue
                failing[uid] = (f, relevant)
        # report only root causes: a failing routine all of whose failure is explained by a failing callee on its must-path is not reported again
        for uid, (f, relevant) in sorted(failing.items()):
            g = cfgs_cache.get(uid) or CFG(f)
            must = g.pdom(True).get(0, frozenset())
            blamed = False
            for bi in must:
                if bi < 0:
                    continue
                t = f.blocks[bi]["t"]
                if t and t["k"] == "Call":
                    tg = [x for x in p.targets(f, t)] + list(f.callee_closures(t))
                    if any(x in failing for x in tg):
                        blamed = True
                    # closures are not in `failing` (not entry points): descend one level
                    for cu in f.callee_closures(t):
                        cf = p.fn(cu)
                        if cf is not None:
                            for b2, t2 in cf.calls():
                                if any(x in failing for x in p.targets(cf, t2)):
                                    blamed = True
            R = eng.roles[uid]
            if blamed:
                res.rules["RND-1"]["obligations"] += 1  # counted as not discharged, reported at the callee
                continue
            res.bad("RND-1", f.pretty, "noise-free-path",
                    "%s draws a %s stream but has a returning path on which no noise is injected (no call to vec_znx_add_normal / vec_znx_big_add_normal or to a noise-injecting routine post-dominates the entry); %d callers inherit the defect"
                    % (f.pretty, "/".join(sorted(set().union(*[R[o] for o in relevant]))), len(failing) - 1), site=f.where())
        res.floor("RND-1", "encryption routines", n1, 160, ref_min=120)
        # kernels: result-writing normalisation dominated by noise in the same loop
        kernels = sorted({f.uid for f, bi, role, og in eng.sink_sites if role == "error" and f.uid.startswith(("poulpy_core", "poulpy_bin_fhe", "poulpy_ckks"))})
        res.floor("RND-1", "noise kernels", len(kernels), 3)
        for ku in kernels:
            f = p.fn(ku)
            g = CFG(f)
            flow = eng.flow[ku]
            noise_bbs = [bi for ff, bi, role, og in eng.sink_sites if ff.uid == ku and role == "error"]
            writes = 0
            for bi, t in f.calls():
                d = f.callee_def(t) or {}
                if d.get("n") not in ("vec_znx_big_normalize", "vec_znx_normalize"):
                    continue
                # destination = first layout argument (arg 1); does it originate from a parameter (the result)?
                dest = t["a"][1]
                rr = flow.op_roots(dest)
                from_param = any(r[0] == "param" for r in rr) or any(
                    r[0] == "call" and (f.callee_def(f.blocks[r[1]]["t"]) or {}).get("n") in ("to_mut", "data_mut") for r in rr)
                from_scratch = any(r[0] == "call" and (f.callee_def(f.blocks[r[1]]["t"]) or {}).get("n", "").startswith("take_") for r in rr)
                if not from_param or from_scratch:
                    continue
                writes += 1
                lp = g.innermost_loop(bi)
                okk = any(g.dominates(nb, bi) and (lp is None or nb in lp["body"]) for nb in noise_bbs)
                if okk:
                    res.ok("RND-1", {"kernel": f.pretty, "result_write": d.get("n"), "dominated_by_noise": True})
                else:
                    res.bad("RND-1", f.pretty, "result-write-without-noise:%s" % d.get("n"),
                            "%s writes the result ciphertext with %s on a path (or loop iteration) that is not preceded by a noise injection" % (f.pretty, d.get("n")), site=f.where(t["l"]))
            if writes == 0:
                res.undec("RND-1", "%s: no result-writing normalisation recognised" % f.pretty)

        # ---------------- RND-2
        n2 = 0
        pending = []
        mixed = []
        for uid, f in sorted(eng.fns.items()):
            R = eng.roles[uid]
            pn = f.param_names()
            for o, rs in sorted(R.items()):
                if "mask" in rs and len(rs) > 1 and o[0] in ("param", "new", "branch", "cap"):
                    mixed.append((uid, f, o, set(rs)))
            if f.kind == "Closure" or not f.uid.startswith(("poulpy_core", "poulpy_bin_fhe", "poulpy_ckks", "poulpy_cpu_ref", "poulpy_cpu_avx")):
                continue
            if f.uid.startswith("poulpy_cpu") and not (f.trait_item or "").startswith(("poulpy_core::oep", "poulpy_ckks::oep", "poulpy_bin_fhe")):
                continue  # below the HAL: sampling primitives, not encryption routines
            for l, nm in sorted(pn.items()):
                if nm not in NAME_ROLE:
                    continue
                ts = f.local_ty(l)["s"]
                if not (is_source_ty(ts) or is_seed_ty(ts)):
                    continue
                n2 += 1
                want = NAME_ROLE[nm]
                got = R.get(("param", l), set())
                if want in got and (want != "mask" or got == {"mask"}):
                    res.ok("RND-2", {"fn": f.pretty, "param": nm, "role": sorted(got)} if n2 % 40 == 1 else None)
                else:
                    pending.append((uid, f, l, nm, want, got))
        mixed_params = {(uid, o[1]) for uid, f, o, rs in mixed if o[0] == "param"}
        mixed_caps = {(uid, o[1]) for uid, f, o, rs in mixed if o[0] == "cap"}
        for uid, f, o, rs in mixed:
            inherited = False
            if o[0] == "cap":
                continue  # reported at the parent that created the closure
            for og, kind, data, bi in eng.sites[uid]:
                if o not in og:
                    continue
                if kind == "call" and any((t, data[1]) in mixed_params for t in data[0]):
                    inherited = True
            if inherited:
                continue
            pn = f.param_names()
            nm = pn.get(o[1]) if o[0] == "param" else "%s@bb%d" % o
            res.bad("RND-2", f.pretty, "mask-shared:%s" % (nm if o[0] == "param" else o[0]),
                    "%s: stream `%s` feeds the public mask and is also used as %s stream" % (f.pretty, nm, "/".join(sorted(rs - {"mask"}))), site=f.where())
        # root causes only: a parameter whose defect is inherited from the callee parameter it is handed to is reported there
        bad_params = {(uid, l) for uid, f, l, nm, want, got in pending}
        for uid, f, l, nm, want, got in pending:
            inherited = False
            for og, kind, data, bi in eng.sites[uid]:
                if ("param", l) not in og:
                    continue
                if kind == "call":
                    tg, pi = data
                    if any((t, pi) in bad_params for t in tg):
                        inherited = True
                elif kind == "closure":
                    cu, k = data
                    cf = p.fn(cu)
                    # closure forwards the capture to a bad callee parameter
                    for og2, kind2, data2, bi2 in eng.sites.get(cu, []):
                        if ("cap", k) in og2 and kind2 == "call" and any((t, data2[1]) in bad_params for t in data2[0]):
                            inherited = True
            if inherited:
                res.rules["RND-2"]["obligations"] += 1
                continue
            if not got:
                if uses_param(f, l):
                    res.bad("RND-2", f.pretty, "role-missing:%s" % nm, "%s: parameter `%s` never reaches a %s sink (documented role: %s)" % (f.pretty, nm, want, want), site=f.where())
                else:
                    res.bad("RND-2", f.pretty, "unused:%s" % nm, "%s: parameter `%s` (documented %s stream) is not used at all" % (f.pretty, nm, want), site=f.where())
            elif want not in got:
                res.bad("RND-2", f.pretty, "role-mismatch:%s" % nm, "%s: parameter `%s` is documented as the %s stream but is used as %s" % (f.pretty, nm, want, "/".join(sorted(got))), site=f.where())
            else:
                res.bad("RND-2", f.pretty, "role-mixed:%s" % nm, "%s: parameter `%s` (documented %s stream) is also used as %s" % (f.pretty, nm, want, "/".join(sorted(got - {want}))), site=f.where())
        res.floor("RND-2", "named stream parameters", n2, 320, ref_min=240)
        # (c)/(e) sink arguments
        for f, bi, role, og in eng.sink_sites:
            if not f.uid.startswith(("poulpy_core", "poulpy_bin_fhe", "poulpy_ckks")):
                continue
            t = f.blocks[bi]["t"]
            flow = eng.flow[f.uid]
            # (d) constant seeds
            for o in og:
                if o[0] == "new":
                    st = [o]
                    seen = set()
                    while st:
                        x = st.pop()
                        if x in seen:
                            continue
                        seen.add(x)
                        for der, parents in eng.derive[f.uid]:
                            if der == x:
                                if parents and all(q[0] in ("const", "agg") for q in parents):
                                    res.bad("RND-2", f.pretty, "constant-seed", "%s: a %s sink is fed from Source::new(<constant>)" % (f.pretty, role), site=f.where(t["l"]))
                                st.extend(parents)
            if role == "error":
                # NoiseInfos argument
                ni = None
                for a in t["a"]:
                    if a[0] in ("c", "m") and "NoiseInfos" in f.local_ty(a[1][0])["s"]:
                        ni = a
                if ni is None:
                    for a in t["a"]:
                        if a[0] == "k" and "NoiseInfos" in f.tys(a[1]["ty"]):
                            res.bad("RND-2", f.pretty, "noise-infos-constant", "%s: NoiseInfos passed to the noise sink is a constant" % f.pretty, site=f.where(t["l"]))
                    continue
                rr = flow.op_roots(ni)
                good = False
                for r in rr:
                    if r[0] == "call":
                        t2 = f.blocks[r[1]]["t"]
                        d2 = f.callee_def(t2) or {}
                        if d2.get("n") == "noise_infos" and t2["a"]:
                            r2 = flow.op_roots(t2["a"][0])
                            if any(x[0] == "param" for x in r2):
                                good = True
                if good:
                    res.ok("RND-2", {"fn": f.pretty, "noise_infos": "enc_infos.noise_infos()"})
                else:
                    res.bad("RND-2", f.pretty, "noise-infos-origin", "%s: NoiseInfos given to the noise sink does not come from the caller's EncryptionInfos::noise_infos()" % f.pretty, site=f.where(t["l"]))

        # ---------------- RND-6 radix agreement in kernels
        for ku in kernels:
            f = p.fn(ku)
            flow = eng.flow[ku]
            sym = Sym(f, Flow(f))
            radix = set()
            sites = []
            for bi, t in f.calls():
                d = f.callee_def(t) or {}
                n = d.get("n")
                if d.get("u") in NOISE_SINKS or d.get("u") in MASK_SINKS:
                    sites.append((n, sym.operand(t["a"][1]), t))
                elif n in ("vec_znx_big_normalize", "vec_znx_normalize"):
                    sites.append((n + ":res", sym.operand(t["a"][2]), t))
                    sites.append((n + ":a", sym.operand(t["a"][6]), t))
            for cl in p.closures_of(f):
                fl = Flow(cl)
                from .c20 import cap_subst_for
                sy = Sym(cl, fl, cap_subst=cap_subst_for(f, sym, cl.uid))
                for bi, t in cl.calls():
                    d = cl.callee_def(t) or {}
                    n = d.get("n")
                    if d.get("u") in NOISE_SINKS or d.get("u") in MASK_SINKS:
                        sites.append((n, sy.operand(t["a"][1]), t))
                    elif n in ("vec_znx_big_normalize", "vec_znx_normalize"):
                        sites.append((n + ":res", sy.operand(t["a"][2]), t))
            vals = {}
            for n, v, t in sites:
                vals.setdefault(repr(v), []).append(n)
            if len(vals) == 1:
                res.ok("RND-6", {"kernel": f.pretty, "radix": list(vals)[0], "sites": sorted(set(sum(vals.values(), [])))})
            else:
                res.bad("RND-6", f.pretty, "radix-mismatch", "%s: noise / mask / normalisation use different radices: %s" % (f.pretty, {k: sorted(set(v)) for k, v in vals.items()}), site=f.where())

        rnd7(p, res, eng, kernels)

        # ---------------- RND-3
        n3 = 0
        for uid, f in sorted(eng.fns.items()):
            g = None
            flow = eng.flow[uid]
            for der, parents in eng.derive[uid]:
                if der[0] != "new":
                    continue
                n3 += 1
                bi = der[1]
                g = g or CFG(f)
                lp = g.innermost_loop(bi)
                in_rowclosure = f.kind == "Closure" and closure_in_iteration(p, f)
                if lp is None and not in_rowclosure:
                    res.ok("RND-3")
                    continue
                # loop-invariant seed?
                inv = True
                t = f.blocks[bi]["t"]
                for r in flow.op_roots(t["a"][0]):
                    if r[0] == "call":
                        if lp is not None and r[1] in lp["body"]:
                            inv = False
                        if in_rowclosure:
                            inv = False
                    elif r[0] == "param" and in_rowclosure and f.kind == "Closure" and r[1] != 1:
                        inv = False  # closure argument = the row item
                if inv:
                    res.bad("RND-3", f.pretty, "loop-invariant-seed", "%s: Source::new(seed) inside a loop / per-row closure with a seed that does not change between iterations: every row gets the same mask" % f.pretty, site=f.where(t["l"]))
                else:
                    res.ok("RND-3", {"fn": f.pretty, "seed": "fresh per iteration"})
        res.floor("RND-3", "Source::new sites", n3, 6)

        # ---------------- RND-4
        ncalls = 0
        for f in p.lib_fns():
            for bi, t in f.calls():
                ncalls += 1
                d = f.callee_def(t)
                if d and any(d["p"].startswith(x) for x in ENTROPY):
                    res.bad("RND-4", f.pretty, "entropy:%s" % d["p"], "%s obtains entropy/time/address-dependent state from %s: results are no longer a function of the seeds" % (f.pretty, d["p"]), site=f.where(t["l"]))
        res.callsites += ncalls
        assert any("rand::rng".startswith(x) for x in ENTROPY)  # positive control of the matcher
        res.ok("RND-4", {"call_sites_scanned": ncalls})

        # ---------------- RND-5
        n5 = 0
        OKC = {"max", "min", "max_by", "max_by_key", "min_by", "min_by_key", "count", "len", "all", "any", "sum", "sorted", "sorted_by", "sorted_by_key", "sorted_unstable",
               "sorted_unstable_by", "sorted_unstable_by_key", "is_empty", "contains", "fold_max"}
        PASS = {"copied", "cloned", "map", "filter", "deref_mut", "deref", "into_iter", "by_ref"}
        for f in p.lib_fns():
            for bi, t in f.calls():
                d = f.callee_def(t)
                if not d:
                    continue
                pr = d["p"]
                r = f.callee_res(t) or ""
                is_map = ("HashMap" in pr or "HashSet" in pr or "hash::map" in r or "hash::set" in r or "hash_map" in r)
                if not is_map or d.get("n") not in ("iter", "iter_mut", "keys", "values", "values_mut", "into_iter", "drain", "into_keys", "into_values"):
                    continue
                if d.get("n") == "into_iter" and t["a"] and "Hash" not in f.local_ty(t["a"][0][1][0])["s"] if t["a"][0][0] in ("c", "m") else False:
                    continue
                n5 += 1
                cur = t["t"]
                verdict = None
                collected = False
                for _ in range(12):
                    if cur is None:
                        break
                    tt = f.blocks[cur]["t"]
                    if not tt or tt["k"] != "Call":
                        break
                    n = (f.callee_def(tt) or {}).get("n")
                    if n in OKC or (collected and n in ("sort", "sort_unstable", "sort_by", "sort_by_key", "sort_unstable_by", "sort_unstable_by_key")):
                        verdict = n
                        break
                    if n == "collect" or n == "collect_vec":
                        collected = True
                    elif n not in PASS:
                        break
                    cur = tt["t"]
                if verdict:
                    res.ok("RND-5", {"fn": f.pretty, "site": f.where(t["l"]), "consumer": verdict})
                else:
                    res.bad("RND-5", f.pretty, "unordered-iteration:%s" % d.get("n"),
                            "%s iterates a HashMap/HashSet (%s) without sorting or an order-insensitive consumer: the order depends on RandomState" % (f.pretty, d.get("n")), site=f.where(t["l"]))
        res.floor("RND-5", "HashMap iteration sites", n5, 7)
    if tier == "thorough":
        from . import witness
        witness.check(res, ["W3SourceNotClone"])


def uses_param(f, l):
    for blk in f.blocks:
        if blk["c"]:
            continue
        for s in blk["s"]:
            if s[0] == "A":
                rv = s[2]
                for o in rv.get("o", []):
                    if o[0] in ("c", "m") and o[1][0] == l:
                        return True
                if "p" in rv and rv["p"][0] == l:
                    return True
        t = blk["t"]
        if t and t["k"] == "Call":
            for a in t["a"]:
                if a[0] in ("c", "m") and a[1][0] == l:
                    return True
    return False


def closure_in_iteration(p, cl):
    """closure passed to for_each/map/try_for_each of an iterator in its parent"""
    par = p.fn(cl.parent) if cl.parent else None
    if par is None:
        return False
    for bi, t in par.calls():
        if cl.uid in par.callee_closures(t):
            n = (par.callee_def(t) or {}).get("n")
            if n in ("for_each", "map", "try_for_each", "fold", "for_each_with"):
                return True
    return False
