"""C13 — compiled BDD circuits compute their 32-bit word functions for all inputs.

BDD-1 extraction of the circuit tables from the type-checked static initialisers
BDD-2 well-formedness (indices, width, def-before-use, last chunk)
BDD-3 evaluator agreement: the interpreter's transfer function is tied to MIR of eval_level/get_bit
BDD-4 function equality by ROBDDs over all 2^64 inputs
BDD-5 binding operation trait -> table -> reference word function
"""
from . import facts
from .cfg import CFG, Flow
from .robdd import BDD, selfcheck

OPS_2W = ["Add", "Sub", "Sll", "Srl", "Sra", "Slt", "Sltu", "And", "Or", "Xor"]
TRAIT_2W = "poulpy_bin_fhe::bdd_arithmetic::bdd_2w_to_1w::"
TRAIT_1W = "poulpy_bin_fhe::bdd_arithmetic::bdd_1w_to_1w::"
W = 32


# ---------------------------------------------------------------- BDD-1
class Table:
    def __init__(self, uid):
        self.uid = uid
        self.bits = []  # list of (nodes, width); node = ("cmux", i, h, l) | ("copy",) | ("none",)
        self.n_declared = None
        self.input_bits = None
        self.output_bits = None
        self.family = None


def _path_uid(c, e):
    if e.get("k") == "Path" and "d" in e:
        return c.defs[e["d"]]["u"], e.get("dk", "")
    return None, None


def extract_tables(p, res):
    c = p.crates["poulpy_bin_fhe"]
    tables = {}
    for s in c.statics:
        if s.get("test"):
            continue
        d = c.defs[s["d"]]
        ty = c.tys[s["ty"]]
        if "adt" not in ty or not c.defs[ty["adt"]]["u"].endswith("bdd_arithmetic::eval::Circuit"):
            continue
        uid = d["u"]
        fkey = uid
        t = Table(uid)
        if s["mut"]:
            res.bad("BDD-1", fkey, "static-mut", "circuit table %s is `static mut`" % uid)
            continue
        init = s.get("init")
        if init is None:
            res.bad("BDD-1", fkey, "no-initialiser", "no HIR initialiser emitted for %s" % uid)
            continue
        try:
            # Circuit([...])
            assert init["k"] == "Call", "top-level is not a constructor call"
            u, dk = _path_uid(c, init["f"])
            assert u and u.endswith("eval::Circuit::{constructor#0}"), "top-level constructor is %s" % u
            assert len(init["a"]) == 1 and init["a"][0]["k"] == "Array", "Circuit argument is not an array literal"
            # family type = first type argument of Circuit<C, N>
            fam = c.tys[ty["ta"][0]]
            t.family = c.defs[fam["adt"]]["u"]
            for elem in init["a"][0]["a"]:
                # AnyBitCircuit::Bk(BitCircuit::new([...], w))
                assert elem["k"] == "Call" and len(elem["a"]) == 1, "array element is not Variant(..)"
                vu, vdk = _path_uid(c, elem["f"])
                assert vu and "Ctor(Variant" in vdk and vu.startswith(t.family + "::"), "element constructor %s is not a variant of %s" % (vu, t.family)
                inner = elem["a"][0]
                assert inner["k"] == "Call" and len(inner["a"]) == 2, "variant payload is not BitCircuit::new(nodes, width)"
                nu, ndk = _path_uid(c, inner["f"])
                if nu and nu.endswith("::new") and "AssocFn" in ndk:
                    nodes_e, w_e = inner["a"]
                else:
                    raise AssertionError("payload constructor is %s" % nu)
                assert nodes_e["k"] == "Array", "nodes is not an array literal"
                assert w_e["k"] == "Int", "max_inter_state is not an integer literal"
                nodes = []
                for ne in nodes_e["a"]:
                    if ne["k"] == "Call":
                        cu, cdk = _path_uid(c, ne["f"])
                        assert cu and cu.endswith("eval::Node::Cmux::{constructor#0}"), "unknown node constructor %s" % cu
                        assert len(ne["a"]) == 3 and all(x["k"] == "Int" for x in ne["a"]), "Cmux operands are not integer literals"
                        nodes.append(("cmux", ne["a"][0]["v"], ne["a"][1]["v"], ne["a"][2]["v"]))
                    elif ne["k"] == "Path":
                        cu, cdk = _path_uid(c, ne)
                        if cu and cu.endswith("eval::Node::Copy::{constructor#0}"):
                            nodes.append(("copy",))
                        elif cu and cu.endswith("eval::Node::None::{constructor#0}"):
                            nodes.append(("none",))
                        else:
                            raise AssertionError("unknown node path %s" % cu)
                    else:
                        raise AssertionError("node expression of kind %s" % ne["k"])
                t.bits.append((nodes, w_e["v"]))
        except AssertionError as e:
            res.bad("BDD-1", fkey, "unparsable-initialiser", "table %s: %s (fail closed)" % (uid, e), site="%s:%s" % (s["sp"][0], s["sp"][1]))
            continue
        # N of Circuit<C, N> from the type string
        ts = ty["s"]
        try:
            t.n_declared = int(ts.rsplit(",", 1)[1].strip(" >").replace("usize", ""))
        except Exception:
            t.n_declared = None
        # family constants
        for im in p.impls:
            if im["trait"] and im["trait"].endswith("eval::BitCircuitFamily") and im["self_ty"].get("adt") is not None:
                if im["cr"].defs[im["self_ty"]["adt"]]["u"] == t.family:
                    t.input_bits = im["consts"].get("INPUT_BITS")
                    t.output_bits = im["consts"].get("OUTPUT_BITS")
        if t.input_bits is None or t.output_bits is None:
            res.bad("BDD-1", fkey, "family-consts", "INPUT_BITS/OUTPUT_BITS of %s not found" % t.family)
            continue
        res.ok("BDD-1", {"table": uid, "output_bits": len(t.bits), "nodes": sum(len(b[0]) for b in t.bits)})
        tables[uid] = t
    return tables


# ---------------------------------------------------------------- BDD-2
def wellformed(t, res):
    ok = True
    fkey = t.uid

    def bad(desc, msg):
        nonlocal ok
        ok = False
        res.bad("BDD-2", fkey, desc, "%s: %s" % (t.uid, msg))

    if t.output_bits != len(t.bits):
        bad("output-bits", "OUTPUT_BITS=%s but the table holds %d bit circuits" % (t.output_bits, len(t.bits)))
    if t.n_declared is not None and t.n_declared != len(t.bits):
        bad("array-len", "Circuit<_, %s> holds %d entries" % (t.n_declared, len(t.bits)))
    for bit, (nodes, w) in enumerate(t.bits):
        if w < 2:
            bad("bit%d:width" % bit, "max_inter_state=%d < 2 (slot 1 holds the constant one)" % w)
            continue
        if len(nodes) == 0 or len(nodes) % w != 0:
            bad("bit%d:len" % bit, "node count %d is not a positive multiple of width %d" % (len(nodes), w))
            continue
        levels = [nodes[i:i + w] for i in range(0, len(nodes), w)]
        last = levels[-1]
        if last[0][0] != "cmux" or any(n[0] != "none" for n in last[1:]):
            bad("bit%d:last-chunk" % bit, "last chunk is not [Cmux, None, ...]")
        defined = {0, 1}  # slots initialised by the evaluator
        for li, lvl in enumerate(levels):
            nxt = set()
            for j, n in enumerate(lvl):
                if n[0] == "cmux":
                    _, i, h, l = n
                    if i >= t.input_bits:
                        bad("bit%d:l%d:s%d:selector" % (bit, li, j), "selector %d >= INPUT_BITS %d" % (i, t.input_bits))
                    for nm, x in (("hi", h), ("lo", l)):
                        if x >= w:
                            bad("bit%d:l%d:s%d:%s-range" % (bit, li, j, nm), "%s index %d >= width %d" % (nm, x, w))
                        elif x not in defined:
                            bad("bit%d:l%d:s%d:%s-undef" % (bit, li, j, nm),
                                "level %d slot %d reads %s=%d which the previous level left undefined" % (li, j, nm, x))
                    nxt.add(j)
                elif n[0] == "copy":
                    if j not in defined:
                        bad("bit%d:l%d:s%d:copy-undef" % (bit, li, j), "level %d copies slot %d which the previous level left undefined" % (li, j))
                    nxt.add(j)
            defined = nxt
    return ok


# ---------------------------------------------------------------- BDD-3
def _single_def(flow, local):
    ds = flow.defs.get(local, [])
    if len(ds) == 1:
        return ds[0]
    return None


def elem_ref(flow, op, depth=0):
    """Resolve an operand that is a (re)borrow of `container[index]`.
    Returns ("elem", container_local, index_local) | ("local", local) | None"""
    if op[0] not in ("c", "m") or depth > 12:
        return None
    p = op[1]
    # look for an Index projection in this place
    for x in p[1:]:
        if isinstance(x, list) and x[0] == "i":
            return ("elem", p[0], x[1])
    d = _single_def(flow, p[0])
    if d is None:
        return ("local", p[0])
    if d[0] == "call":
        return ("local", p[0])
    rv = d[4]
    if rv["k"] == "Use":
        return elem_ref(flow, rv["o"][0], depth + 1)
    if rv["k"] == "Ref":
        pl = rv["p"]
        for x in pl[1:]:
            if isinstance(x, list) and x[0] == "i":
                return ("elem", pl[0], x[1])
        return elem_ref(flow, ["c", [pl[0]]], depth + 1) if pl[0] != p[0] else ("local", p[0])
    return ("local", p[0])


def _field_tail(roots):
    """common (root-kind, root-id, path) set -> returns set of (rootkey, last-field)"""
    out = set()
    for r in roots:
        if r[0] in ("call", "param") and r[2]:
            out.add(((r[0], r[1], r[2][:-1]), r[2][-1]))
        else:
            out.add((r, None))
    return out


def check_evaluator(p, res):
    c = p.crates["poulpy_bin_fhe"]
    fn = p.fn("poulpy_bin_fhe::bdd_arithmetic::eval::eval_level")
    if fn is None:
        res.bad("BDD-3", "eval_level", "anchor-lost:eval_level", "evaluator poulpy_bin_fhe::bdd_arithmetic::eval::eval_level not found")
        return False
    fkey = "bdd_arithmetic::eval::eval_level"
    flow = Flow(fn)
    g = CFG(fn)
    ok = True

    def bad(desc, msg, line=None):
        nonlocal ok
        ok = False
        res.bad("BDD-3", fkey, desc, "evaluator changed - interpreter no longer valid: " + msg, site=fn.where(line))

    # Node variant order
    node_adt = [a for a in c.adts if c.defs[a["d"]]["u"] == "poulpy_bin_fhe::bdd_arithmetic::eval::Node"]
    if not node_adt:
        bad("anchor-lost:Node", "enum Node not found")
        return False
    variants = [v["n"] for v in node_adt[0]["vars"]]
    if sorted(variants) != ["Cmux", "Copy", "None"]:
        bad("node-variants", "Node variants are %s" % variants)
        return False
    cm_fields = [v for v in node_adt[0]["vars"] if v["n"] == "Cmux"][0]["fs"]
    if len(cm_fields) != 3:
        bad("cmux-arity", "Node::Cmux has %d fields" % len(cm_fields))
        return False

    cmux_calls, copy_calls, getbit_calls, other_calls = [], [], [], []
    for bi, t in fn.calls():
        if bi not in g.reach:
            continue
        u = fn.callee_uid(t) or ""
        if u.endswith("bdd_arithmetic::eval::Cmux::cmux"):
            cmux_calls.append((bi, t))
        elif u.endswith("poulpy_core::api::operations::GLWECopy::glwe_copy") or u.endswith("::GLWECopy::glwe_copy"):
            copy_calls.append((bi, t))
        elif u.endswith("GetGGSWBit::get_bit"):
            getbit_calls.append((bi, t))
        elif u.startswith("poulpy_"):
            other_calls.append((bi, t, u))
    if len(cmux_calls) != 2:
        bad("cmux-call-count", "expected 2 cmux call sites (level loop + final node), found %d" % len(cmux_calls))
        return False
    if len(copy_calls) != 1:
        bad("copy-call-count", "expected 1 glwe_copy call site, found %d" % len(copy_calls))
        return False
    # any other state-changing library call inside the evaluator (beyond the known initialisation calls) invalidates the model
    allowed_other = ("GLWEToMut::to_mut", "ScratchTakeCore::take_glwe_slice", "GLWE::<D>::data_mut", "::data_mut", "LWEInfos::base2k",
                     "encode_coeff_i64", "ZnxZero::zero")
    for bi, t, u in other_calls:
        pr = fn.callee_def(t)["p"]
        if not any(a in pr or a in u for a in allowed_other):
            bad("extra-call:%s" % pr, "unmodelled library call %s inside eval_level" % pr, t["l"])

    loops = g.loops()
    in_loop = lambda bb: any(bb in l["body"] for l in loops)  # noqa: E731
    loop_cmux = [x for x in cmux_calls if in_loop(x[0])]
    final_cmux = [x for x in cmux_calls if not in_loop(x[0])]
    if len(loop_cmux) != 1 or len(final_cmux) != 1:
        bad("cmux-placement", "expected one cmux inside the level loop and one after it")
        return False
    if not in_loop(copy_calls[0][0]):
        bad("copy-placement", "glwe_copy is not inside the level loop")
        return False

    def node_fields(call, what):
        """returns dict role -> (rootkey, field) for hi/lo/sel, and dest/container info"""
        bi, t = call
        a = t["a"]
        if len(a) != 6:
            bad("%s:arity" % what, "cmux called with %d arguments" % len(a), t["l"])
            return None
        dest = elem_ref(flow, a[1])
        hi = elem_ref(flow, a[2])
        lo = elem_ref(flow, a[3])
        # selector: &get_bit(inputs, idx)
        sel_roots = flow.op_roots(a[4])
        sel_call = [r for r in sel_roots if r[0] == "call"]
        if len(sel_call) != 1:
            bad("%s:selector-origin" % what, "selector operand does not originate from one get_bit call", t["l"])
            return None
        gt = fn.blocks[sel_call[0][1]]["t"]
        if not (fn.callee_uid(gt) or "").endswith("GetGGSWBit::get_bit"):
            bad("%s:selector-origin" % what, "selector operand originates from %s" % fn.callee_def(gt)["p"], t["l"])
            return None
        inp = flow.op_roots(gt["a"][0])
        if not any(r[0] == "param" and fn.local_name(r[1]) is not None and r[1] == 3 for r in inp):
            # parameter position 3 = `inputs` (module, res, inputs, nodes, state_size, scratch)
            bad("%s:selector-source" % what, "get_bit is not applied to the `inputs` parameter", t["l"])
        sel_idx = _field_tail(flow.op_roots(gt["a"][1]))
        out = {"dest": dest, "hi": hi, "lo": lo, "sel": sel_idx}
        for nm in ("hi", "lo"):
            e = out[nm]
            if not e or e[0] != "elem":
                bad("%s:%s-not-indexed" % (what, nm), "%s operand is not an indexed element of the state" % nm, t["l"])
                return None
            out[nm + "_idx"] = _field_tail(flow.roots(e[2]))
        return out

    # field names of Cmux(selector, hi, lo) are positional "0","1","2"
    def check_roles(info, what, line):
        roles = {"sel": "0", "hi_idx": "1", "lo_idx": "2"}
        keys = set()
        for role, fld in roles.items():
            tails = info[role]
            if len(tails) != 1:
                bad("%s:%s-ambiguous" % (what, role), "%s index has %d origins" % (role, len(tails)), line)
                return False
            (rk, f), = tails
            if f != fld:
                bad("%s:%s-field" % (what, role), "%s index is read from Cmux field %s, the interpreter assumes field %s (Cmux(selector, hi, lo))" % (role, f, fld), line)
                return False
            keys.add(rk)
        if len(keys) != 1:
            bad("%s:mixed-nodes" % what, "selector / hi / lo indices are not read from the same node", line)
            return False
        if info["hi"][1] != info["lo"][1]:
            bad("%s:hi-lo-container" % what, "hi and lo are read from different state buffers", line)
            return False
        return True

    li = node_fields(loop_cmux[0], "loop-cmux")
    fi = node_fields(final_cmux[0], "final-cmux")
    if li is None or fi is None:
        return False
    if not check_roles(li, "loop-cmux", loop_cmux[0][1]["l"]) or not check_roles(fi, "final-cmux", final_cmux[0][1]["l"]):
        return False
    prev_local = li["hi"][1]
    # loop cmux destination: next[j]
    if not li["dest"] or li["dest"][0] != "elem" or li["dest"][1] == prev_local:
        bad("loop-cmux:dest", "destination of the level cmux is not an element of the *other* state buffer", loop_cmux[0][1]["l"])
        return False
    next_local = li["dest"][1]
    j_roots = flow.roots(li["dest"][2])
    # copy: next[j] <- prev[j]
    ct = copy_calls[0][1]
    cd = elem_ref(flow, ct["a"][1])
    cs = elem_ref(flow, ct["a"][2])
    if not cd or not cs or cd[0] != "elem" or cs[0] != "elem":
        bad("copy:operands", "glwe_copy operands are not indexed state elements", ct["l"])
        return False
    if cd[1] != next_local or cs[1] != prev_local:
        bad("copy:buffers", "glwe_copy does not copy previous-level state into next-level state", ct["l"])
    if flow.roots(cd[2]) != j_roots or flow.roots(cs[2]) != j_roots:
        bad("copy:index", "glwe_copy does not use the node position j for both source and destination", ct["l"])
    # j must be the enumerate() position of the node within the chunk: same `next()` call as the node, tuple field 0 vs 1
    jt = _field_tail(j_roots)
    node_key = list(li["sel"])[0][0]  # (kind, id, path-to-node)
    if len(jt) != 1:
        bad("loop:j-origin", "slot index j has several origins")
    else:
        (jk, jf), = jt
        if jk[:2] != node_key[:2] or jf != "0" or not node_key[2] or node_key[2][-1] != "1" or jk[2] != node_key[2][:-1]:
            bad("loop:j-origin", "slot index j is not the enumerate() position of the node (node path %s, j path %s.%s)" % (node_key[2], jk[2], jf))
    # final cmux: dest is the result (param 2), operands from prev buffer
    if fi["hi"][1] != prev_local:
        bad("final-cmux:buffer", "final node does not read the previous-level buffer", final_cmux[0][1]["l"])
    fd = flow.op_roots(final_cmux[0][1]["a"][1])
    if not any(r[0] == "call" and (fn.callee_uid(fn.blocks[r[1]]["t"]) or "").endswith("GLWEToMut::to_mut") for r in fd):
        bad("final-cmux:dest", "final node does not write the result ciphertext", final_cmux[0][1]["l"])

    # variant arms: Cmux arm holds the cmux, Copy arm the copy, None arm nothing
    sw = None
    for bi in sorted(g.reach):
        t = fn.blocks[bi]["t"]
        if t and t["k"] == "Switch" and in_loop(bi):
            rr = flow.op_roots(t["o"])
            for r in rr:
                if r[0] == "other":
                    st = fn.blocks[r[1]]["s"][r[2]]
                    if st[2]["k"] == "Disc":
                        sw = (bi, t)
    if sw is None:
        bad("loop:switch", "no discriminant switch over the node found in the level loop")
        return False
    arms = dict((v, b) for v, b in sw[1]["ts"])
    for vi, vn in enumerate(variants):
        tb = arms.get(vi)
        if tb is None:
            bad("loop:arm-%s" % vn, "no explicit arm for Node::%s" % vn)
            continue
        dominated = [b for b in g.reach if g.dominates(tb, b)]
        calls_here = set()
        for b in dominated:
            t = fn.blocks[b]["t"]
            if t and t["k"] == "Call":
                u = fn.callee_uid(t) or ""
                if u.endswith("Cmux::cmux"):
                    calls_here.add("cmux")
                elif u.endswith("GLWECopy::glwe_copy"):
                    calls_here.add("copy")
        exp = {"Cmux": {"cmux"}, "Copy": {"copy"}, "None": set()}[vn]
        if calls_here != exp:
            bad("loop:arm-%s" % vn, "arm Node::%s performs %s, the interpreter assumes %s" % (vn, sorted(calls_here), sorted(exp)))

    # swap of the two buffers at the end of each level
    swapped = False
    for bi in g.reach:
        if not in_loop(bi):
            continue
        asg = {}
        for s in fn.blocks[bi]["s"]:
            if s[0] == "A" and len(s[1]) == 1 and s[1][0] in (prev_local, next_local):
                asg[s[1][0]] = s[2]
        if prev_local in asg and next_local in asg:
            def src_locals(rv):
                out = set()
                seen = set()
                st = []
                if rv["k"] in ("Use",):
                    st.append(rv["o"][0])
                elif rv["k"] == "Ref":
                    st.append(["c", rv["p"]])
                while st:
                    op = st.pop()
                    if op[0] not in ("c", "m"):
                        continue
                    l = op[1][0]
                    if l in seen:
                        continue
                    seen.add(l)
                    if l in (prev_local, next_local):
                        out.add(l)
                        continue
                    for d in flow.defs.get(l, []):
                        if d[0] == "stmt" and d[1] == bi:
                            rv2 = d[4]
                            if rv2["k"] == "Use":
                                st.append(rv2["o"][0])
                            elif rv2["k"] == "Ref":
                                st.append(["c", rv2["p"]])
                            elif rv2["k"] == "Agg":
                                # tuple: select by the field used
                                fields = [x[2] for x in op[1][1:] if isinstance(x, list) and x[0] == "f"]
                                if fields and fields[0].isdigit() and int(fields[0]) < len(rv2["o"]):
                                    st.append(rv2["o"][int(fields[0])])
                return out
            if src_locals(asg[prev_local]) == {next_local} and src_locals(asg[next_local]) == {prev_local}:
                swapped = True
    if not swapped:
        bad("loop:swap", "previous/next state buffers are not swapped after each level")

    # buffers come from split_at_mut(state_size) of the 2*state_size slice: prev = .0, next = .1
    pr = flow.roots(prev_local)
    nr = flow.roots(next_local)
    sp = [r for r in pr if r[0] == "call" and (fn.callee_uid(fn.blocks[r[1]]["t"]) or "").endswith("split_at_mut")]
    sn = [r for r in nr if r[0] == "call" and (fn.callee_uid(fn.blocks[r[1]]["t"]) or "").endswith("split_at_mut")]
    if not sp or not sn or ("0",) not in [r[2] for r in sp] or ("1",) not in [r[2] for r in sn]:
        bad("init:split", "state buffers are not (first half, second half) of split_at_mut")
    else:
        st = fn.blocks[sp[0][1]]["t"]
        mid = flow.op_roots(st["a"][1])
        if not any(r[0] == "param" and r[1] == 5 for r in mid):
            bad("init:split-mid", "state is not split at state_size")

    # initial state: all slots zero, slot 1 <- constant one
    enc = [(bi, t) for bi, t in fn.calls() if (fn.callee_def(t) or {}).get("n") == "encode_coeff_i64" and bi in g.reach]
    if len(enc) != 1:
        bad("init:one", "expected one encode_coeff_i64 initialising the constant-one slot, found %d" % len(enc))
    else:
        t = enc[0][1]
        consts = []
        for a in t["a"][2:]:
            consts.append(a[1].get("v") if a[0] == "k" else None)
        if consts != [0, 2, 0, 1]:
            bad("init:one-args", "constant slot initialised with (col,k,idx,value)=%s, interpreter assumes (0,2,0,1)" % consts, t["l"])
        # which slot
        tr = flow.op_roots(t["a"][0])
        slot = None
        for r in tr:
            if r[0] == "call":
                t2 = fn.blocks[r[1]]["t"]
                if (fn.callee_def(t2) or {}).get("n") == "data_mut":
                    for r2 in flow.op_roots(t2["a"][0]):
                        if r2[0] == "call":
                            t3 = fn.blocks[r2[1]]["t"]
                            if (fn.callee_def(t3) or {}).get("n") == "index_mut" and t3["a"][1][0] == "k":
                                slot = t3["a"][1][1].get("v")
        if slot != 1:
            bad("init:one-slot", "constant one is written to slot %s, interpreter assumes slot 1" % slot, t["l"])
    # zero-fill closure
    zc = [f for f in p.closures_of(fn)]
    zero_ok = False
    for cl in zc:
        for bi, t in cl.calls():
            if (cl.callee_def(t) or {}).get("n") == "zero":
                zero_ok = True
    fe = [(bi, t) for bi, t in fn.calls() if (fn.callee_def(t) or {}).get("n") == "for_each" and fn.callee_closures(t)]
    if not zero_ok or not fe:
        bad("init:zero", "state slots are not zero-filled by a for_each(|ct| ct.data_mut().zero()) before evaluation")
    # take_glwe_slice(2*state_size)
    tk = [(bi, t) for bi, t in fn.calls() if (fn.callee_def(t) or {}).get("n") == "take_glwe_slice"]
    if len(tk) != 1:
        bad("init:take", "expected one take_glwe_slice")
    else:
        rr = flow.op_roots(tk[0][1]["a"][1])
        good = False
        for r in rr:
            if r[0] == "bin":
                st = fn.blocks[r[1]]["s"][r[2]][2]
                if st["op"].startswith("Mul"):
                    ops = st["o"]
                    vals = [o[1].get("v") if o[0] == "k" else None for o in ops]
                    if 2 in vals:
                        good = True
        if not good:
            bad("init:take-len", "state does not hold 2*state_size ciphertexts")
    if ok:
        res.ok("BDD-3", {"fn": fn.uid, "matched": ["cmux(next[j], prev[hi], prev[lo], get_bit(sel))", "glwe_copy(next[j], prev[j])", "None -> no-op",
                                                      "swap per level", "state = [0,1,0..] split at state_size", "final cmux writes res"]}, n=12)
    return ok


def check_get_bit(p, res):
    """FheUintHelper::get_bit splits the index as (bit / BITS, bit % BITS); inputs = [a, b]."""
    ok = True
    fns = [f for f in p.fns.values() if f.uid.startswith("poulpy_bin_fhe::bdd_arithmetic::bdd_2w_to_1w::") and f.name == "get_bit"]
    fkey = "bdd_arithmetic::bdd_2w_to_1w::FheUintHelper::get_bit"
    if len(fns) != 1:
        res.bad("BDD-3", fkey, "anchor-lost:get_bit", "FheUintHelper::get_bit not found (%d candidates)" % len(fns))
        return False
    fn = fns[0]
    flow = Flow(fn)

    def bad(desc, msg, line=None):
        nonlocal ok
        ok = False
        res.bad("BDD-3", fkey, desc, "evaluator changed - interpreter no longer valid: " + msg, site=fn.where(line))

    inner = [(bi, t) for bi, t in fn.calls() if (fn.callee_uid(t) or "").endswith("GetGGSWBit::get_bit")]
    if len(inner) != 1:
        bad("inner-call", "expected one delegated get_bit call")
        return False
    t = inner[0][1]

    def binop_of(op):
        rr = flow.op_roots(op)
        out = []
        for r in rr:
            if r[0] == "bin":
                st = fn.blocks[r[1]]["s"][r[2]][2]
                l = flow.op_roots(st["o"][0])
                rgt = st["o"][1]
                out.append((st["op"], l, rgt))
        return out

    # argument: bit % BITS
    b = binop_of(t["a"][1])
    if len(b) != 1 or b[0][0] != "Rem" or not any(r[0] == "param" and r[1] == 2 for r in b[0][1]):
        bad("low-index", "delegated bit index is not `bit % BITS`", t["l"])
    # receiver: self.data[bit / BITS]
    e = None
    for r in flow.op_roots(t["a"][0]):
        pass
    er = elem_ref(flow, t["a"][0])
    # receiver goes through Index::index(&self.data, hi) for Vec
    hi_ok = False
    for r in flow.op_roots(t["a"][0]):
        if r[0] == "call":
            t2 = fn.blocks[r[1]]["t"]
            if (fn.callee_def(t2) or {}).get("n") == "index":
                b2 = binop_of(t2["a"][1])
                if len(b2) == 1 and b2[0][0] == "Div" and any(x[0] == "param" and x[1] == 2 for x in b2[0][1]):
                    base = flow.op_roots(t2["a"][0])
                    if any(x[0] == "param" and x[1] == 1 and x[2] and x[2][-1] == "data" for x in base):
                        hi_ok = True
                    # divisor and modulus must be the same constant expression
                    d1 = b2[0][2]
                    d0 = b[0][2] if b else None
                    if d0 is not None:
                        r1 = flow.op_roots(d1)
                        r0 = flow.op_roots(d0)
                        k1 = {(x[0], x[2]) if x[0] == "const" else x for x in r1}
                        k0 = {(x[0], x[2]) if x[0] == "const" else x for x in r0}

                        def castsrc(rs):
                            out = set()
                            for x in rs:
                                out.add(x)
                            return out
                        if not r1 or not r0:
                            hi_ok = False
    if not hi_ok:
        bad("high-index", "word selection is not `self.data[bit / BITS]`", t["l"])
    # BITS operand: both binops take `T::BITS as usize`
    for nm, bb in (("rem", b),):
        pass

    # inputs vector order in execute_bdd_circuit_2w_to_1w_multi_thread: [a, b]
    ex = [f for f in p.fns.values() if f.uid.startswith("poulpy_bin_fhe::bdd_arithmetic::bdd_2w_to_1w::ExecuteBDDCircuit2WTo1W::execute_bdd_circuit_2w_to_1w_multi_thread") and f.kind == "AssocFn" and f.name == "execute_bdd_circuit_2w_to_1w_multi_thread"]
    if len(ex) != 1:
        bad("anchor-lost:execute_2w", "execute_bdd_circuit_2w_to_1w_multi_thread not found")
        return False
    efn = ex[0]
    ef = Flow(efn)
    arr = None
    for bi, blk in enumerate(efn.blocks):
        for s in blk["s"]:
            if s[0] == "A" and s[2]["k"] == "Agg" and s[2]["ak"] == "Array" and len(s[2]["o"]) == 2:
                ty = efn.local_ty(s[1][0])
                if "GetGGSWBit" in ty["s"]:
                    arr = s[2]
    if arr is None:
        bad("inputs-array", "two-element input array [a, b] not found in execute_bdd_circuit_2w_to_1w_multi_thread")
        return False
    ps = []
    for o in arr["o"]:
        rr = [r for r in ef.op_roots(o) if r[0] == "param"]
        ps.append(rr[0][1] if len(rr) == 1 else None)
    pn = efn.param_names()
    if None in ps or not ps[0] < ps[1]:
        bad("inputs-order", "input words are not collected in signature order (a, b): %s" % [pn.get(x) for x in ps])
    else:
        # a is the first FheUintPrepared parameter, b the second
        prepared = [l for l in range(1, efn.argc + 1) if "FheUintPrepared" in efn.local_ty(l)["s"]]
        if prepared != ps:
            bad("inputs-order", "input array is built from parameters %s, FheUintPrepared parameters are %s" % (ps, prepared))
    if ok:
        res.ok("BDD-3", {"fn": fn.uid, "matched": "get_bit(bit) = data[bit / BITS].get_bit(bit % BITS); data = [a, b]"}, n=3)
    return ok


# ---------------------------------------------------------------- BDD-4
def interleaved_order():
    o = []
    for i in range(W):
        o += [i, W + i]
    return o


def shift_order():
    return [W + i for i in range(5)] + list(range(W)) + [W + i for i in range(5, W)]


def reference(b, op):
    """list of BDDs, one per output bit produced by the table (others are zero by the evaluator)"""
    A = [b.var(i) for i in range(W)]
    Bv = [b.var(W + i) for i in range(W)]
    if op == "And":
        return [b.AND(A[i], Bv[i]) for i in range(W)]
    if op == "Or":
        return [b.OR(A[i], Bv[i]) for i in range(W)]
    if op == "Xor":
        return [b.XOR(A[i], Bv[i]) for i in range(W)]
    if op == "Identity":
        return list(A)
    if op in ("Add", "Sub"):
        out = []
        Y = Bv if op == "Add" else [b.NOT(x) for x in Bv]
        c = 0 if op == "Add" else 1
        for i in range(W):
            s = b.XOR(b.XOR(A[i], Y[i]), c)
            c = b.OR(b.AND(A[i], Y[i]), b.AND(c, b.XOR(A[i], Y[i])))
            out.append(s)
        return out
    if op in ("Sltu", "Slt"):
        # a < b unsigned: scan from LSB
        lt = 0
        for i in range(W):
            ai, bi = A[i], Bv[i]
            if op == "Slt" and i == W - 1:
                ai, bi = Bv[i], A[i]  # sign bit: a negative & b positive -> a < b
            lt = b.ite(b.XOR(ai, bi), b.AND(b.NOT(ai), bi), lt)
        return [lt]
    if op in ("Sll", "Srl", "Sra"):
        x = list(A)
        for k in range(5):
            sh = 1 << k
            sel = Bv[k]
            if op == "Sll":
                shifted = [0] * sh + x[: W - sh]
            elif op == "Srl":
                shifted = x[sh:] + [0] * sh
            else:
                shifted = x[sh:] + [x[W - 1]] * sh
            x = [b.ite(sel, shifted[i], x[i]) for i in range(W)]
        return x
    raise KeyError(op)


def table_functions(b, t):
    """abstract interpretation of the evaluator over BDDs: returns list of output BDDs"""
    outs = []
    for nodes, w in t.bits:
        prev = [0] * w
        nxt = [0] * w
        prev[1] = 1
        levels = [nodes[i:i + w] for i in range(0, len(nodes), w)]
        for lvl in levels[:-1]:
            for j, n in enumerate(lvl):
                if n[0] == "cmux":
                    nxt[j] = b.ite(b.var(n[1]), prev[n[2]], prev[n[3]])
                elif n[0] == "copy":
                    nxt[j] = prev[j]
            prev, nxt = nxt, prev
        n = levels[-1][0]
        outs.append(b.ite(b.var(n[1]), prev[n[2]], prev[n[3]]))
    return outs


def word_of(asg, base):
    v = 0
    for i in range(W):
        v |= (asg.get(base + i, 0) & 1) << i
    return v


def check_functions(p, res, tables, binding):
    """binding: op name -> table uid"""
    total_nodes = 0
    for op, tuid in sorted(binding.items()):
        t = tables.get(tuid)
        if t is None:
            continue
        order = shift_order() if op in ("Sll", "Srl", "Sra") else interleaved_order()
        b = BDD(order)
        ref = reference(b, op)
        if len(ref) != len(t.bits):
            res.bad("BDD-4", t.uid, "arity:%s" % op, "table bound to %s has %d output bits, reference has %d" % (op, len(t.bits), len(ref)))
            continue
        try:
            got = table_functions(b, t)
        except Exception as e:  # malformed table (already reported by BDD-2)
            res.bad("BDD-4", t.uid, "uninterpretable:%s" % op, "table cannot be interpreted: %s" % e)
            continue
        for bit in range(len(ref)):
            if got[bit] == ref[bit]:
                res.ok("BDD-4", {"op": op, "table": t.uid, "bit": bit, "bdd_nodes": b.size()} if bit in (0, len(ref) - 1) and op in ("Add", "Sra") else None)
            else:
                diff = b.XOR(got[bit], ref[bit])
                asg = b.any_sat(diff)
                a = word_of(asg, 0)
                bb = word_of(asg, W)
                res.bad("BDD-4", t.uid, "bit%d:%s" % (bit, op),
                        "output bit %d of the table bound to %s differs from the reference word function, e.g. a=0x%08x b=0x%08x: table gives %d, %s gives %d"
                        % (bit, op, a, bb, b.eval(got[bit], {v: asg.get(v, 0) for v in order}), op.lower(), b.eval(ref[bit], {v: asg.get(v, 0) for v in order})),
                        detail={"a": a, "b": bb, "bit": bit, "op": op})
        total_nodes += b.size()
    return total_nodes


# ---------------------------------------------------------------- BDD-5
def find_binding(p, res):
    """operation trait impl for FheUint<_, u32> -> static referenced by each method"""
    binding = {}
    ops = [(TRAIT_2W + o, o) for o in OPS_2W] + [(TRAIT_1W + "Identity", "Identity")]
    for tuid, op in ops:
        ims = [im for im in p.impls if im["trait"] == tuid and not im["test"]]
        if len(ims) != 1:
            res.bad("BDD-5", tuid, "anchor-lost:impl", "expected one impl of %s (for FheUint<_, u32>), found %d" % (tuid, len(ims)))
            continue
        im = ims[0]
        if "u32" not in str(im["self"]):
            res.bad("BDD-5", tuid, "impl-width", "impl of %s is for %s, the reference functions are 32-bit" % (tuid, im["self"]))
            continue
        statics_by_method = {}
        for name, iu in im["names"].items():
            f = p.fn(iu)
            if f is None:
                continue
            used = set()
            for blk in f.blocks:
                for s in blk["s"]:
                    if s[0] != "A":
                        continue
                    for o in s[2].get("o", []):
                        if o[0] == "k" and "static" in o[1]:
                            used.add(f.duid(o[1]["static"]))
                t = blk["t"]
                if t and t["k"] == "Call":
                    for o in t["a"]:
                        if o[0] == "k" and "static" in o[1]:
                            used.add(f.duid(o[1]["static"]))
            statics_by_method[name] = used
        allused = set().union(*statics_by_method.values()) if statics_by_method else set()
        if len(statics_by_method) < 2:
            res.bad("BDD-5", tuid, "methods", "impl of %s has %d methods with bodies" % (tuid, len(statics_by_method)))
            continue
        bad = False
        for m, used in sorted(statics_by_method.items()):
            if len(used) != 1:
                res.bad("BDD-5", tuid, "method:%s" % m, "method %s of %s references %d circuit tables %s (exactly one expected)" % (m, op, len(used), sorted(used)))
                bad = True
        if len(allused) != 1:
            if not bad:
                res.bad("BDD-5", tuid, "mixed-tables", "methods of %s reference different tables: %s" % (op, {m: sorted(u) for m, u in statics_by_method.items()}))
            # still verify each functional method against the reference below using the evaluation method's table
        main = statics_by_method.get(op.lower()) or set()
        mt = statics_by_method.get(op.lower() + "_multi_thread") or main
        if len(main) == 1:
            binding[op] = list(main)[0]
            if mt and mt != main:
                binding[op + "#multi_thread"] = list(mt)[0]
            res.ok("BDD-5", {"op": op, "table": list(main)[0], "methods": sorted(statics_by_method)})
    return binding


def check_info_impls(p, res, tables):
    """BitCircuitInfo::info of every family returns (nodes, max_inter_state) of the matched variant."""
    fams = {t.family for t in tables.values()}
    n = 0
    for im in p.impls:
        if not (im["trait"] or "").endswith("eval::BitCircuitInfo") or im["test"]:
            continue
        sadt = im["self_ty"].get("adt")
        if sadt is None:
            continue
        su = im["cr"].defs[sadt]["u"]
        f = p.fn(im["names"].get("info", ""))
        if f is None:
            continue
        if su not in fams and not su.endswith("eval::BitCircuit"):
            continue
        n += 1
        flow = Flow(f)
        fkey = su + "::info"
        # every assignment to _0 is a tuple (as_ref(&X.nodes), X.max_inter_state) over the same X
        for bi, blk in enumerate(f.blocks):
            if blk["c"]:
                continue
            for s in blk["s"]:
                if s[0] == "A" and s[1] == [0] and s[2]["k"] == "Agg":
                    o = s[2]["o"]
                    if len(o) != 2:
                        res.bad("BDD-3", fkey, "info-shape", "info() does not return a pair")
                        continue
                    r0 = flow.op_roots(o[0])
                    r1 = flow.op_roots(o[1])
                    p0 = set()
                    for r in r0:
                        if r[0] == "call":
                            t = f.blocks[r[1]]["t"]
                            for r2 in flow.op_roots(t["a"][0]):
                                if r2[0] == "param":
                                    p0.add(r2[2])
                    p1 = {r[2] for r in r1 if r[0] == "param"}
                    good = len(p0) == 1 and len(p1) == 1
                    if good:
                        a, = p0
                        b2, = p1
                        good = a[-1:] == ("nodes",) and b2[-1:] == ("max_inter_state",) and a[:-1] == b2[:-1]
                    if not good:
                        res.bad("BDD-3", fkey, "info-fields", "info() does not return (nodes, max_inter_state) of one and the same bit circuit: %s / %s" % (sorted(p0), sorted(p1)), site=f.where(s[3]))
                    else:
                        res.ok("BDD-3")
    res.floor("BDD-3", "BitCircuitInfo::info impls", n, 12)


def run(res, tier):
    res.level = "proof"
    res.explanation = ("Every shipped circuit table is read from the type-checked static initialisers, checked for well-formedness, "
                       "interpreted level by level over ROBDDs (all 2^64 inputs symbolically) under the evaluator semantics that is itself "
                       "matched against MIR of eval_level / get_bit, and compared with the reference RISC-V word function of the operation "
                       "trait whose impl references the table.")
    res.rule("BDD-1", "every static of type Circuit<_,_> parses as Circuit([Variant(BitCircuit::new([Node..], width))..]) with integer literals only")
    res.rule("BDD-2", "indices in range, width covers every level, last chunk [Cmux, None..], strict def-before-use (level L reads only slots written at L-1; level 0 reads slots 0,1)")
    res.rule("BDD-3", "MIR of eval_level/get_bit/info agrees with the interpreter's transfer function")
    res.rule("BDD-4", "for every (circuit, output bit): ROBDD of the table == ROBDD of the reference word function")
    res.rule("BDD-5", "each operation trait impl for FheUint<_,u32> references exactly one table in all of its methods")
    res.rule("BDD-0", "ROBDD package self-check against truth tables")
    res.trusted = ["rustc 1.97-nightly front end (HIR/MIR)", "pz-mir fact emitter", "pzrules/robdd.py (self-checked each run)", "reference word functions in pzrules/c13.py"]
    res.assumptions = ["cmux(res, hi, lo, bit) selects hi when the GGSW bit is 1 (C04, not decided here)",
                       "thread partition hands output bit i the circuit i (THR-4, decided under C20)"]
    cfgs = ["avx-dev"] if tier == "quick" else ["avx-dev", "ref-dev"]
    import os
    seed = int(os.environ.get("VERIF_SEED", "1") or 1)
    okb, n = selfcheck(seed=seed, rounds=10 if tier == "quick" else 60, nvars=8)
    if okb:
        res.ok("BDD-0", {"truth-table comparisons": n})
    else:
        res.bad("BDD-0", "robdd", "selfcheck", "ROBDD package disagrees with truth tables")
    for cfg in cfgs:
        p = facts.load(cfg)
        res.configs.append(p.build_info)
        tables = extract_tables(p, res)
        res.floor("BDD-1", "circuit tables", len(tables), 11)
        for t in tables.values():
            if wellformed(t, res):
                res.ok("BDD-2", None, n=len(t.bits))
        check_evaluator(p, res)
        check_get_bit(p, res)
        check_info_impls(p, res, tables)
        binding = find_binding(p, res)
        res.floor("BDD-5", "operation bindings", len([k for k in binding if "#" not in k]), 11)
        bound = set(binding.values())
        for tu in tables:
            if tu not in bound:
                res.notes.append("table %s is not referenced by any operation impl (not an error)" % tu)
        nodes = check_functions(p, res, tables, binding)
        res.extra["bdd_nodes_total"] = nodes
        res.extra["tables"] = {t.uid: {"bits": len(t.bits), "input_bits": t.input_bits, "cmux_nodes": sum(1 for b in t.bits for n in b[0] if n[0] == "cmux")} for t in tables.values()}
        res.fn_count += 3 + len(tables)
        # output bit i must be produced by circuit i: in the multi-threaded evaluators this is the exact-partition index identity (shared with C20)
        from . import c20
        if "THR-4" not in res.rules:
            res.rule("THR-4", "output bit i is filled by circuit i in the multi-threaded evaluators: work-item index = lo + thread*chunk + local with chunk = items.div_ceil(threads) (shared with C20)")
        c20.thr4(p, res)
    res.extra["exhaustive"] = True
