"""C02 — noise-free ciphertext operations: operands of different ranks / limb counts, zero-fill of unused columns, in-place twins (thin claim)."""
from . import facts, wr
from .cfg import CFG, Flow
from .c11 import wr1, wr2, col1

C02_FILES = ("reference/vec_znx/add.rs", "reference/vec_znx/sub.rs", "reference/vec_znx/rotate.rs", "reference/vec_znx/shift.rs", "reference/vec_znx/normalize.rs",
             "reference/vec_znx/negate.rs", "reference/vec_znx/copy.rs", "reference/vec_znx/mul_xp_minus_one.rs", "reference/vec_znx/zero.rs")


def in_c02(f):
    return any(f.file.endswith(x) for x in C02_FILES)


def stem(n):
    if not n.startswith("vec_znx_"):
        return None
    n = n[len("vec_znx_"):]
    for suf in ("_into", "_assign"):
        if n.endswith(suf):
            n = n[: -len(suf)]
    return n


def sib1(p, res):
    """each `X_assign` core operation calls the in-place twins of the HAL operations its out-of-place sibling `X` calls"""
    n = 0
    fns = {}
    for f in p.lib_fns():
        if f.uid.startswith(("poulpy_core::api::operations", "poulpy_core::operations")) and f.kind != "Closure":
            fns.setdefault((f.in_trait or f.impl_uid, f.name), f)

    def hal(f):
        out = set()
        bodies = [f] + p.closures_of(f)
        for b in bodies:
            for bi, t in b.calls():
                d = b.callee_def(t) or {}
                if d.get("u", "").startswith("poulpy_hal::api::vec_znx") and stem(d.get("n", "")):
                    out.add((stem(d["n"]), d["n"].endswith("_assign")))
        return out
    for (owner, name), f in sorted(fns.items(), key=lambda x: repr(x[0])):
        if not name.endswith("_assign"):
            continue
        twin = fns.get((owner, name[: -len("_assign")])) or fns.get((owner, name[: -len("_assign")] + "_into"))
        if twin is None:
            continue
        a, b = hal(f), hal(twin)
        if not a or not b:
            continue
        n += 1
        sa = {s for s, _ in a}
        sb = {s for s, _ in b}
        core = sa - {"copy", "zero", "normalize"}
        if core and not core <= sb:
            res.bad("SIB-1", f.pretty, "twin-mismatch", "%s uses HAL operation(s) %s, its out-of-place sibling %s uses %s" % (f.pretty, sorted(core), twin.name, sorted(sb)), site=f.where())
        elif any(not ia for s, ia in a if s in core):
            bad = sorted(s for s, ia in a if s in core and not ia)
            res.undec("SIB-1", "%s calls out-of-place HAL forms %s" % (f.pretty, bad))
        else:
            res.ok("SIB-1", {"assign": f.pretty, "twin": twin.name, "hal_ops": sorted(core)})
    return n


def col3(p, res):
    """limb-wise two-operand operations: an operation that hands the limbs of a GLWE operand to a non-normalising vec_znx kernel writing another GLWE object treats limb j of both as
    the same power of the radix; it has to compare the two radices (the add / sub / shift family asserts `res.base2k() == a.base2k()`), otherwise limbs are moved between radices raw"""
    T = ("to_ref", "to_mut", "deref", "deref_mut", "borrow", "as_ref", "as_mut", "into", "from", "clone", "data", "data_mut")
    n = 0
    for f in sorted(p.lib_fns(), key=lambda x: x.uid):
        if not (f.uid.startswith("poulpy_core::operations::") or f.uid.startswith("poulpy_core::api::operations")) or f.kind == "Closure" or not f.blocks:
            continue
        objs = [l for l in range(2, f.argc + 1) if f.local_ty(l).get("r") and "Scratch" not in f.local_ty(l)["s"] and f.local_ty(l)["s"].lstrip("&mut ").strip() not in ("usize", "i64")]
        if len(objs) < 2:
            continue
        hal = [(f.callee_def(t) or {}).get("n", "") for bi, t in f.calls() if (f.callee_def(t) or {}).get("p", "").startswith("poulpy_hal::api::")]
        hal = [x for x in hal if x.startswith("vec_znx")]
        if not hal or any("normalize" in x or "big" in x or "dft" in x for x in hal):
            continue
        # kernels that read one object and write another (not zero / in-place only)
        if not any(not x.endswith("_zero") and x != "vec_znx_zero" for x in hal):
            continue
        flow = Flow(f, transparent=T)
        b2k = {}
        for bi, t in f.calls():
            if (f.callee_def(t) or {}).get("n") == "base2k" and t["a"]:
                for r in flow.op_roots(t["a"][0]):
                    if r[0] == "param":
                        b2k.setdefault(bi, set()).add(r[1])
        cmp = False
        for bi, t in f.calls():
            if (f.callee_def(t) or {}).get("n") in ("eq", "ne") and len(t["a"]) == 2:
                sides = []
                for a in t["a"]:
                    ps = set()
                    for r in flow.op_roots(a):
                        if r[0] == "call" and r[1] in b2k:
                            ps |= b2k[r[1]]
                    sides.append(ps)
                if sides[0] and sides[1] and sides[0] != sides[1]:
                    cmp = True
        n += 1
        if cmp:
            res.ok("COL-3", {"op": f.pretty, "kernels": sorted(set(hal))[:3]} if n % 5 == 1 else None)
        else:
            res.bad("COL-3", f.pretty, "radix-not-compared",
                    "%s moves limbs between two objects with %s and never compares their base2k: with operands of different radix the limbs are copied raw and the phase of the result is "
                    "not the operation applied to the phase of the operand (the add / sub / shift family asserts equality)" % (f.pretty, "/".join(sorted(set(hal))[:3])), site=f.where())
    return n


def sib3(p, res):
    """the accumulate-subtract forms of the shifts (`vec_znx_lsh_sub`, `vec_znx_rsh_sub`) leave through the same trivial-case guards as the forms they mirror (`vec_znx_lsh`,
    `vec_znx_rsh`): a decision one of whose arms returns without touching the carry chain compares the same two expressions in both siblings (same parameter order).  A guard
    that is weaker in one sibling skips limbs of `a` that the other one still moves into the result."""
    from .sym import Sym
    from . import sc
    n = 0
    fns = {f.name: f for f in p.lib_fns() if f.blocks and f.kind != "Closure" and f.uid.startswith("poulpy_cpu_ref::reference::vec_znx::shift::")}

    def canon(f, sym, pl, depth=0):
        """rendering that does not depend on block numbers: a call is its callee and its arguments"""
        import re
        txt = repr(pl)
        if depth > 3:
            return txt
        for a in pl.atoms():
            if a[0] == "call" and a[1] == f.uid:
                t = f.blocks[a[2]]["t"]
                nm = (f.callee_def(t) or {}).get("n", "?")
                sub = "%s(%s)%s" % (nm, ", ".join(canon(f, sym, sym.operand(x), depth + 1) for x in t["a"]), "".join("." + str(x) for x in a[3]) if len(a) > 3 else "")
                txt = re.sub(r"call@bb%d(\.[0-9]+)*(?![0-9])" % a[2], lambda m: sub, txt)
        return txt

    def guards(f):
        g = CFG(f)
        flow = Flow(f)
        sym = Sym(f, flow)
        work = {bi for bi, t in f.calls() if "normalize" in (f.callee_def(t) or {}).get("n", "") or (f.callee_def(t) or {}).get("n", "") in ("znx_copy", "znx_sub_assign", "znx_add_assign")}
        out = set()
        for bi, blk in enumerate(f.blocks):
            t = blk["t"]
            if bi not in g.reach or not t or t["k"] != "Switch":
                continue
            for s2 in g.succ[bi]:
                # an arm from which every way to the return avoids the carry chain
                st, seen, clean, returns = [s2], set(), True, False
                while st:
                    b = st.pop()
                    if b in seen:
                        continue
                    seen.add(b)
                    if b in work:
                        clean = False
                        break
                    if b in g.returns:
                        returns = True
                    st.extend(x for x in g.succ[b] if x in g.can_return())
                if clean and returns:
                    for r in flow.op_roots(t["o"]):
                        if r[0] == "bin":
                            stt = f.blocks[r[1]]["s"][r[2]][2]
                            a, b = [canon(f, sym, sym.operand(o)) for o in stt["o"]]
                            op = stt["op"]
                            if op in ("Gt", "Ge") :
                                op, a, b = {"Gt": "Lt", "Ge": "Le"}[op], b, a
                            out.add((op, a, b))
        return out
    for base in ("vec_znx_lsh", "vec_znx_rsh"):
        if base not in fns or base + "_sub" not in fns:
            continue
        n += 1
        ga, gb = guards(fns[base]), guards(fns[base + "_sub"])
        # the overwrite / add form may have more exits (zero fill); every exit of the subtracting form must be one of them, and the trivial-shift exit must exist in both
        if gb and not gb <= ga:
            res.bad("SIB-3", fns[base + "_sub"].pretty, "trivial-case-guard-differs", "%s leaves without touching the carry chain on %s, %s on %s: the guard of the subtracting form is not one "
                    "of its sibling's, so for some shapes one of them drops limbs of `a` that the other still moves into the result"
                    % (fns[base + "_sub"].pretty, sorted(gb), fns[base].pretty, sorted(ga)), site=fns[base + "_sub"].where())
        else:
            res.ok("SIB-3", {"pair": base, "guards": sorted(gb)})
    return n


def run(res, tier):
    res.level = "other"
    res.explanation = ("Only the shape clause of C02 is decided: for the noise-free GLWE operations every column 0..rank of the result is written by a HAL call on every path "
                       "(COL-1, exact over all rank orderings up to bounded arithmetic), the underlying shape functions cover every limb and honour the column arguments (WR-1/WR-2 on "
                       "the C02 anchor files), and each in-place variant calls the in-place twins of the HAL operations of its out-of-place sibling (SIB-1). Linearity of the phase "
                       "map itself is arithmetic and is not decided.")
    res.rule("COL-1", "noise-free core operations: result columns written in range loops whose union covers [0, res.rank()+1) for every assignment of ranks in a grid")
    res.rule("WR-1", "overwrite-type shape functions of the C02 files cover every limb")
    res.rule("WR-2", "column arguments honoured in the C02 files")
    res.rule("SIB-3", "shift siblings (X, X_sub) leave through the same trivial-case guards")
    res.rule("SIB-1", "X_assign uses the in-place twins of the HAL operations of X")
    res.assumptions = ["HAL kernels compute the limb-wise map (C09)", "rank preconditions asserted by the operations hold"]
    cfgs = ["avx-dev"] if tier == "quick" else ["avx-dev", "ref-dev"]
    for cfg in cfgs:
        p = facts.load(cfg)
        res.configs.append(p.build_info)
        nc = col1(p, res)
        res.floor("COL-1", "core noise-free operations", nc, 12)
        from .c11 import nrm1
        res.rule("NRM-1", "shift / normalisation shape functions: the final normalisation step is the last link of a carry chain - no middle or final step receives the same carry afterwards on a feasible path")
        nn = nrm1(p, res)
        res.floor("NRM-1", "shape functions with a final normalisation step", nn, 6)
        from .c11 import nrm2
        res.rule("NRM-2", "right shifts: the number of carry-chain steps equals size(operand) + steps for every operand size, result size and shift (piecewise-linear identity over the loop trip counts)")
        nn2 = nrm2(p, res)
        res.floor("NRM-2", "right-shift shape functions", nn2, 3)
        from .c11 import nrm3
        res.rule("NRM-3", "same-radix normalisation with a signed offset: the number of carry-chain steps equals max(size(operand) - limb_offset, 0) for every operand size, result size and offset")
        nn3 = nrm3(p, res)
        res.floor("NRM-3", "same-radix offset normalisations", nn3, 3)
        from .c11 import wr6
        res.rule("WR-6", "carry buffers of the shift / normalisation shape functions are written before a middle / final step reads them on every feasible path (zero-trip loops, single-limb cases)")
        n6 = wr6(p, res)
        res.floor("WR-6", "shape functions with a carry chain", n6, 6)
        from .c11 import col2
        res.rule("COL-2", "core noise-free operations read an operand at the loop's column index only below the operand's own rank + 1 (bound equal, min-dominated, branch-resolved max, or ranks asserted equal)")
        nc2 = col2(p, res)
        res.floor("COL-2", "read operands indexed by a column loop", nc2, 10)
        n_ow, cov = wr1(p, res, restrict=in_c02)
        res.floor("WR-1", "C02 overwrite-type shape functions", n_ow, 10)
        n2, sites = wr2(p, res, restrict=in_c02)
        res.floor("WR-2", "C02 shape functions with column accessors", n2, 20)
        ns = sib1(p, res)
        res.floor("SIB-1", "assign/out-of-place pairs", ns, 5)
        n3s = sib3(p, res)
        res.floor("SIB-3", "shift sibling pairs", n3s, 2)
        from . import rad
        res.rule("ROW-1", "row accessors of GGSW operations in a row loop: the loop bound stays within the object's dnum() under the comparisons that dominate the access")
        nrow = rad.row1(p, res, ("poulpy_core::operations", "poulpy_core::api::operations"))
        res.floor("ROW-1", "row accessors in row loops", nrow, 6)
        res.rule("COL-3", "limb-wise two-operand GLWE operations (non-normalising vec_znx kernels) compare the radices of the objects they move limbs between")
        n3 = col3(p, res)
        res.floor("COL-3", "limb-wise two-operand operations", n3, 14)
        from . import sign
        res.rule("SIGN-1", "in res = a - b a write from `b` alone negates, a write from `a` alone does not, a write from both is a subtraction with a before b (add family: no negation, both -> add)")
        ns = sign.check(p, res, "SIGN-1", ("poulpy_core::api::operations", "poulpy_core::operations", "poulpy_cpu_ref::reference::vec_znx"))
        res.floor("SIGN-1", "add/sub family functions", ns, 4)
        res.rule("SIGN-2", "a GLWE/GGSW operation that hands a rotation exponent to a rotation kernel skips the kernel only on a test of the exponent modulo 2N (X^N = -1 is not the identity)")
        nsk = sign.check_rotation_skips(p, res, "SIGN-2", ("poulpy_core", "poulpy_cpu_ref::reference::vec_znx"))
        res.floor("SIGN-2", "functions handing a rotation exponent to a rotation kernel", nsk, 10)
        res.fn_count += nc + n_ow + n2
