"""C09 — coefficient-domain ring operations: the documented size rule and exact column (thin claim through WR-1/WR-2 + sibling agreement)."""
from . import facts, wr
from .c11 import wr1, wr2

C09_FILES = ("reference/vec_znx/add.rs", "reference/vec_znx/sub.rs", "reference/vec_znx/negate.rs", "reference/vec_znx/add_scalar.rs", "reference/vec_znx/sub_scalar.rs",
             "reference/vec_znx/rotate.rs", "reference/vec_znx/mul_xp_minus_one.rs", "reference/vec_znx/automorphism.rs", "reference/vec_znx/switch_ring.rs",
             "reference/vec_znx/split_ring.rs", "reference/vec_znx/merge_rings.rs", "reference/vec_znx/copy.rs", "reference/vec_znx/zero.rs",
             "reference/fft64/vec_znx_big.rs", "reference/ntt120/vec_znx_big.rs", "ntt120/vec_znx_big_avx.rs", "ntt120/vec_znx_big.rs")

SIBLING_OPS = ("add_into", "add_small_into", "sub", "sub_small_a", "sub_small_b", "negate", "automorphism", "from_small")


def in_c09(f):
    return any(f.file.endswith(x) for x in C09_FILES)


def sib(p, res):
    """small / FFT64-big / NTT120-big implementations of the same operation have the same WR-1 verdict"""
    memo = {}
    n = 0
    byop = {}
    for f, si in wr.shape_functions(p, ("poulpy_cpu_ref::reference",)):
        if f.is_test():
            continue
        bn = wr.base_name(f.name)
        for op in SIBLING_OPS:
            for fam, key in (("vec_znx_" + op, "small"), ("vec_znx_big_" + op, "big")):
                if bn == fam:
                    famname = "fft64" if "::fft64::" in f.uid else ("ntt120" if "::ntt120::" in f.uid else "small")
                    byop.setdefault(op, {})[(key, famname)] = f
    for op, impls in sorted(byop.items()):
        verdicts = {}
        for k, f in impls.items():
            v = wr.analyse(p, f, memo)
            verdicts[k] = v.kind
        n += 1
        kinds = set(verdicts.values()) - {"undecided"}
        if len(kinds) <= 1:
            res.ok("SIB-2", {"op": op, "verdicts": {"%s/%s" % k: v for k, v in verdicts.items()}})
        else:
            res.bad("SIB-2", "vec_znx[_big]_" + op, "sibling-disagreement", "implementations of %s disagree on output coverage: %s" % (op, {"%s/%s" % k: v for k, v in verdicts.items()}))
    return n


def sign3(p, res):
    """Galois-group arithmetic lives in (Z/2NZ)*: the helpers that compute Galois elements and their inverses reduce, bound and iterate with the cyclotomic order 2N only.
    A ring degree obtained with `n()` may enter only as `2 * n()`; a bound or mask taken from N itself is one bit short exactly for some degrees."""
    from .cfg import Flow
    n = 0
    for f in sorted(p.lib_fns(), key=lambda x: x.uid):
        if f.kind == "Closure" or not f.blocks or not f.uid.startswith("poulpy_hal::layouts::module") or "galois" not in f.name:
            continue
        n += 1
        flow = Flow(f)
        bad = None
        for bi, t in f.calls():
            d = f.callee_def(t) or {}
            if d.get("n") != "n" or not t.get("d"):
                continue
            # every use of the result must be a multiplication by two (or a shift by one)
            dst = t["d"][0]
            carriers = {dst}
            doubled = False
            plain = False
            changed = True
            while changed:
                changed = False
                for blk in f.blocks:
                    for st in blk["s"]:
                        if st[0] != "A":
                            continue
                        rd = [o[1][0] for o in st[2].get("o", []) if o[0] in ("c", "m")]
                        if not (set(rd) & carriers):
                            continue
                        if st[2]["k"] in ("Use", "Cast") and len(st[1]) == 1:
                            if st[1][0] not in carriers:
                                carriers.add(st[1][0])
                                changed = True
                        elif st[2]["k"] == "Bin" and st[2]["op"].replace("WithOverflow", "") in ("Mul", "Shl"):
                            other = [o for o in st[2]["o"] if not (o[0] in ("c", "m") and o[1][0] in carriers)]
                            if other and other[0][0] == "k" and other[0][1].get("v") in (2, 1):
                                doubled = True
                            else:
                                plain = True
                        else:
                            plain = True
                    tt = blk["t"]
                    if tt and tt["k"] == "Call" and any(a[0] in ("c", "m") and a[1][0] in carriers for a in tt["a"]):
                        plain = True
            if plain or not doubled:
                bad = t["l"]
        if bad is not None:
            res.bad("SIGN-3", f.pretty, "degree-instead-of-order",
                    "%s computes in (Z/2NZ)* but uses the ring degree `n()` itself (not `2 * n()` / `cyclotomic_order()`): a mask, bound or iteration count taken from N is one bit short" % f.pretty,
                    site=f.where(bad))
        else:
            res.ok("SIGN-3", {"fn": f.pretty})
    return n


def run(res, tier):
    res.level = "other"
    res.explanation = ("Only the size rule of C09 is decided (extra result limbs zero, extra operand limbs ignored, exact column): WR-1 limb coverage and WR-2 column identity on the "
                       "C09 anchor files, plus agreement of the small, FFT64-big and NTT120-big implementations of add/sub/negate/automorphism on their coverage verdict. "
                       "Index arithmetic mod 2N, group laws and split/merge round trips are arithmetic facts and are not decided.")
    res.rule("WR-1", "overwrite-type shape functions of the C09 files: limb ranges cover [0, res.size()) for every ordering of the operand sizes")
    res.rule("WR-2", "every accessor on operand X of the C09 files uses column X_col")
    res.rule("SIB-2", "small / FFT64-big / NTT120-big siblings agree on the coverage verdict")
    res.assumptions = ["kernels (znx_rotate, znx_automorphism, ...) compute the ring map on one limb: not decided"]
    cfgs = ["avx-dev"] if tier == "quick" else ["avx-dev", "ref-dev"]
    for cfg in cfgs:
        p = facts.load(cfg)
        res.configs.append(p.build_info)
        n_ow, cov = wr1(p, res, restrict=in_c09)
        res.floor("WR-1", "C09 overwrite-type shape functions", n_ow, 26)
        n2, sites = wr2(p, res, restrict=in_c09)
        res.floor("WR-2", "C09 shape functions with column accessors", n2, 40)
        ns = sib(p, res)
        res.floor("SIB-2", "sibling operation groups", ns, 6)
        from .c11 import wr8
        res.rule("WR-8", "inside a for_each over inputs the first operation on a loop-invariant result column is not an overwrite-type operation (ring merging must keep every part)")
        n8 = wr8(p, res)
        res.floor("WR-8", "for_each bodies operating on a result column", n8, 1)
        from .c11 import part1
        res.rule("PART-1", "the closure handling one part of a slice of results bounds its limb loops by that part's own limb count (ring splitting)")
        npt = part1(p, res)
        res.floor("PART-1", "limb loops over a part of a slice of results", npt, 2)
        from . import sign
        res.rule("SIGN-1", "in res = a - b a write from `b` alone negates, a write from `a` alone does not, a write from both is a subtraction with a before b (add family: no negation, both -> add)")
        ns = sign.check(p, res, "SIGN-1", ("poulpy_cpu_ref::reference",))
        res.floor("SIGN-1", "add/sub family functions", ns, 8)
        res.rule("SIGN-2", "negacyclic split kernels (multiplication by X^p through copy/negate of two halves): a path writing with one polarity only is decided by the residue of p modulo 2N, not modulo N alone; a function that hands a rotation exponent to a rotation kernel skips the kernel only on a test of the exponent modulo 2N")
        n2n = sign.check_negacyclic(p, res, "SIGN-2", ("poulpy_cpu_ref::reference", "poulpy_cpu_avx"))
        res.floor("SIGN-2", "negacyclic split kernels", n2n, 1)
        nsk = sign.check_rotation_skips(p, res, "SIGN-2", ("poulpy_cpu_ref::reference", "poulpy_cpu_avx", "poulpy_core"))
        res.floor("SIGN-2", "functions handing a rotation exponent to a rotation kernel", nsk, 4)
        res.rule("SIGN-3", "the Galois-element helpers of poulpy_hal::layouts::module use the ring degree only as 2 * n() / cyclotomic_order()")
        n3 = sign3(p, res)
        res.floor("SIGN-3", "Galois-element helpers", n3, 2)
        from .c10 import bk10
        res.rule("BK-10", "big-accumulator arithmetic of the NTT120 family widens an i64 digit before negating / adding / subtracting it (digits over the whole i64 range)")
        nb10 = bk10(p, res)
        res.floor("BK-10", "i64 -> i128 widenings", nb10, 30, ref_min=20)
        from .c11 import wr9
        from .c07 import in_c07
        res.rule("WR-9", "in-place limb-wise loops (`res[j + r] op= a[j + s]`) of the small and big vector arithmetic run over the whole overlap of the two limb windows")
        n9w = wr9(p, res, restrict=lambda f: not in_c07(f))
        res.floor("WR-9", "in-place limb-wise loops", n9w, 9)
        res.fn_count += n_ow + n2
