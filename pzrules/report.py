"""Verdict bookkeeping: obligations, violations, known findings, evidence files."""
import hashlib
import json
import os
import re
import time

VERIF = os.path.dirname(os.path.dirname(os.path.abspath(__file__)))
KNOWN = os.path.join(VERIF, "known_findings.jsonl")


def load_known():
    known, fixed = {}, {}
    if os.path.exists(KNOWN):
        for line in open(KNOWN):
            line = line.strip()
            if not line or line.startswith("#"):
                continue
            j = json.loads(line)
            if j.get("status") == "fixed":
                fixed[(j["property"], j["key"])] = j
            else:
                known[(j["property"], j["key"])] = j
    return known, fixed


class Result:
    def __init__(self, prop, tier, level="other"):
        self.prop = prop
        self.tier = tier
        self.level = level
        self.t0 = time.time()
        self.rules = {}  # rule id -> dict(text, obligations, discharged, undecided)
        self.violations = []  # dict(rule, key, msg, site, detail)
        self.undecided = []
        self.samples = []
        self.assumptions = []
        self.notes = []
        self.configs = []
        self.fn_count = 0
        self.callsites = 0
        self.explanation = ""
        self.trusted = []
        self.extra = {}

    # ---- registration
    def rule(self, rid, text):
        self.rules.setdefault(rid, {"text": text, "obligations": 0, "discharged": 0, "undecided": 0, "violations": 0})

    def ok(self, rid, what=None, n=1):
        r = self.rules[rid]
        r["obligations"] += n
        r["discharged"] += n
        if what is not None and len([s for s in self.samples if s.get("rule") == rid]) < 4:
            self.samples.append({"rule": rid, "instance": what, "verdict": "holds"})

    def undec(self, rid, what):
        r = self.rules[rid]
        r["undecided"] += 1
        self.undecided.append({"rule": rid, "instance": what})

    def bad(self, rid, fn_key, descriptor, msg, site=None, detail=None):
        """fn_key: stable function identifier (pretty path); descriptor: construct inside it (no line numbers)."""
        r = self.rules[rid]
        r["obligations"] += 1
        r["violations"] += 1
        key = "%s|%s|%s" % (rid, fn_key, descriptor)
        self.violations.append({"rule": rid, "key": key, "msg": msg, "site": site, "detail": detail})

    def floor(self, rid, what, got, expected_min, ref_min=None):
        """fail closed when a rule matches fewer instances than confirmed by hand (ref_min: the count confirmed for the configurations without the AVX crate)"""
        cur = self.configs[-1]["cfg"] if self.configs else ""
        if cur.startswith("ref") and ref_min is not None:
            expected_min = ref_min
        if got < expected_min:
            self.bad(rid, "<floor>", "anchor-lost:%s" % what,
                     "rule %s analysed %d instances of '%s', floor is %d: an anchor no longer resolves" % (rid, got, what, expected_min))

    # ---- output
    def finish(self, evidence_path):
        # a declared rule that met no instance at all passes vacuously: fail closed
        for rid, r in list(self.rules.items()):
            if r["obligations"] == 0 and r.get("undecided", 0) == 0:
                self.bad(rid, "rule", "anchor-lost:vacuous", "rule %s was declared but met no instance on this tree" % rid)
        known, fixed = load_known()
        n_viol = 0
        lines = []
        rdir = os.path.join(VERIF, "reports", self.prop)
        os.makedirs(rdir, exist_ok=True)
        seen_keys = set()
        kf = []
        for v in self.violations:
            if v["key"] in seen_keys:
                continue
            seen_keys.add(v["key"])
            if (self.prop, v["key"]) in known:
                ent = known[(self.prop, v["key"])]
                lines.append("KNOWN-FINDING: property=%s %s -- %s" % (self.prop, v["key"], ent.get("what", v["msg"])))
                kf.append(v["key"])
                continue
            n_viol += 1
            h = hashlib.sha1(v["key"].encode()).hexdigest()[:12]
            name = re.sub(r"[^A-Za-z0-9_.-]+", "_", v["key"])[:80] + "-" + h + ".json"
            path = os.path.join(rdir, name)
            with open(path, "w") as f:
                json.dump({"property": self.prop, "tier": self.tier, **v}, f, indent=1)
            lines.append("VIOLATION property=%s replay=%s" % (self.prop, path))
            lines.append("  rule=%s  %s" % (v["rule"], v["msg"]))
            if v.get("site"):
                lines.append("  at %s" % v["site"])
        obligations = sum(r["obligations"] for r in self.rules.values())
        discharged = sum(r["discharged"] for r in self.rules.values())
        cov = {
            "explanation": self.explanation,
            "obligations": obligations,
            "discharged": discharged,
            "undecided": len(self.undecided),
            "rules": self.rules,
            "configs": self.configs,
            "functions_analysed": self.fn_count,
            "call_sites_visited": self.callsites,
            "samples": self.samples[:40] if self.samples else [{"note": "no instance sampled"}],
            "undecided_instances": self.undecided[:60],
            "known_findings_matched": kf,
            "checker_cmd": "./pzv check %s --tier %s" % (self.prop, self.tier),
            "trusted_base": self.trusted,
            "notes": self.notes,
        }
        cov.update(self.extra)
        ev = {
            "property_id": self.prop,
            "tier": self.tier,
            "seed": int(os.environ.get("VERIF_SEED", "0") or 0),
            "level": self.level,
            "coverage": cov,
            "assumptions": self.assumptions,
            "wall_s": round(time.time() - self.t0, 3),
            "violations": n_viol,
        }
        os.makedirs(os.path.dirname(evidence_path), exist_ok=True)
        with open(evidence_path, "w") as f:
            json.dump(ev, f, indent=1)
        for l in lines:
            print(l)
        print("property=%s tier=%s rules=%d obligations=%d discharged=%d undecided=%d violations=%d known=%d wall=%.1fs" % (
            self.prop, self.tier, len(self.rules), obligations, discharged, len(self.undecided), n_viol, len(kf), time.time() - self.t0))
        return 1 if n_viol else 0
