"""C05 — ciphertext multiplication places the product at the requested torus position (thin claim: the split of the convolution offset).

CNV-1 every convolution-based product of poulpy_core::operations::glwe splits its bit offset `cnv_offset` into a limb offset `hi` (handed to every cnv_* kernel call of the
      function) and an intra-limb offset `lo` (handed to every vec_znx_big_normalize call) with   hi * base2k + lo + base2k == cnv_offset   on every path, for every offset
      and radix (piecewise-linear identity; `lo` is negative when cnv_offset < base2k because the kernels take no negative limb offset)
CNV-2 squaring, multiplying and the accumulating form derive (hi, lo) from the same expressions (sibling agreement of glwe_tensor_square_apply / glwe_tensor_apply /
      glwe_tensor_apply_add_assign)
CNV-3 X_assign and X size the accumulator handed to the convolution kernel from the same quantities (first operand size, second operand size / length, offset)
RAD-1 / RAD-2 (rad.py) relinearisation converts the tensor into the key radix exactly when those two radices differ; no radix-asserting operation is called with operands
      the dominating guards make different
Not decided: the convolution kernels themselves (C07), noise, relinearisation arithmetic beyond the radix decisions, the masks of partially used limbs.
"""
from . import facts, sc, pwl
from .cfg import CFG, Flow
from .sym import Sym, Poly

RAD_PREFIXES = ("poulpy_core::operations", "poulpy_core::api::operations")
CNV_KERNELS = ("cnv_apply_dft", "cnv_pairwise_apply_dft", "cnv_by_const_apply")
T = ("deref", "deref_mut", "borrow", "borrow_mut", "as_mut", "as_ref", "into", "from", "clone", "to_ref", "to_mut")


def sites(p):
    out = []
    for f in sorted(p.lib_fns(), key=lambda x: x.uid):
        if not f.uid.startswith("poulpy_core::operations::glwe") or f.kind == "Closure" or not f.blocks:
            continue
        ks = [(bi, t) for bi, t in f.calls() if (f.callee_def(t) or {}).get("n") in CNV_KERNELS]
        ns = [(bi, t) for bi, t in f.calls() if (f.callee_def(t) or {}).get("n") == "vec_znx_big_normalize"]
        pn = {v: k for k, v in f.param_names().items()}
        if ks and ns and "cnv_offset" in pn:
            out.append((f, ks, ns, pn["cnv_offset"]))
    return out


def cnv1(p, res):
    n = 0
    shapes = {}
    for f, ks, ns, off_param in sites(p):
        g = CFG(f)
        paths = sc.returning_paths(f, g, cap=600, unroll=1)
        if not paths:
            res.undec("CNV-1", "%s: too many paths" % f.pretty)
            continue
        n += 1
        bad = None
        checked = 0
        reps = {}
        for path in paths:
            pos = set(path)
            kk = [(bi, t) for bi, t in ks if bi in pos]
            nn = [(bi, t) for bi, t in ns if bi in pos]
            if not kk or not nn:
                continue
            sym = Sym(f, sc.PathFlow(f, path))
            his = {sym.operand(t["a"][1]).key() for bi, t in kk}
            los = {sym.operand(t["a"][3]).key() for bi, t in nn}
            conds = tuple(sorted(repr(sc.norm_cond(k, t)) for k, t in sc.path_conditions(f, g, path, sym) if k[0] == "cmp"))
            reps.setdefault((tuple(sorted(map(repr, his))), tuple(sorted(map(repr, los))), conds), (path, sym, his, los))
        for (hk, lk, ck), (path, sym, his, los) in reps.items():
            if len(his) != 1 or len(los) != 1:
                bad = bad or {"reason": "the convolution kernels / normalisations of one path do not all receive the same offset", "hi": list(hk), "lo": list(lk)}
                continue
            hi, lo = Poly(dict(list(his)[0])), Poly(dict(list(los)[0]))
            off = Poly.atom(("p", off_param, ()))
            conds = [sc.norm_cond(k, t) for k, t in sc.path_conditions(f, g, path, sym)]
            # the radix: the quantity cnv_offset is compared with
            radix = None
            for c in conds:
                if c[0] == "cmp":
                    for x, y in ((c[2], c[3]), (c[3], c[2])):
                        if x == off.key():
                            radix = Poly(dict(y))
            if radix is None:
                continue
            checked += 1
            for val in pwl.valuations(count=1500, hi=70):
                ev = pwl.Eval(p, val)
                ev.syms[f.uid] = sym
                try:
                    b = ev.poly(radix)
                    o = ev.poly(off)
                    if b < 1:
                        continue
                    ok = True
                    for c in conds:
                        if c[0] != "cmp":
                            continue
                        x, y = ev.key(c[2]), ev.key(c[3])
                        if not {"Eq": x == y, "Ne": x != y, "Lt": x < y, "Le": x <= y, "Gt": x > y, "Ge": x >= y}[c[1]]:
                            ok = False
                            break
                    if not ok:
                        continue
                    h, l = ev.poly(hi), ev.poly(lo)
                except (pwl.ErrPath, ZeroDivisionError):
                    continue
                if h * b + l + b != o and bad is None:
                    bad = {"cnv_offset": o, "base2k": b, "hi": h, "lo": l, "reason": "hi * base2k + lo + base2k != cnv_offset"}
            shapes[f.name] = (repr(hi), repr(lo))
        if bad:
            res.bad("CNV-1", f.pretty, "offset-split",
                    "%s splits cnv_offset = %s at base2k = %s into a limb offset %s and a bit offset %s (%s): the product lands %s bit(s) away from the requested torus position"
                    % (f.pretty, bad.get("cnv_offset"), bad.get("base2k"), bad.get("hi"), bad.get("lo"), bad["reason"],
                       (bad["hi"] * bad["base2k"] + bad["lo"] + bad["base2k"] - bad["cnv_offset"]) if "cnv_offset" in bad else "?"), site=f.where(), detail=bad)
        elif checked:
            res.ok("CNV-1", {"fn": f.pretty, "paths": checked, "law": "hi * base2k + lo + base2k == cnv_offset"})
        else:
            res.undec("CNV-1", "%s: offset split not recognised" % f.pretty)
    return n, shapes


def cnv3(p, res):
    """in-place and out-of-place forms of one convolution product (X_assign(res, b) == X(res, res, b)) size the accumulator they hand to the convolution kernel from the same
    quantities: first operand's limb count, second operand's limb count / length, convolution offset.  (A product accumulator sized from the result alone cuts the low product limbs
    before the intra-limb shift of the normalisation.)  Dependence sets are compared after mapping the operands to roles."""
    n = 0
    byname = {}
    for f, ks, ns, off_param in sites(p):
        byname[f.name] = (f, ks)
    pairs = [(name, name[:-7], True) for name in sorted(byname) if name.endswith("_assign") and name[:-7] in byname]
    # the accumulating tensor product has the operands of the plain one (res is only a destination in both)
    pairs += [(acc, base, False) for acc, base in (("glwe_tensor_apply_add_assign", "glwe_tensor_apply"),) if acc in byname and base in byname]
    for name, base, first_in_place in pairs:
        fa, ka = byname[name]
        fo, ko = byname[base]
        n += 1

        def dep_roles(f, ks, inplace):
            flow = Flow(f, transparent=T + ("data", "data_mut"))
            plain = Flow(f)
            pn = f.param_names()
            # operands in declaration order: GLWE-like parameters that reach a convolution kernel argument
            order = []
            roles = {}
            for l in sorted(pn):
                if pn[l] in ("self", "scratch", "cnv_offset"):
                    continue
                order.append(l)
            # out-of-place: (res, a, b...) -> res is only a destination; in-place: (res, b...) -> res is the first operand
            ops = [l for l in order if not (pn[l] == "res" and not inplace)]
            ops = [l for l in ops if not pn[l].endswith("effective_k")]
            for i, l in enumerate(ops):
                roles[l] = "operand%d" % (i + 1)
            for l in pn:
                if pn[l] == "cnv_offset":
                    roles[l] = "offset"
            out = set()
            seen = set()

            def walk(op, depth=0):
                if depth > 12 or op[0] not in ("c", "m"):
                    return
                for r in plain.op_roots(op):
                    key = (r[0], r[1], r[2] if len(r) > 2 else None)
                    if key in seen:
                        continue
                    seen.add(key)
                    if r[0] == "param":
                        if r[1] in roles:
                            out.add(roles[r[1]])
                    elif r[0] == "bin":
                        for o in f.blocks[r[1]]["s"][r[2]][2]["o"]:
                            walk(o, depth + 1)
                    elif r[0] == "call":
                        for o in f.blocks[r[1]]["t"]["a"]:
                            walk(o, depth + 1)
                    elif r[0] == "agg":
                        for o in f.blocks[r[1]]["s"][r[2]][2].get("o", []):
                            walk(o, depth + 1)
            sizes = []
            for bi, t in ks:
                # the kernel's result operand (argument 2) is the payload of a take_* call: its size is the last argument of the take
                for r in flow.op_roots(t["a"][2]):
                    if r[0] == "call":
                        t2 = f.blocks[r[1]]["t"]
                        if (f.callee_def(t2) or {}).get("n", "").startswith("take_") and t2["a"]:
                            sizes.append(t2["a"][-1])
            for o in sizes:
                walk(o)
            return out, bool(sizes)
        da, oka = dep_roles(fa, ka, first_in_place)
        do, oko = dep_roles(fo, ko, False)
        if not oka or not oko:
            res.undec("CNV-3", "%s / %s: the accumulator is not a scratch temporary" % (fa.pretty, fo.name))
        elif da == do:
            res.ok("CNV-3", {"pair": "%s / %s" % (fo.name, fa.name), "accumulator_size_depends_on": sorted(da)})
        else:
            res.bad("CNV-3", fa.pretty, "accumulator-size-dependence",
                    "%s sizes the accumulator of its convolution from %s, the out-of-place form %s from %s: the in-place form keeps another number of product limbs (limbs of the "
                    "product below the result are cut before the intra-limb shift)" % (fa.pretty, sorted(da), fo.name, sorted(do)), site=fa.where())
    return n


def run(res, tier):
    res.level = "other"
    res.explanation = ("Only the split of the convolution offset is decided: each of the seven convolution-based products of poulpy-core derives a limb offset and an intra-limb offset from "
                       "`cnv_offset`, hands the first to every convolution kernel and the second to every big normalisation of the function, and the two recombine to cnv_offset - base2k "
                       "for every offset and radix on every path (piecewise-linear identity over the expressions extracted from MIR); squaring, multiplying and accumulating derive "
                       "them from the same expressions. The convolution kernels, masks, relinearisation and noise are not decided.")
    res.rule("CNV-1", "hi * base2k + lo + base2k == cnv_offset on every path; all cnv_* calls of a product receive hi, all vec_znx_big_normalize calls receive lo")
    res.rule("CNV-2", "glwe_tensor_square_apply, glwe_tensor_apply and glwe_tensor_apply_add_assign derive (hi, lo) from the same expressions")
    res.rule("CNV-3", "in-place / out-of-place forms of a convolution product size the product accumulator from the same quantities (operand limb counts, offset)")
    res.rule("UNIT-1", "comparisons, min and max between limb counts, key row counts and bit precisions (limbs = rows * dsize, bits = limbs * base2k) relate quantities of the same unit")
    res.rule("RAD-1", "a cross-radix conversion skipped / taken on a radix comparison is guarded by the comparison of exactly its input and output radices (relinearisation)")
    res.rule("RAD-2", "no call of an operation asserting equal radices of two arguments sits on a branch whose guards imply that they differ")
    res.assumptions = ["cnv_* kernels shift the product by `hi` limbs and vec_znx_big_normalize by `lo` bits (C07 / C08)", "a convolution output sits one limb below the sum of the operand positions (the `+ base2k` of the law is read off the code, the same in all seven products)"]
    cfgs = ["avx-dev"] if tier == "quick" else ["avx-dev", "ref-dev"]
    for cfg in cfgs:
        p = facts.load(cfg)
        res.configs.append(p.build_info)
        n, shapes = cnv1(p, res)
        res.floor("CNV-1", "convolution-based products", n, 7)
        fam = [shapes.get(x) for x in ("glwe_tensor_square_apply", "glwe_tensor_apply", "glwe_tensor_apply_add_assign")]
        if all(fam):
            norm = {tuple(s.replace("arg%d" % i, "argX") for s in sh for i in range(1, 9)) for sh in fam}
            if len({sh for sh in fam}) == 1 or len(set(fam)) == 1:
                res.ok("CNV-2", {"shape": fam[0]})
            else:
                res.bad("CNV-2", "poulpy_core::operations::glwe", "tensor-family-split-differs", "square / multiply / accumulate derive the offset split differently: %s" % (fam,))
        else:
            res.undec("CNV-2", "tensor family not found")
        from .c11 import wr2c
        res.rule("WR-2", "raw column offsets of the convolution kernels: an index into X.raw() computed from a column argument uses the limb count of X itself")
        n2c = wr2c(p, res)
        res.floor("WR-2", "raw column offsets", n2c, 2)
        n3 = cnv3(p, res)
        res.floor("CNV-3", "in-place / out-of-place product pairs", n3, 2)
        from . import rad
        nr1 = rad.rad1(p, res, RAD_PREFIXES)
        res.floor("RAD-1", "guarded radix conversions of the products", nr1, 2)
        nr2 = rad.rad2(p, res, RAD_PREFIXES)
        res.floor("RAD-2", "calls of radix-asserting operations", nr2, 2)
        nu = rad.unit1(p, res, RAD_PREFIXES + ("poulpy_ckks",))
        res.floor("UNIT-1", "comparisons / min / max between quantities of known units", nu, 10)
        res.fn_count += n
