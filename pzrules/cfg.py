"""CFG utilities over MIR-lite: normal CFG, dominators, post-dominators, loops, value origins."""
from collections import defaultdict

DIVERGING_NAMES = {
    "panic", "panic_fmt", "panic_nounwind", "assert_failed", "assert_failed_inner", "panic_const_add_overflow",
    "unreachable_display", "panic_display", "panic_explicit", "begin_panic", "expect_failed", "unwrap_failed",
    "panic_bounds_check", "abort", "exit", "unimplemented", "todo",
}


class CFG:
    def __init__(self, fn):
        self.fn = fn
        B = fn.blocks
        n = len(B)
        self.n = n
        self.succ = [[] for _ in range(n)]
        self.pred = [[] for _ in range(n)]
        self.returns = []
        self.sinks = []  # diverging (panic) blocks
        for i, b in enumerate(B):
            if b["c"]:
                continue
            t = b["t"]
            if t is None:
                continue
            k = t["k"]
            s = []
            if k == "Goto":
                s = [t["t"]]
            elif k == "Switch":
                s = [x[1] for x in t["ts"]] + [t["else"]]
            elif k == "Call":
                if t["t"] is not None:
                    s = [t["t"]]
                else:
                    self.sinks.append(i)
            elif k in ("Assert", "Drop"):
                s = [t["t"]]
            elif k == "Return":
                self.returns.append(i)
            elif k in ("Unreachable", "Resume", "Terminate"):
                self.sinks.append(i)
            else:
                self.sinks.append(i)
            seen = []
            for x in s:
                if x is not None and x not in seen and not B[x]["c"]:
                    seen.append(x)
            self.succ[i] = seen
        for i in range(n):
            for s in self.succ[i]:
                self.pred[s].append(i)
        # reachability from entry
        self.reach = self._reach([0], self.succ)
        self._dom = None
        self._pdom = None
        self._loops = None
        self._can_return = None

    @staticmethod
    def _reach(starts, edges):
        seen = set(starts)
        st = list(starts)
        while st:
            x = st.pop()
            for y in edges[x]:
                if y not in seen:
                    seen.add(y)
                    st.append(y)
        return seen

    def can_return(self):
        if self._can_return is None:
            self._can_return = self._reach(list(self.returns), self.pred)
        return self._can_return

    # ---------- dominators (iterative set algorithm; bodies are small) ----------
    def dom(self):
        if self._dom is None:
            self._dom = self._dominators(0, self.succ, self.pred, self.reach)
        return self._dom

    @staticmethod
    def _dominators(entry, succ, pred, nodes):
        nodes = set(nodes)
        allset = frozenset(nodes)
        dom = {x: allset for x in nodes}
        dom[entry] = frozenset([entry])
        # reverse post-order
        order = []
        seen = set()

        def dfs(s):
            stack = [(s, iter(succ[s]))]
            seen.add(s)
            while stack:
                node, it = stack[-1]
                adv = False
                for y in it:
                    if y in nodes and y not in seen:
                        seen.add(y)
                        stack.append((y, iter(succ[y])))
                        adv = True
                        break
                if not adv:
                    order.append(node)
                    stack.pop()

        dfs(entry)
        rpo = list(reversed(order))
        changed = True
        while changed:
            changed = False
            for x in rpo:
                if x == entry:
                    continue
                ps = [p for p in pred[x] if p in nodes and p in seen]
                if not ps:
                    continue
                new = None
                for p in ps:
                    new = dom[p] if new is None else (new & dom[p])
                new = new | frozenset([x])
                if new != dom[x]:
                    dom[x] = new
                    changed = True
        return dom

    def dominates(self, a, b):
        """block a dominates block b"""
        d = self.dom()
        return b in d and a in d[b]

    def pdom(self, skip_loop_exit=False):
        """post-dominators on the normal CFG w.r.t. *returning* paths.
        Returns dict block -> frozenset of blocks that post-dominate it (virtual exit = -1)."""
        key = "_pdom_dw" if skip_loop_exit else "_pdom"
        cached = getattr(self, key, None) if key == "_pdom" else self.__dict__.get(key)
        if cached is not None:
            return cached
        cr = self.can_return() & self.reach
        EXIT = -1
        succ = defaultdict(list)
        pred = defaultdict(list)
        edges = self.dowhile_succ() if skip_loop_exit else self.succ
        for x in cr:
            for y in edges[x]:
                if y in cr:
                    succ[y].append(x)  # reversed graph: "succ" of y is x
                    pred[x].append(y)
        for r in self.returns:
            if r in cr:
                succ[EXIT].append(r)
                pred[r].append(EXIT)
        nodes = set(cr) | {EXIT}
        res = self._dominators(EXIT, succ, pred, nodes)
        if key == "_pdom":
            self._pdom = res
        else:
            self.__dict__[key] = res
        return res

    def postdominates(self, a, b, dowhile=False):
        """block a post-dominates block b (on returning paths)"""
        p = self.pdom(dowhile)
        return b in p and a in p[b]

    # ---------- natural loops ----------
    def loops(self):
        """list of dict(header, body:set, latches:list, exits:list of (from,to))"""
        if self._loops is not None:
            return self._loops
        dom = self.dom()
        loops = {}
        for x in self.reach:
            for h in self.succ[x]:
                if h in dom.get(x, ()):  # back edge x -> h
                    body = loops.setdefault(h, {"header": h, "body": {h}, "latches": []})
                    body["latches"].append(x)
                    st = [x]
                    while st:
                        y = st.pop()
                        if y not in body["body"]:
                            body["body"].add(y)
                            st.extend(self.pred[y])
        out = []
        for h, l in loops.items():
            ex = []
            for b in l["body"]:
                for s in self.succ[b]:
                    if s not in l["body"]:
                        ex.append((b, s))
            l["exits"] = ex
            out.append(l)
        out.sort(key=lambda l: len(l["body"]))
        self._loops = out
        return out

    def innermost_loop(self, bb):
        for l in self.loops():  # sorted by size: first hit is innermost
            if bb in l["body"]:
                return l
        return None

    def dowhile_succ(self):
        """Successor map where, for every natural loop whose *header* has an exit edge
        (the `Iterator::next` + discriminant switch of a `for`), that exit edge is removed from
        the header and re-attached to every latch: the body is assumed to run at least once."""
        succ = [list(s) for s in self.succ]
        for l in self.loops():
            h = l["header"]
            # the switch that leaves the loop may sit a few straight-line blocks after the header
            hx = [(a, b) for (a, b) in l["exits"] if self._straight_from(h, a, l)]
            if not hx:
                continue
            inner = [s for s in self.succ[hx[0][0]] if s in l["body"]]
            if not inner:
                continue
            for a, b in hx:
                succ[a] = [s for s in succ[a] if s != b]
                for lt in l["latches"]:
                    if b not in succ[lt]:
                        succ[lt] = [s for s in succ[lt] if s != h] + [b]
                        # keep the back edge too so the loop structure stays connected
                        succ[lt].append(h)
        return succ

    def _straight_from(self, h, a, l):
        x = h
        seen = set()
        while x != a:
            if x in seen:
                return False
            seen.add(x)
            ss = [s for s in self.succ[x]]
            if len(ss) != 1:
                return False
            x = ss[0]
        return True


def place_local(p):
    return p[0]


def op_place(op):
    if op[0] in ("c", "m"):
        return op[1]
    return None


def op_const(op):
    if op[0] == "k":
        return op[1]
    return None


class Flow:
    """Definition sites and backward origin slices for one body."""

    def __init__(self, fn, transparent=()):
        self.fn = fn
        self.transparent = set(transparent)  # callee names whose result is treated as a copy of their first argument
        self.defs = defaultdict(list)  # local -> list of ("stmt", bb, i, place, rv) | ("call", bb, term)
        for bi, b in enumerate(fn.blocks):
            if b["c"]:
                continue
            for si, s in enumerate(b["s"]):
                if s[0] == "A":
                    # `(*p).f = v` / `(*p)[i] = v` store through p; they do not define p
                    if "*" in s[1][1:]:
                        continue
                    self.defs[s[1][0]].append(("stmt", bi, si, s[1], s[2]))
            t = b["t"]
            if t and t["k"] == "Call":
                self.defs[t["d"][0]].append(("call", bi, t))

    def roots(self, local, proj=(), depth=0, seen=None):
        """Backward slice of a local. Returns a set of roots:
        ("param", local, path) | ("call", bb, path) | ("const", value-or-None, string) |
        ("agg", bb, si, path) | ("bin", bb, si) | ("static", uid) | ("other", bb, si)
        `path` = tuple of field names selected on the way from the root value to the use."""
        if seen is None:
            seen = set()
        key = (local, tuple(proj))
        if key in seen or depth > 40:
            return set()
        seen.add(key)
        fn = self.fn
        out = set()
        if 1 <= local <= fn.argc:
            out.add(("param", local, tuple(proj)))
        ds = self.defs.get(local, [])
        if not ds and not (1 <= local <= fn.argc):
            if local == 0:
                return out
            out.add(("undef", local, tuple(proj)))
        for d in ds:
            if d[0] == "call":
                if len(d[2]["d"]) == 1:
                    nm = (fn.callee_def(d[2]) or {}).get("n")
                    if nm in self.transparent and d[2]["a"]:
                        # Try::branch -> Continue(v): drop the payload selector, keep deeper fields
                        sub = tuple(proj)
                        if nm == "branch" and sub[:1] == ("0",):
                            sub = sub[1:]
                        out |= self.op_roots(d[2]["a"][0], sub, depth + 1, seen)
                    else:
                        out.add(("call", d[1], tuple(proj)))
                continue
            _, bi, si, pl, rv = d
            if len(pl) > 1:
                # partial assignment (field store): treat as contributing root only for that field
                fields = tuple(x[2] for x in pl[1:] if isinstance(x, list) and x[0] == "f")
                if proj and fields and proj[: len(fields)] != fields:
                    continue
                sub = tuple(proj[len(fields):]) if fields and proj[: len(fields)] == fields else tuple(proj)
                out |= self._rv_roots(rv, bi, si, sub, depth, seen)
                continue
            out |= self._rv_roots(rv, bi, si, tuple(proj), depth, seen)
        return out

    def _rv_roots(self, rv, bi, si, proj, depth, seen):
        k = rv["k"]
        if k == "Use" or k == "Cast":
            return self.op_roots(rv["o"][0], proj, depth + 1, seen)
        if k in ("Ref", "RawPtr"):
            return self.place_roots(rv["p"], proj, depth + 1, seen)
        if k == "Agg":
            ak = rv.get("ak")
            if ak in ("Tuple", "Adt") and proj:
                # select the field
                names = rv.get("fields") or [str(i) for i in range(len(rv["o"]))]
                f0 = proj[0]
                if f0 in names:
                    return self.op_roots(rv["o"][names.index(f0)], proj[1:], depth + 1, seen)
            return {("agg", bi, si, tuple(proj))}
        if k == "Bin" or k == "Un":
            return {("bin", bi, si)}
        return {("other", bi, si)}

    def place_roots(self, p, proj=(), depth=0, seen=None):
        fields = []
        for x in p[1:]:
            if isinstance(x, list) and x[0] == "f":
                fields.append(x[2])
            elif isinstance(x, list) and x[0] == "dc":
                continue
        return self.roots(p[0], tuple(fields) + tuple(proj), depth, seen)

    def op_roots(self, op, proj=(), depth=0, seen=None):
        if op[0] in ("c", "m"):
            return self.place_roots(op[1], proj, depth, seen)
        if op[0] == "k":
            c = op[1]
            if "static" in c:
                return {("static", self.fn.duid(c["static"]))}
            if "fn" in c:
                return {("fnconst", self.fn.duid(c["fn"]["d"]))}
            return {("const", c.get("v"), c.get("s", ""))}
        return {("other", -1, -1)}

    def call_at(self, bb):
        return self.fn.blocks[bb]["t"]
