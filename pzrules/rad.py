"""RAD-1 / RAD-2 (shared by C03 / C04 / C05 / C13): limb radices across conversion guards.

The key-switch family (and relinearisation, cswap/cmux) computes in the radix of the prepared key.  An operand whose limb radix may differ is first re-normalised into the
key radix (`vec_znx_normalize(tmp, OUT, .., operand, IN, ..)` or `glwe_normalize(tmp, operand)` with `tmp` taken from a layout literal that names the radix), and the
conversion is skipped when the two radices are equal - in which case the operand's limbs are used as they are.

RAD-1 the decision is a comparison `x == y` / `x != y` of two radices; it is sound only when {x, y} == {IN, OUT} of the conversion it guards (modulo radices asserted
      equal): a guard on a different pair skips the conversion for an operand whose radix does differ - its limbs are then added to / multiplied into an accumulator of
      another radix - or converts when nothing needs converting.
      Instance: a normalisation call whose execution is decided by a radix comparison (the call is dominated by an arm of the comparison's switch that is entered only
      from that switch, and the other arm can return).
RAD-2 a call of an operation that asserts `radix(param i) == radix(param j)` is never placed where the dominating radix decisions and assertions imply that the two
      arguments have different radices (such a call can only panic: the branch that converted the operands hands the unconverted ones to the operation).

The radix of an object is `base2k(object)` for a parameter and the `base2k` field of the layout literal for a scratch temporary.
Not decided: the arithmetic of the conversion (C08), noise.
"""
from .cfg import CFG, Flow
from .sym import Sym, Poly

T = ("deref", "deref_mut", "borrow", "borrow_mut", "as_mut", "as_ref", "into", "from", "clone", "to_ref", "to_mut", "as_usize", "as_u32")
CRATES = ("poulpy_core", "poulpy_bin_fhe", "poulpy_ckks")


def _obj_radix(fn, flow, sym, op, depth=0):
    """symbolic radix of a GLWE-like object operand, None when it cannot be named"""
    rr = flow.op_roots(op)
    if len(rr) != 1:
        return None
    r = next(iter(rr))
    if r[0] == "param" and not r[2]:
        return Poly.atom(("f", "base2k", (Poly.atom(("p", r[1], ())).key(),)))
    if r[0] == "agg" and not r[3]:
        st = fn.blocks[r[1]]["s"][r[2]][2]
        if st.get("ak") == "Adt" and st.get("fields") and "base2k" in st["fields"]:
            return _radix_val(fn, flow, sym, st["o"][st["fields"].index("base2k")], depth + 1)
        return None
    if r[0] == "call" and depth < 3:
        t = fn.blocks[r[1]]["t"]
        nm = (fn.callee_def(t) or {}).get("n", "")
        if nm.startswith("take_") and r[2][:1] == ("0",) and len(t["a"]) == 2:
            return _obj_radix(fn, flow, sym, t["a"][1], depth + 1)
        if nm in ("alloc_from_infos",) and t["a"]:
            return _obj_radix(fn, flow, sym, t["a"][-1], depth + 1)
    return None


def _radix_val(fn, flow, sym, op, depth=0):
    """a radix value: `object.base2k()` is named after the object (layout literal field for a scratch temporary), anything else symbolically"""
    rr = flow.op_roots(op)
    if len(rr) == 1 and depth < 4:
        r = next(iter(rr))
        if r[0] == "call" and not r[2]:
            t = fn.blocks[r[1]]["t"]
            if (fn.callee_def(t) or {}).get("n") == "base2k" and len(t["a"]) == 1:
                v = _obj_radix(fn, flow, sym, t["a"][0], depth + 1)
                if v is not None:
                    return v
    return sym.operand(op)


class Facts:
    """radix comparisons dominating a block: equalities (union-find) and decided inequalities"""

    def __init__(self):
        self.par = {}
        self.ne = []     # (x, y, decision?)
        self.txt = {}

    def find(self, k):
        self.par.setdefault(k, k)
        while self.par[k] != k:
            self.par[k] = self.par[self.par[k]]
            k = self.par[k]
        return k

    def union(self, a, b):
        ra, rb = self.find(a), self.find(b)
        if ra != rb:
            self.par[max(ra, rb, key=repr)] = min(ra, rb, key=repr)

    def cls(self, pl):
        self.txt.setdefault(pl.key(), repr(pl))
        return self.find(pl.key())


def _cmp_of(fn, flow, sym, tt):
    for r in flow.op_roots(tt["o"]):
        if r[0] == "bin":
            st = fn.blocks[r[1]]["s"][r[2]][2]
            if st.get("op") in ("Eq", "Ne"):
                return st["op"], _radix_val(fn, flow, sym, st["o"][0]), _radix_val(fn, flow, sym, st["o"][1])
        elif r[0] == "call":
            t2 = fn.blocks[r[1]]["t"]
            nm = (fn.callee_def(t2) or {}).get("n")
            if nm in ("eq", "ne") and len(t2["a"]) == 2:
                return ("Eq" if nm == "eq" else "Ne"), _radix_val(fn, flow, sym, t2["a"][0]), _radix_val(fn, flow, sym, t2["a"][1])
    return None


def facts_at(fn, g, flow, sym, bi, cache):
    """Facts for block bi from every two-way switch on a radix comparison one of whose arms dominates bi"""
    fx = Facts()
    cr = g.can_return()
    for bj in sorted(g.reach):
        tt = fn.blocks[bj]["t"]
        if bj == bi or not tt or tt["k"] != "Switch" or not g.dominates(bj, bi):
            continue
        arms = [(v, x) for v, x in tt["ts"]] + [("else", tt["else"])]
        mine = [(v, a) for v, a in arms if g.dominates(a, bi) and len(g.pred[a]) == 1]
        if len(mine) != 1 or len(arms) != 2:
            continue
        if bj not in cache:
            cache[bj] = _cmp_of(fn, flow, sym, tt)
        c = cache[bj]
        if c is None or "base2k" not in repr(c[1]) or "base2k" not in repr(c[2]):
            continue
        op, x, y = c
        truth = mine[0][0] != 0
        eq = (op == "Eq") == truth
        others = [a for v, a in arms if a != mine[0][1]]
        decision = any(a in cr for a in others)
        fx.cls(x), fx.cls(y)
        if eq:
            fx.union(x.key(), y.key())
        else:
            fx.ne.append((x, y, decision))
    return fx


def rad3(p, res, prefixes, rule="RAD-3"):
    """limb counts are comparable only between objects of one radix: `min` / `max` of the limb counts of two different objects (used as a loop bound or the size of a temporary) is
    taken only where a dominating assertion / decision makes their radices equal; otherwise limbs of 2^b1 are counted as limbs of 2^b2"""
    n = 0

    def size_params(pl):
        out = set()
        for a in _deep_atoms(pl):
            if a[0] == "f" and a[1] == "size":
                for mono, c in a[2][0]:
                    for x in mono:
                        if x[0] == "p":
                            out.add(x[1])
        return out
    for f in sorted(p.lib_fns(), key=lambda x: x.uid):
        if f.kind == "Closure" or not f.blocks or not f.uid.startswith(prefixes) or "::test_suite::" in f.uid or f.name.endswith(("tmp_bytes", "tmp_bytes_default")):
            continue
        sym = g = None
        for bi, t in f.calls():
            if (f.callee_def(t) or {}).get("n") not in ("min", "max") or len(t["a"]) != 2:
                continue
            if sym is None:
                sym = Sym(f, Flow(f))
                g = CFG(f)
            x, y = sym.operand(t["a"][0]), sym.operand(t["a"][1])
            px, py = size_params(x), size_params(y)
            if not (px and py and px != py and len(px) == 1 and len(py) == 1):
                continue
            # both objects carry a radix (a `base2k()` accessor is called on them somewhere in the crate: checked through the call in this function or asserted facts)
            n += 1
            fx = facts_at(f, g, Flow(f, transparent=T), sym, bi, {})
            bx = Poly.atom(("f", "base2k", (Poly.atom(("p", list(px)[0], ())).key(),)))
            by = Poly.atom(("f", "base2k", (Poly.atom(("p", list(py)[0], ())).key(),)))
            pn = f.param_names()
            if fx.cls(bx) == fx.cls(by):
                res.ok(rule, {"fn": f.pretty, "expr": "%s(%r, %r)" % ((f.callee_def(t) or {}).get("n"), x, y)})
            else:
                res.bad(rule, f.pretty, "%s(size(%s),size(%s))" % ((f.callee_def(t) or {}).get("n"), pn.get(list(px)[0]), pn.get(list(py)[0])),
                        "%s combines the limb counts of `%s` and `%s` (%s(%r, %r)) where nothing makes their radices equal: limbs of one radix are counted as limbs of the other (a "
                        "bound that is right for equal radices cuts or over-reads when they differ)" % (f.pretty, pn.get(list(px)[0]), pn.get(list(py)[0]), (f.callee_def(t) or {}).get("n"), x, y),
                        site=f.where(t["l"]))
    return n


def dominating_cmps(fn, g, flow, sym, bi):
    """comparisons whose truth is known at block bi: two-way switches on a comparison one of whose arms dominates bi (assertions and decisions alike) -> [(op, x, y)] with the
    truth folded into op"""
    out = []
    for bj in sorted(g.reach):
        tt = fn.blocks[bj]["t"]
        if bj == bi or not tt or tt["k"] != "Switch" or not g.dominates(bj, bi):
            continue
        arms = [(v, x) for v, x in tt["ts"]] + [("else", tt["else"])]
        mine = [(v, a) for v, a in arms if g.dominates(a, bi) and len(g.pred[a]) == 1]
        if len(mine) != 1 or len(arms) != 2:
            continue
        c = None
        for r in flow.op_roots(tt["o"]):
            if r[0] == "bin":
                st = fn.blocks[r[1]]["s"][r[2]][2]
                if st.get("op") in ("Eq", "Ne", "Lt", "Le", "Gt", "Ge"):
                    c = (st["op"], sym.operand(st["o"][0]), sym.operand(st["o"][1]))
            elif r[0] == "call":
                t2 = fn.blocks[r[1]]["t"]
                nm = (fn.callee_def(t2) or {}).get("n")
                if nm in ("eq", "ne", "lt", "le", "gt", "ge") and len(t2["a"]) == 2:
                    c = (nm.capitalize(), sym.operand(t2["a"][0]), sym.operand(t2["a"][1]))
        if c is None:
            continue
        op, x, y = c
        if mine[0][0] == 0:
            op = {"Eq": "Ne", "Ne": "Eq", "Lt": "Ge", "Ge": "Lt", "Le": "Gt", "Gt": "Le"}[op]
        out.append((op, x, y))
    return out


def row1(p, res, prefixes, rule="ROW-1"):
    """matrix objects (GGSW / GGLWE, their prepared and compressed forms) are addressed row by row: a row accessor `X.at(row, col)` / `X.at_mut(row, col)` indexed by the variable of
    a range loop needs  upper bound of the loop <= X.dnum()  - by construction (the bound is X's own row count or a minimum with it) or by a comparison that dominates the access
    (`assert!(res.dnum() <= a.dnum())`).  Decided as an implication over the extracted expressions: no valuation of the row counts satisfies the dominating comparisons and makes
    the loop bound exceed the object's rows."""
    from . import pwl
    from .c11 import _range_bounds
    n = 0
    for f in sorted(p.lib_fns(), key=lambda x: x.uid):
        if f.kind == "Closure" or not f.blocks or not f.uid.startswith(prefixes) or "::test_suite::" in f.uid:
            continue
        g = CFG(f)
        if not g.loops():
            continue
        flow = Flow(f, transparent=("to_ref", "to_mut", "deref", "deref_mut", "borrow", "borrow_mut", "as_ref", "as_mut", "clone"))
        plain = Flow(f)
        sym = None
        k = 0
        for bi, t in f.calls():
            nm = (f.callee_def(t) or {}).get("n")
            if nm not in ("at", "at_mut") or len(t["a"]) != 3 or g.innermost_loop(bi) is None:
                continue
            objs = {r[1] for r in flow.op_roots(t["a"][0]) if r[0] == "param"}
            if len(objs) != 1:
                continue
            if sym is None:
                sym = Sym(f, plain)
            idx = sym.operand(t["a"][1])
            lv = [a for a in idx.atoms() if a[0] == "call" and a[1] == f.uid and (f.callee_def(f.blocks[a[2]]["t"]) or {}).get("n") == "next"]
            if len(lv) != 1 or len(idx.t) != 1 or list(idx.t.values()) != [1]:
                continue
            rb = _range_bounds(f, plain, sym, f.blocks[lv[0][2]]["t"])
            if rb is None:
                continue
            hi = rb[1]
            if not any(a[0] == "f" and a[1] == "dnum" for a in _deep_atoms(hi)):
                continue            # not a row loop (columns / ranks are COL-2's business)
            obj = list(objs)[0]
            k += 1
            n += 1
            D = Poly.atom(("f", "dnum", (Poly.atom(("p", obj, ())).key(),)))
            facts = dominating_cmps(f, g, plain, sym, bi)
            # only the comparisons that (transitively) speak about the quantities of the obligation
            rel = _deep_atoms(hi) | _deep_atoms(D)
            changed = True
            keep = []
            while changed:
                changed = False
                for fc in facts:
                    if fc in keep:
                        continue
                    at = _deep_atoms(fc[1]) | _deep_atoms(fc[2])
                    if at & rel:
                        keep.append(fc)
                        rel |= at
                        changed = True
            facts = keep
            # atoms asserted equal share one value (rejection sampling never meets a conjunction of equalities)
            par = {}

            def find(x):
                par.setdefault(x, x)
                while par[x] != x:
                    par[x] = par[par[x]]
                    x = par[x]
                return x
            for op, a, b in facts:
                if op == "Eq" and len(a.t) == 1 and len(b.t) == 1 and list(a.t.values()) == [1] and list(b.t.values()) == [1]:
                    ka, kb = list(a.t)[0], list(b.t)[0]
                    if len(ka) == 1 and len(kb) == 1:
                        par[find(repr(ka[0]))] = find(repr(kb[0]))
            bad = None
            pts = 0
            import random as _r
            rnd = _r.Random(7)
            for i in range(1500):
                rr = _r.Random(rnd.random())
                span = (2, 4, 6)[i % 3]
                memo = {}

                def fresh(kk, rr=rr, span=span, memo=memo):
                    c = find(kk)
                    if c not in memo:
                        memo[c] = rr.randint(0, span)
                    return memo[c]
                ev = pwl.Eval(p, {"__fresh__": fresh})
                ev.syms[f.uid] = sym
                try:
                    if not all({"Eq": x == y, "Ne": x != y, "Lt": x < y, "Le": x <= y, "Gt": x > y, "Ge": x >= y}[op] for op, a, b in facts for x, y in [(ev.poly(a), ev.poly(b))]):
                        continue
                    h, d = ev.poly(hi), ev.poly(D)
                except (pwl.ErrPath, ZeroDivisionError):
                    continue
                pts += 1
                if h > d and bad is None:
                    bad = {"loop_bound": h, "rows": d}
            pn = f.param_names()
            if bad:
                res.bad(rule, f.pretty, "%s(%s)#%d:row-bound" % (nm, pn.get(obj), k),
                        "%s addresses row `row` of `%s` in a loop running to %r: nothing the function compares keeps that bound within %s.dnum() (e.g. bound %d, %d row(s)): the accessor "
                        "panics for an operand with fewer rows although the function's own preconditions admit it" % (f.pretty, pn.get(obj), hi, pn.get(obj), bad["loop_bound"], bad["rows"]),
                        site=f.where(t["l"]), detail=bad)
            elif pts >= 100:
                res.ok(rule, {"fn": f.pretty, "object": pn.get(obj), "bound": repr(hi)} if n % 7 == 1 else None)
            else:
                res.undec(rule, "%s: too few admissible points for %s" % (f.pretty, pn.get(obj)))
    return n


def _deep_atoms(pl, depth=0):
    out = set()
    for a in pl.atoms():
        out.add(a)
        if a[0] == "f" and depth < 5:
            for kk in a[2]:
                try:
                    out |= _deep_atoms(Poly(dict(kk)), depth + 1)
                except (TypeError, ValueError):
                    pass
    return out


def rad1(p, res, prefixes, names=("vec_znx_normalize", "glwe_normalize")):
    """returns the number of decided instances"""
    n = 0
    for f in sorted(p.lib_fns(), key=lambda x: x.uid):
        if f.kind == "Closure" or not f.blocks or not f.uid.startswith(prefixes) or "::test_suite::" in f.uid:
            continue
        norms = [(bi, t) for bi, t in f.calls() if (f.callee_def(t) or {}).get("n") in names]
        if not norms:
            continue
        g = CFG(f)
        flow = Flow(f, transparent=T)
        sym = Sym(f, Flow(f))
        cache = {}
        k = 0
        for bi, t in norms:
            nm = (f.callee_def(t) or {}).get("n")
            fx = facts_at(f, g, flow, sym, bi, cache)
            guards = [(x, y) for x, y, dec in fx.ne if dec]
            if not guards:
                continue
            k += 1
            if nm == "vec_znx_normalize" and len(t["a"]) >= 8:
                rout, rin = _radix_val(f, flow, sym, t["a"][2]), _radix_val(f, flow, sym, t["a"][6])
            elif nm == "glwe_normalize" and len(t["a"]) >= 3:
                rout, rin = _obj_radix(f, flow, sym, t["a"][1]), _obj_radix(f, flow, sym, t["a"][2])
            else:
                rout = rin = None
            inst = "%s#%d" % (nm, k)
            if rout is None or rin is None:
                res.undec("RAD-1", "%s: %s: the radix of an operand cannot be named" % (f.pretty, inst))
                continue
            n += 1
            want = {fx.cls(rout), fx.cls(rin)}
            hit = [(x, y) for x, y in guards if {fx.cls(x), fx.cls(y)} == want]
            if hit or len(want) < 2:
                # (a conversion between radices known equal is wasteful, not wrong)
                res.ok("RAD-1", {"fn": f.pretty, "site": inst, "in": repr(rin), "out": repr(rout), "guard": ("%r != %r" % hit[0]) if hit else "radices asserted equal"})
            else:
                x, y = guards[0]
                res.bad("RAD-1", f.pretty, "%s:%s->%s" % (nm, _short(rin), _short(rout)),
                        "%s: the conversion from radix %r into radix %r is decided by the comparison of %r with %r: when those two are equal but %r differs from %r the operand is "
                        "used unconverted in an accumulator of another radix" % (f.pretty, rin, rout, x, y, rin, rout), site=f.where(t["l"]),
                        detail={"in": repr(rin), "out": repr(rout), "guards": [[repr(a), repr(b)] for a, b in guards]})
    return n


def radix_preconditions(p):
    """{fn uid: [(param i, param j)]}: functions asserting (unconditionally) that two of their parameters have the same radix; forwarders inherit"""
    out = {}
    for f in p.lib_fns():
        if f.kind == "Closure" or not f.blocks or not f.uid.startswith(CRATES) or "::test_suite::" in f.uid:
            continue
        sw = [b for b in range(len(f.blocks)) if f.blocks[b]["t"] and f.blocks[b]["t"]["k"] == "Switch"]
        if not sw:
            continue
        g = CFG(f)
        cr = g.can_return()
        rets = [b for b in g.reach if f.blocks[b]["t"] and f.blocks[b]["t"]["k"] == "Return"]
        flow = sym = None
        pre = []
        for bj in sw:
            if bj not in g.reach or not all(g.dominates(bj, r) for r in rets):
                continue
            tt = f.blocks[bj]["t"]
            arms = [(v, x) for v, x in tt["ts"]] + [("else", tt["else"])]
            live = [(v, a) for v, a in arms if a in cr]
            if len(arms) != 2 or len(live) != 1:
                continue
            if flow is None:
                flow = Flow(f, transparent=T)
                sym = Sym(f, Flow(f))
            c = _cmp_of(f, flow, sym, tt)
            if c is None:
                continue
            op, x, y = c
            if ((op == "Eq") == (live[0][0] != 0)) is False:
                continue
            ps = []
            for v in (x, y):
                at = list(v.atoms())
                if len(v.t) == 1 and len(at) == 1 and at[0][0] == "f" and at[0][1] == "base2k":
                    inner = [a for mono, c_ in at[0][2][0] for a in mono]
                    if len(inner) == 1 and inner[0][0] == "p" and not inner[0][2]:
                        ps.append(inner[0][1])
            if len(ps) == 2 and ps[0] != ps[1]:
                pre.append((min(ps), max(ps)))
        if pre:
            out[f.uid] = sorted(set(pre))
    changed, rounds = True, 0
    while changed and rounds < 6:
        changed = False
        rounds += 1
        for f in p.lib_fns():
            if f.kind == "Closure" or f.uid in out or not f.blocks or not f.uid.startswith(CRATES + ("poulpy_cpu_",)) or len(f.blocks) > 12:
                continue
            flow = None
            for bi, t in f.calls():
                tg = [u for u in p.targets(f, t) if u in out]
                if not tg:
                    continue
                if flow is None:
                    flow = Flow(f, transparent=T)
                inh = []
                for (i, j) in out[tg[0]]:
                    if i - 1 >= len(t["a"]) or j - 1 >= len(t["a"]):
                        continue
                    ri = {q[1] for q in flow.op_roots(t["a"][i - 1]) if q[0] == "param" and not q[2]}
                    rj = {q[1] for q in flow.op_roots(t["a"][j - 1]) if q[0] == "param" and not q[2]}
                    if len(ri) == 1 and len(rj) == 1 and ri != rj:
                        inh.append((min(list(ri)[0], list(rj)[0]), max(list(ri)[0], list(rj)[0])))
                if inh:
                    out[f.uid] = sorted(set(inh))
                    changed = True
                    break
    return out


def rad2(p, res, prefixes):
    pre = radix_preconditions(p)
    n = 0
    for f in sorted(p.lib_fns(), key=lambda x: x.uid):
        if f.kind == "Closure" or not f.blocks or not f.uid.startswith(prefixes) or "::test_suite::" in f.uid:
            continue
        sites = []
        for bi, t in f.calls():
            tg = sorted(u for u in p.targets(f, t) if u in pre)
            if tg:
                sites.append((bi, t, tg[0]))
        if not sites:
            continue
        g = CFG(f)
        flow = Flow(f, transparent=T)
        sym = Sym(f, Flow(f))
        cache = {}
        k = {}
        for bi, t, tg in sites:
            nm = (f.callee_def(t) or {}).get("n")
            k[nm] = k.get(nm, 0) + 1
            fx = facts_at(f, g, flow, sym, bi, cache)
            for (i, j) in pre[tg]:
                if i - 1 >= len(t["a"]) or j - 1 >= len(t["a"]):
                    continue
                ri, rj = _obj_radix(f, flow, sym, t["a"][i - 1]), _obj_radix(f, flow, sym, t["a"][j - 1])
                if ri is None or rj is None:
                    continue
                n += 1
                ci, cj = fx.cls(ri), fx.cls(rj)
                sep = [(x, y) for x, y, dec in fx.ne if {fx.cls(x), fx.cls(y)} == {ci, cj}]
                if ci != cj and sep:
                    res.bad("RAD-2", f.pretty, "%s#%d:args%d,%d" % (nm, k[nm], i, j),
                            "%s: %s asserts that its arguments %d and %d have the same limb radix, and is called with radices %r and %r on a branch entered only when %r != %r: "
                            "the call can only panic (the operands converted for this branch are not the ones handed over)"
                            % (f.pretty, nm, i, j, ri, rj, sep[0][0], sep[0][1]), site=f.where(t["l"]), detail={"radix_i": repr(ri), "radix_j": repr(rj)})
                else:
                    res.ok("RAD-2", {"fn": f.pretty, "call": nm, "radices": [repr(ri), repr(rj)]} if ci == cj else None)
    return n


def _short(pl):
    return repr(pl).replace(" ", "")


# ------------------------------------------------------------------ UNIT-1
# limbs (L), rows (R), bits (B):  size -> L, dnum -> R, dsize -> L/R (limbs per row), base2k -> B/L, k / max_k -> B
_UNIT = {"size": (1, 0, 0), "max_size": (1, 0, 0), "dnum": (0, 1, 0), "dsize": (1, -1, 0), "base2k": (-1, 0, 1), "k": (0, 0, 1), "max_k": (0, 0, 1), "effective_k": (0, 0, 1)}
_UNIT_NAMES = ("limbs", "rows", "bits")


def _uadd(a, b):
    return tuple(x + y for x, y in zip(a, b))


def _unit_key(k, unit):
    from .sym import Poly
    return _unit(Poly(dict(k)), unit)


def _unit_atom(a, unit):
    if a[0] != "f":
        return None
    nm, args = a[1], a[2]
    if nm in unit and len(args) == 1:
        return unit[nm]
    if nm in ("div_ceil", "Div") and len(args) == 2:
        x, y = _unit_key(args[0], unit), _unit_key(args[1], unit)
        if x is None or y is None:
            return None
        x = (0, 0, 0) if x == "c" else x
        y = (0, 0, 0) if y == "c" else y
        return _uadd(x, tuple(-v for v in y))
    if nm in ("min", "max", "saturating_sub", "next_multiple_of") and len(args) == 2:
        x, y = _unit_key(args[0], unit), _unit_key(args[1], unit)
        if x is None or y is None:
            return None
        if x == "c":
            return y
        if y == "c":
            return x
        return x if x == y else None
    return None


def _unit(pl, unit):
    """unit of a polynomial: exponent vector over (limbs, rows, bits), "c" for a constant, None when any part is unknown or the terms disagree
    (a constant summand takes the unit of its neighbours: `dnum - 1` rows)"""
    ds = set()
    for mono, c in pl.t.items():
        d = (0, 0, 0)
        for a in mono:
            da = _unit_atom(a, unit)
            if da is None:
                return None
            if da != "c":
                d = _uadd(d, da)
        ds.add(d if mono else "c")
    real = {d for d in ds if d != "c"}
    if not real:
        return "c"
    if len(real) > 1:
        return None
    return real.pop()


def _unit_str(u):
    return " * ".join("%s^%d" % (n, e) if e != 1 else n for n, e in zip(_UNIT_NAMES, u) if e) or "dimensionless"


def unit1(p, res, prefixes, rule="UNIT-1"):
    """comparisons, `min` and `max` between two quantities whose units are known (limb counts, row counts of a gadget key, bit precisions; limbs = rows * dsize,
    bits = limbs * base2k): both sides have the same unit.  A limb count clamped by `key.dnum()` drops (dsize - 1) / dsize of the limbs as soon as dsize > 1.
    Where the function compares a `dsize()` with the constant 1, rows and limbs are the same unit."""
    from .sym import Sym, Poly
    n = 0
    for f in sorted(p.lib_fns(), key=lambda x: x.uid):
        if f.is_test() or not f.uid.startswith(prefixes) or "test_suite" in f.uid:
            continue
        sym = None
        sites = []
        one_digit = False
        for bi, blk in enumerate(f.blocks):
            if blk["c"]:
                continue
            for s in blk["s"]:
                if s[0] == "A" and s[2]["k"] == "Bin" and s[2]["op"] in ("Lt", "Le", "Gt", "Ge", "Eq", "Ne"):
                    sym = sym or Sym(f, Flow(f))
                    a, b = [sym.operand(o) for o in s[2]["o"]]
                    sites.append((s[2]["op"], a, b, s[3]))
                    for x, y in ((a, b), (b, a)):
                        if y.is_const() and y.const_value() == 1 and any(t[0] == "f" and t[1] == "dsize" for t in x.atoms()) and len(x.t) == 1:
                            one_digit = True
            t = blk["t"]
            if t and t["k"] == "Call" and (f.callee_def(t) or {}).get("n") in ("min", "max") and len(t["a"]) == 2:
                sym = sym or Sym(f, Flow(f))
                a, b = [sym.operand(o) for o in t["a"]]
                sites.append(((f.callee_def(t) or {}).get("n"), a, b, t["l"]))
        unit = dict(_UNIT)
        if one_digit:
            unit["dsize"] = (0, 0, 0)
            unit["dnum"] = (1, 0, 0)
        for op, a, b, line in sites:
            ua, ub = _unit(a, unit), _unit(b, unit)
            if ua in (None, "c") or ub in (None, "c"):
                continue
            n += 1
            if ua != ub:
                res.bad(rule, f.pretty, "unit-mismatch:%s:%s" % (_unit_str(ua), _unit_str(ub)),
                        "%s combines (%s) %r [%s] with %r [%s]: limbs = rows * dsize and bits = limbs * base2k - with more than one limb per row the two sides do not count the same thing"
                        % (f.pretty, op, a, _unit_str(ua), b, _unit_str(ub)), site=f.where(line))
            else:
                res.ok(rule, {"fn": f.pretty, "op": op, "unit": _unit_str(ua)} if n % 6 == 1 else None)
    return n


# ------------------------------------------------------------------ RAD-4
_MOVES = {  # callee name -> (dst, dst_col, src, src_col) argument positions (receiver = 0)
    "vec_znx_dft_apply": (3, 4, 5, 6), "vec_znx_copy": (1, 2, 3, 4), "vec_znx_normalize": (1, 4, 5, 7), "vec_znx_dft_copy": (3, 4, 5, 6),
    "vec_znx_big_normalize": (1, 4, 5, 7), "vec_znx_idft_apply": (1, 2, 3, 4), "vec_znx_switch_ring": (1, 2, 3, 4),
}


def rad4(p, res, prefixes, rule="RAD-4"):
    """the two arms of a decision on the equality of two radices do the same thing up to the conversion: for every object both arms fill column by column, the column of the
    original operand that ends in column c of that object (followed through one staging temporary: `normalize(tmp, 0 <- a, i + 1)`, `dft_apply(dst, i <- tmp, 0)`) is the same
    function of c in both arms.  The arm the tests never take (equal radices, or different ones) otherwise feeds the key-switch other columns than the arm they do take."""
    from .sym import Sym, Poly
    n = 0
    VT = ("deref", "deref_mut", "borrow", "borrow_mut", "as_mut", "as_ref", "into", "from", "clone", "to_ref", "to_mut", "data", "data_mut")
    for f in sorted(p.lib_fns(), key=lambda x: x.uid):
        if f.is_test() or not f.blocks or "test_suite" in f.uid or not f.uid.startswith(prefixes):
            continue
        g = None
        sym = None
        for bi, blk in enumerate(f.blocks):
            t = blk["t"]
            if not t or t["k"] != "Switch" or len(t.get("ts", [])) != 1:
                continue
            flow = Flow(f)
            is_radix = False
            for r in flow.op_roots(t["o"]):
                if r[0] == "bin" and f.blocks[r[1]]["s"][r[2]][2]["op"] in ("Eq", "Ne"):
                    sym = sym or Sym(f, flow)
                    ops = [sym.operand(o) for o in f.blocks[r[1]]["s"][r[2]][2]["o"]]
                    if all(any(a[0] == "f" and a[1] == "base2k" for a in _deep_atoms(o)) or (len(o.t) == 1 and any(x[0] == "call" for x in o.atoms())) for o in ops) and \
                            any(any(a[0] == "f" and a[1] == "base2k" for a in _deep_atoms(o)) for o in ops):
                        is_radix = True
            if not is_radix:
                continue
            g = g or CFG(f)
            dom = g.dom()
            arms = [t["ts"][0][1], t["e"]] if "e" in t else [t["ts"][0][1]] + [s2 for s2 in g.succ[bi] if s2 != t["ts"][0][1]]
            if len(arms) != 2:
                continue
            vflow = Flow(f, transparent=VT)

            def canon(pl):
                out = {}
                for mono, c in pl.t.items():
                    m = tuple(sorted((("v",) if (a[0] == "call" and a[1] == f.uid and (f.callee_def(f.blocks[a[2]]["t"]) or {}).get("n") == "next") else a for a in mono), key=repr))
                    out[m] = out.get(m, 0) + c
                return Poly(out)
            per_arm = []
            arm_blocks = [set(b for b in g.reach if arm in dom.get(b, ()) or b == arm) for arm in arms]
            inside = arm_blocks[0] | arm_blocks[1]
            for blocks in arm_blocks:
                moves = []
                for b in sorted(blocks):
                    tt = f.blocks[b]["t"]
                    if not tt or tt["k"] != "Call":
                        continue
                    pos = _MOVES.get((f.callee_def(tt) or {}).get("n"))
                    if pos is None or len(tt["a"]) <= max(pos):
                        continue
                    d, dc, s_, sc_ = pos
                    moves.append((frozenset((r[0], r[1]) for r in vflow.op_roots(tt["a"][d])), canon(sym.operand(tt["a"][dc])),
                                  frozenset((r[0], r[1]) for r in vflow.op_roots(tt["a"][s_])), canon(sym.operand(tt["a"][sc_])), b))
                written = {D0 for D0, _, _, _, _ in moves}
                final = {}
                opaque = set()
                for D, dc, S, sc_, b in moves:
                    srcs = [(S, sc_)]
                    if S in written:
                        # one level of composition through a staging object written earlier in the same iteration
                        srcs = [(S0, sc0) for D0, dc0, S0, sc0, b0 in moves if D0 == S and dc0 == sc_ and S0 != S and b0 in dom.get(b, ()) and g.innermost_loop(b0) is g.innermost_loop(b)]
                        if not srcs:
                            opaque.add(D)
                    for S1, sc1 in srcs:
                        if S1 in written or any(r[0] != "param" and r[1] in inside for r in S1):
                            opaque.add(D)   # produced inside the arm: not comparable across arms
                        else:
                            final.setdefault(D, set()).add((tuple(sorted(S1)), repr(sc1 - dc)))
                # an object that the arm also reads back as a staging source holds several values in turn: its history is not compared
                opaque |= {S for _, _, S, _, _ in moves if S in written}
                per_arm.append((final, opaque))
            common = [D for D in per_arm[0][0] if D in per_arm[1][0] and D not in per_arm[0][1] and D not in per_arm[1][1]]
            for D in common:
                # only objects filled, in both arms, from operands that exist before the decision
                a0, a1 = per_arm[0][0][D], per_arm[1][0][D]
                if not a0 or not a1:
                    continue
                n += 1
                if a0 != a1:
                    res.bad(rule, f.pretty, "arms-move-different-columns",
                            "%s: on one arm of the radix comparison the object %s is filled from (operand, column offset) %s, on the other from %s: the two arms of the radix decision feed "
                            "different columns of the operand into the same computation" % (f.pretty, sorted(D), sorted(a0), sorted(a1)), site=f.where(t["l"]))
                else:
                    res.ok(rule, {"fn": f.pretty, "object": sorted(D), "moves": sorted(a0)})
    return n
