"""Type-level witnesses: compile_fail doc-tests with compiling twins, built against /repo's current sources (cargo +nightly test --doc).
The deciding step is the compiler's type and borrow checker; nothing of the library is executed (the twins only have to compile and the
compile_fail blocks never produce a binary)."""
import hashlib
import json
import os
import re
import shutil
import subprocess

from . import build

WDIR = os.path.join(build.VERIF, "witness")
WITNESSES = {
    "W1ReadOnlyViews": "a view over &[u8] cannot hand out mutable limbs (ZnxViewMut needs DataMut): E0599",
    "W2ScratchCarving": "a scratch cannot be carved again while a temporary taken from it is alive: E0499",
    "W3SourceNotClone": "a Source cannot be cloned; a second stream must be branched explicitly: E0599",
    "W4NoDanglingTemporaries": "a temporary carved from a scratch cannot outlive the buffer owning the bytes: E0515",
    "W5BackendTagOfTemporaries": "a DFT temporary taken from scratch cannot be typed for another backend than the module that sized it: E0277",
}
_RESULT = {}


def run_all():
    """returns {name: {"compile_fail": bool, "twin": bool}} ; cached per (repo digest, witness source)"""
    src = open(os.path.join(WDIR, "src", "lib.rs"), "rb").read()
    dig = hashlib.sha256(build.repo_digest().encode() + src).hexdigest()[:24]
    if dig in _RESULT:
        return _RESULT[dig]
    cdir = os.path.join(build.CACHE, "witness")
    os.makedirs(cdir, exist_ok=True)
    cpath = os.path.join(cdir, dig + ".json")
    if os.path.exists(cpath):
        _RESULT[dig] = json.load(open(cpath))
        return _RESULT[dig]
    shutil.copyfile(os.path.join(build.REPO, "Cargo.lock"), os.path.join(WDIR, "Cargo.lock"))
    env = dict(os.environ)
    env["CARGO_NET_OFFLINE"] = "true"
    env["CARGO_TARGET_DIR"] = os.path.join(build.CACHE, "witness-target")
    pr = subprocess.run(["cargo", "+nightly", "test", "--doc", "--offline"], cwd=WDIR, env=env, stdout=subprocess.PIPE, stderr=subprocess.STDOUT, text=True)
    out = {}
    for m in re.finditer(r"^test src/lib\.rs - (\w+) \(line \d+\)( - compile fail)? \.\.\. (\w+)", pr.stdout, re.M):
        ent = out.setdefault(m.group(1), {})
        ent["compile_fail" if m.group(2) else "twin"] = m.group(3) == "ok"
    res = {"results": out, "exit": pr.returncode, "tail": pr.stdout[-1500:]}
    json.dump(res, open(cpath, "w"))
    _RESULT[dig] = res
    return res


def check(res, names, rule="TW-1"):
    res.rule(rule, "compile-fail witnesses with compiling twins, built against the current /repo: " + "; ".join("%s - %s" % (n, WITNESSES[n]) for n in names))
    r = run_all()
    for n in names:
        ent = r["results"].get(n, {})
        if ent.get("compile_fail") and ent.get("twin"):
            res.ok(rule, {"witness": n, "states": WITNESSES[n], "compile_fail_block": "rejected by rustc with the expected error code", "twin": "compiles"})
        elif "compile_fail" not in ent or "twin" not in ent:
            res.bad(rule, n, "anchor-lost:witness", "witness %s did not run (cargo exit %s): %s" % (n, r["exit"], r["tail"][-400:]))
        elif not ent.get("twin"):
            res.bad(rule, n, "twin-broken", "the compiling twin of witness %s no longer compiles: the witness no longer names the API as it is (%s)" % (n, r["tail"][-300:]))
        else:
            res.bad(rule, n, "witness-compiles", "the program that must not type-check now compiles: %s" % WITNESSES[n])
    return len(names)
